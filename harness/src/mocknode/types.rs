//! CQL types, cell encoders, column specs and the RESULT/ERROR body encoders of mocknode
//! (own implementation, see wire.rs).
use super::wire::W;
use uuid::Uuid;

/// A CQL type as it appears in result/prepared metadata (`[option]`) and in
/// `system_schema.columns.type`.
#[derive(Clone, Debug, PartialEq, Eq)]
pub enum CqlType {
    Custom(String),
    Ascii,
    BigInt,
    Blob,
    Boolean,
    Counter,
    Decimal,
    Double,
    Float,
    Int,
    Timestamp,
    Uuid,
    Text,
    Varint,
    Timeuuid,
    Inet,
    Date,
    Time,
    SmallInt,
    TinyInt,
    Duration,
    List(Box<CqlType>),
    Map(Box<CqlType>, Box<CqlType>),
    Set(Box<CqlType>),
    Udt { keyspace: String, name: String, fields: Vec<(String, CqlType)> },
    Tuple(Vec<CqlType>),
}

impl CqlType {
    pub fn list(t: CqlType) -> CqlType {
        CqlType::List(Box::new(t))
    }
    pub fn set(t: CqlType) -> CqlType {
        CqlType::Set(Box::new(t))
    }
    pub fn map(k: CqlType, v: CqlType) -> CqlType {
        CqlType::Map(Box::new(k), Box::new(v))
    }

    /// `[option]` encoding of the type.
    pub fn encode(&self, w: &mut W) {
        use CqlType::*;
        match self {
            Custom(s) => {
                w.short(0x0000).string(s);
            }
            Ascii => {
                w.short(0x0001);
            }
            BigInt => {
                w.short(0x0002);
            }
            Blob => {
                w.short(0x0003);
            }
            Boolean => {
                w.short(0x0004);
            }
            Counter => {
                w.short(0x0005);
            }
            Decimal => {
                w.short(0x0006);
            }
            Double => {
                w.short(0x0007);
            }
            Float => {
                w.short(0x0008);
            }
            Int => {
                w.short(0x0009);
            }
            Timestamp => {
                w.short(0x000B);
            }
            Uuid => {
                w.short(0x000C);
            }
            Text => {
                w.short(0x000D);
            }
            Varint => {
                w.short(0x000E);
            }
            Timeuuid => {
                w.short(0x000F);
            }
            Inet => {
                w.short(0x0010);
            }
            Date => {
                w.short(0x0011);
            }
            Time => {
                w.short(0x0012);
            }
            SmallInt => {
                w.short(0x0013);
            }
            TinyInt => {
                w.short(0x0014);
            }
            Duration => {
                w.short(0x0015);
            }
            List(t) => {
                w.short(0x0020);
                t.encode(w);
            }
            Map(k, v) => {
                w.short(0x0021);
                k.encode(w);
                v.encode(w);
            }
            Set(t) => {
                w.short(0x0022);
                t.encode(w);
            }
            Udt { keyspace, name, fields } => {
                w.short(0x0030).string(keyspace).string(name).short(fields.len() as u16);
                for (n, t) in fields {
                    w.string(n);
                    t.encode(w);
                }
            }
            Tuple(ts) => {
                w.short(0x0031).short(ts.len() as u16);
                for t in ts {
                    t.encode(w);
                }
            }
        }
    }

    /// The CQL spelling used in `system_schema.columns.type` / `system_schema.types.field_types`.
    pub fn cql_name(&self) -> String {
        use CqlType::*;
        match self {
            Custom(s) => format!("'{}'", s),
            Ascii => "ascii".into(),
            BigInt => "bigint".into(),
            Blob => "blob".into(),
            Boolean => "boolean".into(),
            Counter => "counter".into(),
            Decimal => "decimal".into(),
            Double => "double".into(),
            Float => "float".into(),
            Int => "int".into(),
            Timestamp => "timestamp".into(),
            Uuid => "uuid".into(),
            Text => "text".into(),
            Varint => "varint".into(),
            Timeuuid => "timeuuid".into(),
            Inet => "inet".into(),
            Date => "date".into(),
            Time => "time".into(),
            SmallInt => "smallint".into(),
            TinyInt => "tinyint".into(),
            Duration => "duration".into(),
            List(t) => format!("list<{}>", t.cql_name()),
            Map(k, v) => format!("map<{}, {}>", k.cql_name(), v.cql_name()),
            Set(t) => format!("set<{}>", t.cql_name()),
            Udt { name, .. } => format!("frozen<{}>", name),
            Tuple(ts) => {
                format!("frozen<tuple<{}>>", ts.iter().map(|t| t.cql_name()).collect::<Vec<_>>().join(", "))
            }
        }
    }
}

/// One serialized cell: `None` = null.
pub type Cell = Option<Vec<u8>>;

/// Encoders of cell contents (the bytes inside a `[bytes]`).
pub mod cell {
    use super::*;
    pub fn null() -> Cell {
        None
    }
    pub fn int(v: i32) -> Cell {
        Some(v.to_be_bytes().to_vec())
    }
    pub fn bigint(v: i64) -> Cell {
        Some(v.to_be_bytes().to_vec())
    }
    pub fn smallint(v: i16) -> Cell {
        Some(v.to_be_bytes().to_vec())
    }
    pub fn tinyint(v: i8) -> Cell {
        Some(v.to_be_bytes().to_vec())
    }
    pub fn boolean(v: bool) -> Cell {
        Some(vec![v as u8])
    }
    pub fn double(v: f64) -> Cell {
        Some(v.to_be_bytes().to_vec())
    }
    pub fn float(v: f32) -> Cell {
        Some(v.to_be_bytes().to_vec())
    }
    pub fn text(v: &str) -> Cell {
        Some(v.as_bytes().to_vec())
    }
    pub fn blob(v: &[u8]) -> Cell {
        Some(v.to_vec())
    }
    pub fn uuid(v: Uuid) -> Cell {
        Some(v.as_bytes().to_vec())
    }
    pub fn inet(v: std::net::IpAddr) -> Cell {
        Some(match v {
            std::net::IpAddr::V4(a) => a.octets().to_vec(),
            std::net::IpAddr::V6(a) => a.octets().to_vec(),
        })
    }
    /// list<..> / set<..>: `[int n]` then n `[bytes]` elements
    pub fn list(elems: &[Cell]) -> Cell {
        let mut w = W::new();
        w.int(elems.len() as i32);
        for e in elems {
            w.bytes(e.as_deref());
        }
        Some(w.done())
    }
    /// map<..>: `[int n]` then n pairs of `[bytes]`
    pub fn map(pairs: &[(Cell, Cell)]) -> Cell {
        let mut w = W::new();
        w.int(pairs.len() as i32);
        for (k, v) in pairs {
            w.bytes(k.as_deref());
            w.bytes(v.as_deref());
        }
        Some(w.done())
    }
    /// tuple / UDT: the fields as consecutive `[bytes]`
    pub fn tuple(fields: &[Cell]) -> Cell {
        let mut w = W::new();
        for f in fields {
            w.bytes(f.as_deref());
        }
        Some(w.done())
    }
    pub fn text_list(v: &[String]) -> Cell {
        list(&v.iter().map(|s| text(s)).collect::<Vec<_>>())
    }
    pub fn text_map(v: &[(String, String)]) -> Cell {
        map(&v.iter().map(|(k, x)| (text(k), text(x))).collect::<Vec<_>>())
    }
}

/// Decode helpers for the values the driver sends (used by the system-table filters and by tests).
pub mod uncell {
    use super::super::wire::Rd;
    /// list<text>/set<text> value → strings
    pub fn text_list(b: &[u8]) -> Option<Vec<String>> {
        let mut r = Rd::new(b);
        let n = r.int().ok()?;
        let mut out = Vec::new();
        for _ in 0..n {
            out.push(String::from_utf8(r.bytes().ok()??).ok()?);
        }
        Some(out)
    }
    /// list<uuid> value → raw 16-byte vectors
    pub fn bytes_list(b: &[u8]) -> Option<Vec<Vec<u8>>> {
        let mut r = Rd::new(b);
        let n = r.int().ok()?;
        let mut out = Vec::new();
        for _ in 0..n {
            out.push(r.bytes().ok()??);
        }
        Some(out)
    }
    pub fn int(b: &[u8]) -> Option<i32> {
        Some(i32::from_be_bytes(b.try_into().ok()?))
    }
    pub fn bigint(b: &[u8]) -> Option<i64> {
        Some(i64::from_be_bytes(b.try_into().ok()?))
    }
}

/// A column of result or prepared metadata.
#[derive(Clone, Debug, PartialEq, Eq)]
pub struct ColSpec {
    pub keyspace: String,
    pub table: String,
    pub name: String,
    pub typ: CqlType,
}
impl ColSpec {
    pub fn new(keyspace: &str, table: &str, name: &str, typ: CqlType) -> ColSpec {
        ColSpec { keyspace: keyspace.into(), table: table.into(), name: name.into(), typ }
    }
}

fn same_table(cols: &[ColSpec]) -> bool {
    cols.windows(2).all(|w| w[0].keyspace == w[1].keyspace && w[0].table == w[1].table)
}

/// `<col_spec_1>...<col_spec_n>` preceded by the global table spec when all columns share a table.
/// Returns whether the global-table-spec flag (0x0001) has to be set.
fn encode_col_specs(w: &mut W, cols: &[ColSpec], global: bool) {
    if global && !cols.is_empty() {
        w.string(&cols[0].keyspace).string(&cols[0].table);
    }
    for c in cols {
        if !global {
            w.string(&c.keyspace).string(&c.table);
        }
        w.string(&c.name);
        c.typ.encode(w);
    }
}

/// How the result metadata of a Rows response is sent.
#[derive(Clone, Debug, PartialEq, Eq, Default)]
pub enum MetaMode {
    /// NO_METADATA iff the request carried SKIP_METADATA, full metadata otherwise (what a server does)
    #[default]
    Auto,
    /// full metadata regardless of the request
    Full,
    /// flag NO_METADATA (0x0004): only flags, column count (and paging state)
    NoMetadata,
    /// flag METADATA_CHANGED (0x0008) + this new result metadata id + full metadata
    /// (only meaningful when SCYLLA_USE_METADATA_ID was negotiated)
    NewMetadataId(Vec<u8>),
    /// full metadata but one table spec per column instead of the global one
    PerColumnTableSpec,
}

/// One page of rows.
#[derive(Clone, Debug, PartialEq, Eq, Default)]
pub struct RowsSpec {
    pub columns: Vec<ColSpec>,
    pub rows: Vec<Vec<Cell>>,
    /// `Some` sets HAS_MORE_PAGES and sends this paging state
    pub paging_state: Option<Vec<u8>>,
    pub meta: MetaMode,
}

impl RowsSpec {
    pub fn new(columns: Vec<ColSpec>, rows: Vec<Vec<Cell>>) -> RowsSpec {
        RowsSpec { columns, rows, paging_state: None, meta: MetaMode::Auto }
    }
    pub fn with_paging_state(mut self, ps: Vec<u8>) -> RowsSpec {
        self.paging_state = Some(ps);
        self
    }
    pub fn with_meta(mut self, m: MetaMode) -> RowsSpec {
        self.meta = m;
        self
    }
}

/// result metadata: `<flags><columns_count>[<paging_state>][<new_metadata_id>][<global_table_spec>?<col_spec_1>...]`
fn encode_result_metadata(w: &mut W, cols: &[ColSpec], paging_state: Option<&[u8]>, meta: &MetaMode, skip_requested: bool) {
    let no_meta = matches!(meta, MetaMode::NoMetadata) || (matches!(meta, MetaMode::Auto) && skip_requested);
    let global = !matches!(meta, MetaMode::PerColumnTableSpec) && same_table(cols) && !cols.is_empty();
    let mut flags = 0i32;
    if paging_state.is_some() {
        flags |= 0x0002;
    }
    if no_meta {
        flags |= 0x0004;
    } else if global {
        flags |= 0x0001;
    }
    if let MetaMode::NewMetadataId(_) = meta {
        flags |= 0x0008;
    }
    w.int(flags).int(cols.len() as i32);
    if let Some(ps) = paging_state {
        w.bytes(Some(ps));
    }
    if let MetaMode::NewMetadataId(id) = meta {
        w.short_bytes(id);
    }
    if !no_meta {
        encode_col_specs(w, cols, global);
    }
}

/// RESULT/Rows body.
pub fn body_result_rows(spec: &RowsSpec, skip_metadata_requested: bool) -> Vec<u8> {
    let mut w = W::new();
    w.int(2);
    encode_result_metadata(&mut w, &spec.columns, spec.paging_state.as_deref(), &spec.meta, skip_metadata_requested);
    w.int(spec.rows.len() as i32);
    for row in &spec.rows {
        for c in row {
            w.bytes(c.as_deref());
        }
    }
    w.done()
}

/// What a PREPARE of some statement text answers.
#[derive(Clone, Debug, PartialEq, Eq, Default)]
pub struct PreparedSpec {
    /// statement id; empty = derive a 16-byte id from the statement text
    pub id: Vec<u8>,
    /// result metadata id (sent only on connections that negotiated SCYLLA_USE_METADATA_ID);
    /// empty = derive from the result columns
    pub result_metadata_id: Vec<u8>,
    pub bind_columns: Vec<ColSpec>,
    /// indexes into `bind_columns` of the partition key components, in partition key order
    pub pk_indexes: Vec<u16>,
    pub result_columns: Vec<ColSpec>,
    /// mark the statement as LWT (sets the negotiated LWT mask in the prepared metadata flags)
    pub lwt: bool,
}

/// RESULT/Prepared body.
pub fn body_result_prepared(p: &PreparedSpec, id: &[u8], result_metadata_id: Option<&[u8]>, lwt_mask: Option<u32>) -> Vec<u8> {
    let mut w = W::new();
    w.int(4).short_bytes(id);
    if let Some(rid) = result_metadata_id {
        w.short_bytes(rid);
    }
    // prepared metadata: <flags><columns_count><pk_count>[<pk_index>...][<global_table_spec>?<col_spec>...]
    let global = same_table(&p.bind_columns) && !p.bind_columns.is_empty();
    let mut flags: u32 = if global { 1 } else { 0 };
    if p.lwt {
        if let Some(m) = lwt_mask {
            flags |= m;
        }
    }
    w.int(flags as i32).int(p.bind_columns.len() as i32).int(p.pk_indexes.len() as i32);
    for i in &p.pk_indexes {
        w.short(*i);
    }
    encode_col_specs(&mut w, &p.bind_columns, global);
    // result metadata (never NO_METADATA here; an empty column list is what non-SELECTs have)
    encode_result_metadata(&mut w, &p.result_columns, None, &MetaMode::Full, false);
    w.done()
}

/// Deterministic 16-byte digest used for default statement / metadata ids (FNV-1a based; it only
/// has to be stable and collision-free in practice for the texts of one scenario).
pub fn digest16(data: &[u8]) -> Vec<u8> {
    let mut out = Vec::with_capacity(16);
    for salt in 0u64..2 {
        let mut h: u64 = 0xcbf29ce484222325 ^ salt.wrapping_mul(0x9E3779B97F4A7C15);
        for b in data {
            h ^= *b as u64;
            h = h.wrapping_mul(0x100000001b3);
        }
        h ^= h >> 29;
        h = h.wrapping_mul(0xBF58476D1CE4E5B9);
        h ^= h >> 32;
        out.extend_from_slice(&h.to_be_bytes());
    }
    out
}

/// Database errors (ERROR body = `<int code><string message>` + the code-specific fields).
#[derive(Clone, Debug, PartialEq, Eq)]
pub enum DbErr {
    ServerError,
    ProtocolError,
    AuthenticationError,
    Unavailable { consistency: u16, required: i32, alive: i32 },
    Overloaded,
    IsBootstrapping,
    TruncateError,
    WriteTimeout { consistency: u16, received: i32, required: i32, write_type: String },
    ReadTimeout { consistency: u16, received: i32, required: i32, data_present: bool },
    ReadFailure { consistency: u16, received: i32, required: i32, numfailures: i32, data_present: bool },
    FunctionFailure { keyspace: String, function: String, arg_types: Vec<String> },
    WriteFailure { consistency: u16, received: i32, required: i32, numfailures: i32, write_type: String },
    SyntaxError,
    Unauthorized,
    Invalid,
    ConfigError,
    AlreadyExists { keyspace: String, table: String },
    Unprepared { id: Vec<u8> },
    /// ScyllaDB rate-limit error; `code` must be the one advertised in SUPPORTED
    RateLimitReached { code: i32, op_type: u8, rejected_by_coordinator: bool },
    /// any other code with raw trailing bytes
    Other { code: i32, extra: Vec<u8> },
}

impl DbErr {
    pub fn code(&self) -> i32 {
        use DbErr::*;
        match self {
            ServerError => 0x0000,
            ProtocolError => 0x000A,
            AuthenticationError => 0x0100,
            Unavailable { .. } => 0x1000,
            Overloaded => 0x1001,
            IsBootstrapping => 0x1002,
            TruncateError => 0x1003,
            WriteTimeout { .. } => 0x1100,
            ReadTimeout { .. } => 0x1200,
            ReadFailure { .. } => 0x1300,
            FunctionFailure { .. } => 0x1400,
            WriteFailure { .. } => 0x1500,
            SyntaxError => 0x2000,
            Unauthorized => 0x2100,
            Invalid => 0x2200,
            ConfigError => 0x2300,
            AlreadyExists { .. } => 0x2400,
            Unprepared { .. } => 0x2500,
            RateLimitReached { code, .. } => *code,
            Other { code, .. } => *code,
        }
    }
}

#[derive(Clone, Debug, PartialEq, Eq)]
pub struct ErrorSpec {
    pub err: DbErr,
    pub message: String,
}
impl ErrorSpec {
    pub fn new(err: DbErr, message: &str) -> ErrorSpec {
        ErrorSpec { err, message: message.into() }
    }
}

pub fn body_error(e: &ErrorSpec) -> Vec<u8> {
    use DbErr::*;
    let mut w = W::new();
    w.int(e.err.code()).string(&e.message);
    match &e.err {
        Unavailable { consistency, required, alive } => {
            w.short(*consistency).int(*required).int(*alive);
        }
        WriteTimeout { consistency, received, required, write_type } => {
            w.short(*consistency).int(*received).int(*required).string(write_type);
        }
        ReadTimeout { consistency, received, required, data_present } => {
            w.short(*consistency).int(*received).int(*required).u8(*data_present as u8);
        }
        ReadFailure { consistency, received, required, numfailures, data_present } => {
            w.short(*consistency).int(*received).int(*required).int(*numfailures).u8(*data_present as u8);
        }
        FunctionFailure { keyspace, function, arg_types } => {
            w.string(keyspace).string(function).string_list(arg_types);
        }
        WriteFailure { consistency, received, required, numfailures, write_type } => {
            w.short(*consistency).int(*received).int(*required).int(*numfailures).string(write_type);
        }
        AlreadyExists { keyspace, table } => {
            w.string(keyspace).string(table);
        }
        Unprepared { id } => {
            w.short_bytes(id);
        }
        RateLimitReached { op_type, rejected_by_coordinator, .. } => {
            w.u8(*op_type).u8(*rejected_by_coordinator as u8);
        }
        Other { extra, .. } => {
            w.raw(extra);
        }
        _ => {}
    }
    w.done()
}

/// The value of the `tablets-routing-v1` custom payload entry:
/// `tuple<bigint, bigint, list<tuple<uuid, int>>>` without an outer length.
/// ScyllaDB sends the left-open range `(first_token, last_token]`.
pub fn tablet_payload_value(first_token: i64, last_token: i64, replicas: &[(Uuid, i32)]) -> Vec<u8> {
    let reps: Vec<Cell> = replicas.iter().map(|(u, s)| cell::tuple(&[cell::uuid(*u), cell::int(*s)])).collect();
    cell::tuple(&[cell::bigint(first_token), cell::bigint(last_token), cell::list(&reps)]).unwrap()
}
pub const TABLETS_PAYLOAD_KEY: &str = "tablets-routing-v1";
