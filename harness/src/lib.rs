//! Shared helpers for the correspondence harness: one seeded PRNG, hex output, case writer.
#![allow(dead_code)]
use std::fmt::Write as _;
use std::io::Write as _;

/// xoshiro256** seeded through splitmix64 — every random choice of a run derives from one seed.
pub struct Rng {
    s: [u64; 4],
}

impl Rng {
    pub fn new(seed: u64) -> Self {
        let mut z = seed;
        let mut next = || {
            z = z.wrapping_add(0x9E3779B97F4A7C15);
            let mut x = z;
            x = (x ^ (x >> 30)).wrapping_mul(0xBF58476D1CE4E5B9);
            x = (x ^ (x >> 27)).wrapping_mul(0x94D049BB133111EB);
            x ^ (x >> 31)
        };
        Rng { s: [next(), next(), next(), next()] }
    }
    pub fn u64(&mut self) -> u64 {
        let r = self.s[1].wrapping_mul(5).rotate_left(7).wrapping_mul(9);
        let t = self.s[1] << 17;
        self.s[2] ^= self.s[0];
        self.s[3] ^= self.s[1];
        self.s[1] ^= self.s[2];
        self.s[0] ^= self.s[3];
        self.s[2] ^= t;
        self.s[3] = self.s[3].rotate_left(45);
        r
    }
    /// uniform in [0, n) (n > 0)
    pub fn below(&mut self, n: u64) -> u64 {
        self.u64() % n
    }
    /// uniform in [lo, hi]
    pub fn range(&mut self, lo: u64, hi: u64) -> u64 {
        lo + self.below(hi - lo + 1)
    }
    pub fn bool(&mut self) -> bool {
        self.u64() & 1 == 1
    }
    /// true with probability num/den
    pub fn chance(&mut self, num: u64, den: u64) -> bool {
        self.below(den) < num
    }
    pub fn pick<'a, T>(&mut self, xs: &'a [T]) -> &'a T {
        &xs[self.below(xs.len() as u64) as usize]
    }
    pub fn bytes(&mut self, len: usize) -> Vec<u8> {
        (0..len).map(|_| self.u64() as u8).collect()
    }
    pub fn shuffle<T>(&mut self, xs: &mut [T]) {
        for i in (1..xs.len()).rev() {
            let j = self.below(i as u64 + 1) as usize;
            xs.swap(i, j);
        }
    }
    pub fn i64(&mut self) -> i64 {
        self.u64() as i64
    }
}

pub fn hex_u(v: u128) -> String {
    format!("{:x}", v)
}
pub fn hex_i(v: i128) -> String {
    if v < 0 { format!("-{:x}", v.unsigned_abs()) } else { format!("{:x}", v) }
}
pub fn hex_bytes(b: &[u8]) -> String {
    if b.is_empty() {
        return "-".to_string();
    }
    let mut s = String::with_capacity(b.len() * 2);
    for x in b {
        write!(s, "{:02x}", x).unwrap();
    }
    s
}
pub fn hex_list<T: Copy + Into<u128>>(l: &[T]) -> String {
    if l.is_empty() {
        return "-".to_string();
    }
    l.iter().map(|x| hex_u((*x).into())).collect::<Vec<_>>().join(",")
}

/// Command line shared by all runners: `<bin> --seed N --n COUNT --out FILE [--tier quick|thorough] [--replay FILE]`
pub struct Args {
    pub seed: u64,
    pub n: u64,
    pub out: String,
    pub tier: String,
    pub replay: Option<String>,
    pub extra: Vec<String>,
}
pub fn parse_args() -> Args {
    let mut a = Args { seed: 1, n: 1000, out: "/dev/stdout".into(), tier: "quick".into(), replay: None, extra: vec![] };
    let mut it = std::env::args().skip(1);
    while let Some(k) = it.next() {
        match k.as_str() {
            "--seed" => a.seed = it.next().unwrap().parse().unwrap(),
            "--n" => a.n = it.next().unwrap().parse().unwrap(),
            "--out" => a.out = it.next().unwrap(),
            "--tier" => a.tier = it.next().unwrap(),
            "--replay" => a.replay = Some(it.next().unwrap()),
            _ => a.extra.push(k),
        }
    }
    a
}

/// Buffered writer of "<case> | <impl output>" lines.
pub struct Out {
    w: std::io::BufWriter<std::fs::File>,
    pub lines: u64,
}
impl Out {
    pub fn create(path: &str) -> Self {
        Out { w: std::io::BufWriter::new(std::fs::File::create(path).expect("create out")), lines: 0 }
    }
    pub fn case(&mut self, case: &str, out: &str) {
        writeln!(self.w, "{} | {}", case, out).unwrap();
        self.lines += 1;
    }
    pub fn finish(mut self) {
        self.w.flush().unwrap();
    }
}

/// Read replay/corpus lines: each non-empty, non-# line's part before '|' is a case.
pub fn read_cases(path: &str) -> Vec<String> {
    std::fs::read_to_string(path)
        .map(|s| {
            s.lines()
                .map(|l| l.split('|').next().unwrap().trim().to_string())
                .filter(|l| !l.is_empty() && !l.starts_with('#'))
                .collect()
        })
        .unwrap_or_default()
}

/// Run a closure catching panics; returns Err(panic message).
pub fn catch<T>(f: impl FnOnce() -> T + std::panic::UnwindSafe) -> Result<T, String> {
    std::panic::catch_unwind(f).map_err(|e| {
        if let Some(s) = e.downcast_ref::<&str>() {
            s.to_string()
        } else if let Some(s) = e.downcast_ref::<String>() {
            s.clone()
        } else {
            "panic".to_string()
        }
    })
}
pub fn quiet_panics() {
    std::panic::set_hook(Box::new(|_| {}));
}
pub mod mocknode;
