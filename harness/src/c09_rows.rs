//! C09 kind V: typed rows bound to a statement's columns through the REAL built-in `SerializeRow`
//! impls of scylla-cql-core (`()`, `[u8; 0]`, tuples of arity 1..16, `&[T]`, `Vec<T>`, `Box<T>`, `&T`,
//! `BTreeMap`/`HashMap` keyed by `String`/`&str`) and `SerializedValues::from_serializable`; the values
//! are real `i32` / `String` / `Vec<u8>` / `Option::None` / `Unset` behind one enum.
//!   V <rowkind> <cols> <row>
//!   rowkind: u unit | z [u8;0] | t tuple | s &[T] | v Vec<T> | b Box<Vec<T>> | r &Vec<T>
//!          | mbs BTreeMap<String,T> | mbr BTreeMap<&str,T> | mhs HashMap<String,T> | mhr HashMap<&str,T>
//!   cols:  "-" | comma list of <name-hex>:<i|t|b>[*count]
//!   row:   "-" | comma list of <mval>[*count]          (sequences)
//!                | comma list of <name-hex>=<mval>    (maps; a repeated key keeps the first)
//!   mval:  i<hex int> | t<bytes> | b<bytes> | n (Option::None) | u (Unset)
//! Observed: `err row <class>` when from_serializable refuses, else the EXECUTE frame (id 0c09, consistency
//! ONE, no other option) carrying the bound values, as for the other kinds.
use scylla_cql::frame::response::result::{ColumnSpec, ColumnType, NativeType, TableSpec};
use scylla_cql::serialize::row::{
    BuiltinSerializationError, BuiltinSerializationErrorKind, BuiltinTypeCheckError, BuiltinTypeCheckErrorKind,
    RowSerializationContext, SerializeRow, SerializedValues,
};
use scylla_cql::serialize::value::SerializeValue;
use scylla_cql::serialize::writers::{CellWriter, WrittenCellProof};
use scylla_cql::serialize::SerializationError;
use scylla_cql::value::Unset;
use std::collections::{BTreeMap, HashMap};
use vh::*;

#[derive(Clone, Debug)]
pub enum MV {
    Int(i32),
    Text(String),
    Blob(Vec<u8>),
    Null,
    Unset,
}
impl SerializeValue for MV {
    fn serialize<'b>(&self, typ: &ColumnType, writer: CellWriter<'b>) -> Result<WrittenCellProof<'b>, SerializationError> {
        match self {
            MV::Int(i) => i.serialize(typ, writer),
            MV::Text(s) => s.serialize(typ, writer),
            MV::Blob(b) => b.serialize(typ, writer),
            MV::Null => Option::<i32>::None.serialize(typ, writer),
            MV::Unset => Unset.serialize(typ, writer),
        }
    }
}

fn hx(s: &str) -> u64 {
    u64::from_str_radix(s, 16).expect("hex")
}
fn bytes_of(s: &str) -> Vec<u8> {
    if s == "-" {
        return vec![];
    }
    (0..s.len() / 2).map(|i| u8::from_str_radix(&s[2 * i..2 * i + 2], 16).expect("hex")).collect()
}
fn rep(item: &str) -> (&str, usize) {
    match item.rsplit_once('*') {
        Some((a, n)) => (a, hx(n) as usize),
        None => (item, 1),
    }
}
fn mval(s: &str) -> MV {
    match &s[..1] {
        "i" => {
            let r = &s[1..];
            let v: i128 = if let Some(m) = r.strip_prefix('-') { -(i128::from_str_radix(m, 16).unwrap()) } else { i128::from_str_radix(r, 16).unwrap() };
            MV::Int(v as i32)
        }
        "t" => MV::Text(String::from_utf8(bytes_of(&s[1..])).expect("utf8")),
        "b" => MV::Blob(bytes_of(&s[1..])),
        "n" => MV::Null,
        "u" => MV::Unset,
        _ => panic!("bad mval"),
    }
}

fn row_err(e: &SerializationError) -> String {
    // SerializedValues::from_closure wraps its TooManyValues error twice: SerializationError(Arc::new(mk_ser_err(..)))
    if let Some(inner) = e.downcast_ref::<SerializationError>() {
        return row_err(inner);
    }
    if let Some(t) = e.downcast_ref::<BuiltinTypeCheckError>() {
        return match &t.kind {
            BuiltinTypeCheckErrorKind::WrongColumnCount { rust_cols, cql_cols } => {
                format!("err row wrong-column-count {} {}", hex_u(*rust_cols as u128), hex_u(*cql_cols as u128))
            }
            BuiltinTypeCheckErrorKind::NoColumnWithName { name } => format!("err row no-column {}", hex_bytes(name.as_bytes())),
            BuiltinTypeCheckErrorKind::ValueMissingForColumn { name } => format!("err row value-missing {}", hex_bytes(name.as_bytes())),
            _ => "err row typecheck-other".into(),
        };
    }
    if let Some(s) = e.downcast_ref::<BuiltinSerializationError>() {
        return match &s.kind {
            BuiltinSerializationErrorKind::ColumnSerializationFailed { name, .. } => format!("err row column-failed {}", hex_bytes(name.as_bytes())),
            BuiltinSerializationErrorKind::TooManyValues => "err row too-many-values".into(),
            _ => "err row ser-other".into(),
        };
    }
    "err row other".into()
}

macro_rules! tup {
    ($ctx:expr, $v:expr; $($i:tt),*) => {
        SerializedValues::from_serializable($ctx, &( $( $v[$i].clone(), )* ))
    };
}
fn bind_tuple(ctx: &RowSerializationContext, v: &[MV]) -> Option<Result<SerializedValues, SerializationError>> {
    Some(match v.len() {
        0 => SerializedValues::from_serializable(ctx, &()),
        1 => tup!(ctx, v; 0),
        2 => tup!(ctx, v; 0, 1),
        3 => tup!(ctx, v; 0, 1, 2),
        4 => tup!(ctx, v; 0, 1, 2, 3),
        5 => tup!(ctx, v; 0, 1, 2, 3, 4),
        6 => tup!(ctx, v; 0, 1, 2, 3, 4, 5),
        7 => tup!(ctx, v; 0, 1, 2, 3, 4, 5, 6),
        8 => tup!(ctx, v; 0, 1, 2, 3, 4, 5, 6, 7),
        9 => tup!(ctx, v; 0, 1, 2, 3, 4, 5, 6, 7, 8),
        10 => tup!(ctx, v; 0, 1, 2, 3, 4, 5, 6, 7, 8, 9),
        11 => tup!(ctx, v; 0, 1, 2, 3, 4, 5, 6, 7, 8, 9, 10),
        12 => tup!(ctx, v; 0, 1, 2, 3, 4, 5, 6, 7, 8, 9, 10, 11),
        13 => tup!(ctx, v; 0, 1, 2, 3, 4, 5, 6, 7, 8, 9, 10, 11, 12),
        14 => tup!(ctx, v; 0, 1, 2, 3, 4, 5, 6, 7, 8, 9, 10, 11, 12, 13),
        15 => tup!(ctx, v; 0, 1, 2, 3, 4, 5, 6, 7, 8, 9, 10, 11, 12, 13, 14),
        16 => tup!(ctx, v; 0, 1, 2, 3, 4, 5, 6, 7, 8, 9, 10, 11, 12, 13, 14, 15),
        _ => return None,
    })
}

fn bind<R: SerializeRow>(ctx: &RowSerializationContext, r: &R) -> Result<SerializedValues, SerializationError> {
    SerializedValues::from_serializable(ctx, r)
}

/// Ok(values) | Err(observed line)
pub fn bind_case(kind: &str, cols: &str, row: &str) -> Result<SerializedValues, String> {
    let mut names: Vec<(String, char)> = vec![];
    if cols != "-" {
        for item in cols.split(',') {
            let (c, n) = rep(item);
            let (name, t) = c.split_once(':').expect("name:type");
            let name = String::from_utf8(bytes_of(name)).expect("utf8");
            for _ in 0..n {
                names.push((name.clone(), t.chars().next().unwrap()));
            }
        }
    }
    let specs: Vec<ColumnSpec> = names
        .iter()
        .map(|(n, t)| {
            let ty = match t {
                'i' => NativeType::Int,
                't' => NativeType::Text,
                'b' => NativeType::Blob,
                _ => panic!("bad column type"),
            };
            ColumnSpec::borrowed(n.as_str(), ColumnType::Native(ty), TableSpec::borrowed("ks", "t"))
        })
        .collect();
    let ctx = RowSerializationContext::from_specs(&specs);
    let res = if kind.starts_with('m') {
        let mut kvs: Vec<(String, MV)> = vec![];
        if row != "-" {
            for item in row.split(',') {
                let (k, v) = item.split_once('=').expect("k=v");
                let k = String::from_utf8(bytes_of(k)).expect("utf8");
                if !kvs.iter().any(|(k2, _)| *k2 == k) {
                    kvs.push((k, mval(v)));
                }
            }
        }
        match kind {
            "mbs" => bind(&ctx, &kvs.iter().cloned().collect::<BTreeMap<String, MV>>()),
            "mbr" => bind(&ctx, &kvs.iter().map(|(k, v)| (k.as_str(), v.clone())).collect::<BTreeMap<&str, MV>>()),
            "mhs" => bind(&ctx, &kvs.iter().cloned().collect::<HashMap<String, MV>>()),
            "mhr" => bind(&ctx, &kvs.iter().map(|(k, v)| (k.as_str(), v.clone())).collect::<HashMap<&str, MV>>()),
            _ => return Err("error bad-row-kind".into()),
        }
    } else {
        let mut vs: Vec<MV> = vec![];
        if row != "-" {
            for item in row.split(',') {
                let (m, n) = rep(item);
                let v = mval(m);
                for _ in 0..n {
                    vs.push(v.clone());
                }
            }
        }
        match kind {
            "u" => bind(&ctx, &()),
            "z" => bind(&ctx, &([] as [u8; 0])),
            "t" => match bind_tuple(&ctx, &vs) {
                Some(r) => r,
                None => return Err("error tuple-arity-above-16".into()),
            },
            "s" => bind(&ctx, &&vs[..]),
            "v" => bind(&ctx, &vs),
            "b" => bind(&ctx, &Box::new(vs.clone())),
            "r" => bind(&ctx, &&vs),
            _ => return Err("error bad-row-kind".into()),
        }
    };
    res.map_err(|e| row_err(&e))
}

// ------------------------------------------------------------------ generator

const NAMES: &[&str] = &["a", "b", "c", "pk", "ck", "v", "żółw", "", "aa", "B"];

fn gen_mval(r: &mut Rng, t: char) -> String {
    let fit = r.chance(9, 10);
    let t = if fit { t } else { *r.pick(&['i', 't', 'b']) };
    match r.below(10) {
        0 => "n".into(),
        1 => "u".into(),
        _ => match t {
            'i' => format!("i{}", hex_i(*r.pick(&[0i32, 1, -1, i32::MIN, i32::MAX, 42, -77777]) as i128)),
            't' => format!("t{}", hex_bytes(r.pick(&["", "x", "hello", "żółw", "some text value"]).as_bytes())),
            _ => {
                let n = r.below(12) as usize;
                format!("b{}", hex_bytes(&r.bytes(n)))
            }
        },
    }
}

pub fn gen_case(r: &mut Rng) -> String {
    let ncols = match r.below(10) {
        0 => 0,
        1..=6 => r.range(1, 4),
        7 | 8 => r.range(5, 9),
        _ => r.range(10, 17),
    } as usize;
    let by_name = r.chance(2, 5);
    let mut cols: Vec<(String, char)> = vec![];
    for i in 0..ncols {
        // positional rows: any names; maps: mostly distinct names, sometimes a repeated bind marker
        let name = if by_name && !r.chance(1, 8) { format!("{}{}", r.pick(NAMES), i) } else { r.pick(NAMES).to_string() };
        cols.push((name, *r.pick(&['i', 't', 'b'])));
    }
    let cols_s = if cols.is_empty() { "-".to_string() } else { cols.iter().map(|(n, t)| format!("{}:{}", hex_bytes(n.as_bytes()), t)).collect::<Vec<_>>().join(",") };
    if by_name {
        let kind = *r.pick(&["mbs", "mbr", "mhs", "mhr"]);
        let mut kvs: Vec<String> = vec![];
        let mut seen: Vec<&str> = vec![];
        for (n, t) in &cols {
            if seen.contains(&n.as_str()) {
                continue;
            }
            seen.push(n);
            if r.chance(1, 12) {
                continue; // a marker without a value
            }
            kvs.push(format!("{}={}", hex_bytes(n.as_bytes()), gen_mval(r, *t)));
        }
        let extra = if r.chance(1, 6) { r.range(1, 3) } else { 0 };
        for _ in 0..extra {
            let n = format!("{}{}", r.pick(&["zz", "A", "extra", "a"]), r.below(3));
            if !seen.iter().any(|s| *s == n) {
                kvs.push(format!("{}={}", hex_bytes(n.as_bytes()), gen_mval(r, 'i')));
            }
        }
        r.shuffle(&mut kvs);
        format!("V {} {} {}", kind, cols_s, if kvs.is_empty() { "-".into() } else { kvs.join(",") })
    } else {
        let kind = *r.pick(&["t", "t", "s", "v", "b", "r", "u", "z"]);
        // tuples exist up to arity 16
        if kind == "t" && cols.len() > 16 {
            cols.truncate(16);
        }
        let cols_s = if cols.is_empty() { "-".to_string() } else { cols.iter().map(|(n, t)| format!("{}:{}", hex_bytes(n.as_bytes()), t)).collect::<Vec<_>>().join(",") };
        let ncols = cols.len();
        let n = if kind == "u" || kind == "z" {
            0
        } else if r.chance(1, 7) {
            (ncols as i64 + *r.pick(&[-1i64, 1, 2])).clamp(0, 16) as usize
        } else {
            ncols
        };
        let vals: Vec<String> = (0..n).map(|i| gen_mval(r, cols.get(i).map(|c| c.1).unwrap_or('i'))).collect();
        format!("V {} {} {}", kind, cols_s, if vals.is_empty() { "-".into() } else { vals.join(",") })
    }
}

pub fn boundary_cases() -> Vec<String> {
    let mut v: Vec<String> = vec![];
    for n in [65534u64, 65535, 65536, 65537] {
        for k in ["s", "v", "b", "r"] {
            v.push(format!("V {} 61:i*{:x} n*{:x}", k, n, n));
        }
        v.push(format!("V v 61:i*{:x} i7*{:x}", n, n - 1));
    }
    for n in 0..=16u64 {
        let cols = if n == 0 { "-".to_string() } else { format!("63:t*{:x}", n) };
        let row = if n == 0 { "-".to_string() } else { format!("t61*{:x}", n) };
        v.push(format!("V t {} {}", cols, row));
        if n < 16 {
            v.push(format!("V t {} t61*{:x}", cols, n + 1));
        }
    }
    for k in ["u", "z"] {
        v.push(format!("V {} - -", k));
        v.push(format!("V {} 61:i -", k));
    }
    for k in ["mbs", "mbr", "mhs", "mhr"] {
        v.push(format!("V {} 61:i,62:t,61:i 62=t78,61=i7", k));
        v.push(format!("V {} 61:i,62:t 61=i7", k));
        v.push(format!("V {} 61:i,62:t 62=n,61=u,7a=n,6364=n,63=n", k));
        v.push(format!("V {} 61:i,62:t 61=t78,62=t78", k));
        v.push(format!("V {} - -", k));
        v.push(format!("V {} - 61=n", k));
    }
    v
}
