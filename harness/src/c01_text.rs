//! C01 helpers: the text form of CQL types / values / cells shared with ocaml/c01/driver.ml,
//! leaf classification of (de)serialization errors, and the dynamic-path runner.
//! Included by harness/src/bin/c01.rs with #[path]; also usable by later codec slices.
#![allow(dead_code)]
use bytes::Bytes;
use scylla_cql_core::deserialize::value::{
    BuiltinDeserializationError, BuiltinDeserializationErrorKind as DK, DeserializeValue,
    MapDeserializationErrorKind, SetOrListDeserializationErrorKind, TupleDeserializationErrorKind,
    UdtDeserializationErrorKind, VectorDeserializationErrorKind,
};
use scylla_cql_core::deserialize::{DeserializationError, FrameSlice};
use scylla_cql_core::frame::frame_errors::LowLevelDeserializationError;
use scylla_cql_core::frame::response::result::{CollectionType, ColumnType, NativeType, UserDefinedType};
use scylla_cql_core::serialize::row::SerializedValues;
use scylla_cql_core::serialize::value::{
    BuiltinSerializationError, BuiltinSerializationErrorKind as SK, BuiltinTypeCheckError,
    BuiltinTypeCheckErrorKind as TK, MapSerializationErrorKind, MapTypeCheckErrorKind, SerializeValue,
    SetOrListSerializationErrorKind, SetOrListTypeCheckErrorKind, TupleSerializationErrorKind,
    TupleTypeCheckErrorKind, UdtSerializationErrorKind, UdtTypeCheckErrorKind, VectorSerializationErrorKind,
};
use scylla_cql_core::serialize::SerializationError;
use scylla_cql_core::value::{
    Counter, CqlDate, CqlDecimal, CqlDuration, CqlTime, CqlTimestamp, CqlTimeuuid, CqlValue, CqlVarint, Unset,
};
use std::net::IpAddr;
use std::sync::Arc;
use vh::*;

pub type Ty = ColumnType<'static>;

#[derive(Clone, Debug, PartialEq)]
pub enum Cell {
    Null,
    Unset,
    Val(CqlValue),
}

pub const NATIVES: [(&str, NativeType); 20] = [
    ("ascii", NativeType::Ascii),
    ("boolean", NativeType::Boolean),
    ("blob", NativeType::Blob),
    ("counter", NativeType::Counter),
    ("date", NativeType::Date),
    ("decimal", NativeType::Decimal),
    ("double", NativeType::Double),
    ("duration", NativeType::Duration),
    ("float", NativeType::Float),
    ("int", NativeType::Int),
    ("bigint", NativeType::BigInt),
    ("text", NativeType::Text),
    ("timestamp", NativeType::Timestamp),
    ("inet", NativeType::Inet),
    ("smallint", NativeType::SmallInt),
    ("tinyint", NativeType::TinyInt),
    ("time", NativeType::Time),
    ("timeuuid", NativeType::Timeuuid),
    ("uuid", NativeType::Uuid),
    ("varint", NativeType::Varint),
];

// ------------------------------------------------------------------ printing

pub fn s_type(t: &Ty) -> String {
    match t {
        ColumnType::Native(n) => NATIVES.iter().find(|(_, x)| x == n).map(|(s, _)| s.to_string()).unwrap_or("?".into()),
        ColumnType::Collection { typ: CollectionType::List(e), .. } => format!("L({})", s_type(e)),
        ColumnType::Collection { typ: CollectionType::Set(e), .. } => format!("S({})", s_type(e)),
        ColumnType::Collection { typ: CollectionType::Map(k, v), .. } => format!("M({};{})", s_type(k), s_type(v)),
        ColumnType::Tuple(ts) => format!("T({})", ts.iter().map(s_type).collect::<Vec<_>>().join(";")),
        ColumnType::Vector { typ, dimensions } => format!("V({};{:x})", s_type(typ), dimensions),
        ColumnType::UserDefinedType { definition, .. } => {
            let mut parts = vec![hex_bytes(definition.keyspace.as_bytes()), hex_bytes(definition.name.as_bytes())];
            for (n, t) in &definition.field_types {
                parts.push(format!("{}:{}", hex_bytes(n.as_bytes()), s_type(t)));
            }
            format!("U({})", parts.join(";"))
        }
        _ => "?".into(),
    }
}

pub fn s_val(v: &CqlValue) -> String {
    let seq = |name: &str, l: &Vec<CqlValue>| format!("{}({})", name, l.iter().map(s_val).collect::<Vec<_>>().join(";"));
    match v {
        CqlValue::Ascii(s) => format!("ascii:{}", hex_bytes(s.as_bytes())),
        CqlValue::Boolean(b) => format!("boolean:{}", *b as u8),
        CqlValue::Blob(b) => format!("blob:{}", hex_bytes(b)),
        CqlValue::Counter(c) => format!("counter:{}", hex_i(c.0 as i128)),
        CqlValue::Decimal(d) => {
            let (b, sc) = d.as_signed_be_bytes_slice_and_exponent();
            format!("decimal:{}:{}", hex_i(sc as i128), hex_bytes(b))
        }
        CqlValue::Date(d) => format!("date:{:x}", d.0),
        CqlValue::Double(d) => format!("double:{:x}", d.to_bits()),
        CqlValue::Duration(d) => {
            format!("duration:{}:{}:{}", hex_i(d.months as i128), hex_i(d.days as i128), hex_i(d.nanoseconds as i128))
        }
        CqlValue::Empty => "empty".into(),
        CqlValue::Float(f) => format!("float:{:x}", f.to_bits()),
        CqlValue::Int(i) => format!("int:{}", hex_i(*i as i128)),
        CqlValue::BigInt(i) => format!("bigint:{}", hex_i(*i as i128)),
        CqlValue::Text(s) => format!("text:{}", hex_bytes(s.as_bytes())),
        CqlValue::Timestamp(t) => format!("timestamp:{}", hex_i(t.0 as i128)),
        CqlValue::Inet(ip) => match ip {
            IpAddr::V4(a) => format!("inet:{}", hex_bytes(&a.octets())),
            IpAddr::V6(a) => format!("inet:{}", hex_bytes(&a.octets())),
        },
        CqlValue::List(l) => seq("list", l),
        CqlValue::Set(l) => seq("set", l),
        CqlValue::Vector(l) => seq("vector", l),
        CqlValue::Map(m) => {
            format!("map({})", m.iter().map(|(k, v)| format!("{}={}", s_val(k), s_val(v))).collect::<Vec<_>>().join(";"))
        }
        CqlValue::Tuple(t) => format!("tuple({})", t.iter().map(s_opt).collect::<Vec<_>>().join(";")),
        CqlValue::UserDefinedType { keyspace, name, fields } => {
            let mut parts = vec![hex_bytes(keyspace.as_bytes()), hex_bytes(name.as_bytes())];
            for (n, v) in fields {
                parts.push(format!("{}={}", hex_bytes(n.as_bytes()), s_opt(v)));
            }
            format!("udt({})", parts.join(";"))
        }
        CqlValue::SmallInt(i) => format!("smallint:{}", hex_i(*i as i128)),
        CqlValue::TinyInt(i) => format!("tinyint:{}", hex_i(*i as i128)),
        CqlValue::Time(t) => format!("time:{}", hex_i(t.0 as i128)),
        CqlValue::Timeuuid(u) => format!("timeuuid:{}", hex_bytes(u.as_bytes())),
        CqlValue::Uuid(u) => format!("uuid:{}", hex_bytes(u.as_bytes())),
        CqlValue::Varint(v) => format!("varint:{}", hex_bytes(v.as_signed_bytes_be_slice())),
        _ => "?".into(),
    }
}
pub fn s_opt(v: &Option<CqlValue>) -> String {
    match v {
        None => "null".into(),
        Some(v) => s_val(v),
    }
}
pub fn s_cell(c: &Cell) -> String {
    match c {
        Cell::Null => "null".into(),
        Cell::Unset => "unset".into(),
        Cell::Val(v) => s_val(v),
    }
}
pub fn s_cells(l: &[Cell]) -> String {
    format!("cells({})", l.iter().map(s_cell).collect::<Vec<_>>().join(";"))
}

// ------------------------------------------------------------------ parsing

pub struct Cur<'a> {
    s: &'a [u8],
    i: usize,
}
type PR<T> = Result<T, String>;

impl<'a> Cur<'a> {
    pub fn new(s: &'a str) -> Self {
        Cur { s: s.as_bytes(), i: 0 }
    }
    fn peek(&self) -> Option<u8> {
        self.s.get(self.i).copied()
    }
    fn expect(&mut self, c: u8) -> PR<()> {
        if self.peek() == Some(c) {
            self.i += 1;
            Ok(())
        } else {
            Err(format!("expected {} at {}", c as char, self.i))
        }
    }
    fn token(&mut self) -> &'a str {
        let st = self.i;
        while let Some(c) = self.peek() {
            if matches!(c, b';' | b')' | b'=' | b'(' | b':') {
                break;
            }
            self.i += 1;
        }
        std::str::from_utf8(&self.s[st..self.i]).unwrap()
    }
    fn items<T>(&mut self, mut p: impl FnMut(&mut Self) -> PR<T>) -> PR<Vec<T>> {
        self.expect(b'(')?;
        let mut v = vec![];
        if self.peek() == Some(b')') {
            self.i += 1;
            return Ok(v);
        }
        v.push(p(self)?);
        while self.peek() == Some(b';') {
            self.i += 1;
            v.push(p(self)?);
        }
        self.expect(b')')?;
        Ok(v)
    }
    fn atom(&mut self) -> PR<&'a str> {
        self.expect(b':')?;
        Ok(self.token())
    }
    pub fn done(&self) -> bool {
        self.i == self.s.len()
    }
}

pub fn unhex(s: &str) -> PR<Vec<u8>> {
    if s == "-" {
        return Ok(vec![]);
    }
    if s.len() % 2 != 0 {
        return Err("odd hex".into());
    }
    (0..s.len() / 2).map(|i| u8::from_str_radix(&s[2 * i..2 * i + 2], 16).map_err(|e| e.to_string())).collect()
}
fn hexstr(s: &str) -> PR<String> {
    String::from_utf8(unhex(s)?).map_err(|_| "not utf8".to_string())
}
fn p_i(s: &str) -> PR<i128> {
    if let Some(r) = s.strip_prefix('-') {
        Ok(-(i128::from_str_radix(r, 16).map_err(|e| e.to_string())?))
    } else {
        i128::from_str_radix(s, 16).map_err(|e| e.to_string())
    }
}
fn p_u(s: &str) -> PR<u128> {
    u128::from_str_radix(s, 16).map_err(|e| e.to_string())
}
fn rng<T: TryFrom<i128>>(v: i128) -> PR<T> {
    T::try_from(v).map_err(|_| "out of range".to_string())
}

pub fn list_t(e: Ty) -> Ty {
    ColumnType::Collection { frozen: false, typ: CollectionType::List(Box::new(e)) }
}
pub fn set_t(e: Ty) -> Ty {
    ColumnType::Collection { frozen: false, typ: CollectionType::Set(Box::new(e)) }
}
pub fn map_t(k: Ty, v: Ty) -> Ty {
    ColumnType::Collection { frozen: false, typ: CollectionType::Map(Box::new(k), Box::new(v)) }
}
pub fn vec_t(e: Ty, d: u16) -> Ty {
    ColumnType::Vector { typ: Box::new(e), dimensions: d }
}
pub fn udt_t(ks: &str, nm: &str, fs: Vec<(String, Ty)>) -> Ty {
    ColumnType::UserDefinedType {
        frozen: false,
        definition: Arc::new(UserDefinedType {
            name: nm.to_string().into(),
            keyspace: ks.to_string().into(),
            field_types: fs.into_iter().map(|(n, t)| (n.into(), t)).collect(),
        }),
    }
}
pub fn nat(n: NativeType) -> Ty {
    ColumnType::Native(n)
}

pub fn p_type(c: &mut Cur) -> PR<Ty> {
    let t = c.token();
    Ok(match t {
        "L" => {
            let mut v = c.items(p_type)?;
            if v.len() != 1 {
                return Err("L".into());
            }
            list_t(v.pop().unwrap())
        }
        "S" => {
            let mut v = c.items(p_type)?;
            if v.len() != 1 {
                return Err("S".into());
            }
            set_t(v.pop().unwrap())
        }
        "M" => {
            let mut v = c.items(p_type)?;
            if v.len() != 2 {
                return Err("M".into());
            }
            let b = v.pop().unwrap();
            map_t(v.pop().unwrap(), b)
        }
        "T" => ColumnType::Tuple(c.items(p_type)?),
        "V" => {
            c.expect(b'(')?;
            let e = p_type(c)?;
            c.expect(b';')?;
            let d = p_u(c.token())?;
            c.expect(b')')?;
            vec_t(e, u16::try_from(d).map_err(|_| "dim")?)
        }
        "U" => {
            c.expect(b'(')?;
            let ks = hexstr(c.token())?;
            c.expect(b';')?;
            let nm = hexstr(c.token())?;
            let mut fs = vec![];
            while c.peek() == Some(b';') {
                c.i += 1;
                let fname = hexstr(c.token())?;
                c.expect(b':')?;
                fs.push((fname, p_type(c)?));
            }
            c.expect(b')')?;
            udt_t(&ks, &nm, fs)
        }
        _ => nat(NATIVES.iter().find(|(s, _)| *s == t).ok_or(format!("type {}", t))?.1.clone()),
    })
}

pub fn inet_of(b: &[u8]) -> PR<IpAddr> {
    if let Ok(a) = <[u8; 4]>::try_from(b) {
        Ok(IpAddr::from(a))
    } else if let Ok(a) = <[u8; 16]>::try_from(b) {
        Ok(IpAddr::from(a))
    } else {
        Err("inet length".into())
    }
}
fn arr16(b: &[u8]) -> PR<[u8; 16]> {
    <[u8; 16]>::try_from(b).map_err(|_| "uuid length".to_string())
}

pub fn p_val(c: &mut Cur) -> PR<CqlValue> {
    let t = c.token();
    Ok(match t {
        "ascii" => CqlValue::Ascii(hexstr(c.atom()?)?),
        "boolean" => CqlValue::Boolean(c.atom()? == "1"),
        "blob" => CqlValue::Blob(unhex(c.atom()?)?),
        "counter" => CqlValue::Counter(Counter(rng(p_i(c.atom()?)?)?)),
        "decimal" => {
            let sc: i32 = rng(p_i(c.atom()?)?)?;
            CqlValue::Decimal(CqlDecimal::from_signed_be_bytes_and_exponent(unhex(c.atom()?)?, sc))
        }
        "date" => CqlValue::Date(CqlDate(u32::try_from(p_u(c.atom()?)?).map_err(|_| "date")?)),
        "double" => CqlValue::Double(f64::from_bits(u64::try_from(p_u(c.atom()?)?).map_err(|_| "double")?)),
        "duration" => {
            let months = rng(p_i(c.atom()?)?)?;
            let days = rng(p_i(c.atom()?)?)?;
            let nanoseconds = rng(p_i(c.atom()?)?)?;
            CqlValue::Duration(CqlDuration { months, days, nanoseconds })
        }
        "empty" => CqlValue::Empty,
        "float" => CqlValue::Float(f32::from_bits(u32::try_from(p_u(c.atom()?)?).map_err(|_| "float")?)),
        "int" => CqlValue::Int(rng(p_i(c.atom()?)?)?),
        "bigint" => CqlValue::BigInt(rng(p_i(c.atom()?)?)?),
        "text" => CqlValue::Text(hexstr(c.atom()?)?),
        "timestamp" => CqlValue::Timestamp(CqlTimestamp(rng(p_i(c.atom()?)?)?)),
        "inet" => CqlValue::Inet(inet_of(&unhex(c.atom()?)?)?),
        "list" => CqlValue::List(c.items(p_val)?),
        "set" => CqlValue::Set(c.items(p_val)?),
        "vector" => CqlValue::Vector(c.items(p_val)?),
        "map" => CqlValue::Map(c.items(|c| {
            let k = p_val(c)?;
            c.expect(b'=')?;
            Ok((k, p_val(c)?))
        })?),
        "tuple" => CqlValue::Tuple(c.items(p_opt)?),
        "udt" => {
            c.expect(b'(')?;
            let keyspace = hexstr(c.token())?;
            c.expect(b';')?;
            let name = hexstr(c.token())?;
            let mut fields = vec![];
            while c.peek() == Some(b';') {
                c.i += 1;
                let fname = hexstr(c.token())?;
                c.expect(b'=')?;
                fields.push((fname, p_opt(c)?));
            }
            c.expect(b')')?;
            CqlValue::UserDefinedType { keyspace, name, fields }
        }
        "smallint" => CqlValue::SmallInt(rng(p_i(c.atom()?)?)?),
        "tinyint" => CqlValue::TinyInt(rng(p_i(c.atom()?)?)?),
        "time" => CqlValue::Time(CqlTime(rng(p_i(c.atom()?)?)?)),
        "timeuuid" => CqlValue::Timeuuid(CqlTimeuuid::from_bytes(arr16(&unhex(c.atom()?)?)?)),
        "uuid" => CqlValue::Uuid(uuid::Uuid::from_bytes(arr16(&unhex(c.atom()?)?)?)),
        "varint" => CqlValue::Varint(CqlVarint::from_signed_bytes_be(unhex(c.atom()?)?)),
        _ => return Err(format!("value {}", t)),
    })
}
pub fn p_opt(c: &mut Cur) -> PR<Option<CqlValue>> {
    let save = c.i;
    if c.token() == "null" {
        Ok(None)
    } else {
        c.i = save;
        Ok(Some(p_val(c)?))
    }
}
pub fn p_cell(c: &mut Cur) -> PR<Cell> {
    let save = c.i;
    match c.token() {
        "null" => Ok(Cell::Null),
        "unset" => Ok(Cell::Unset),
        _ => {
            c.i = save;
            Ok(Cell::Val(p_val(c)?))
        }
    }
}
pub fn type_of_str(s: &str) -> PR<Ty> {
    let mut c = Cur::new(s);
    let t = p_type(&mut c)?;
    if c.done() { Ok(t) } else { Err("trailing".into()) }
}
pub fn cell_of_str(s: &str) -> PR<Cell> {
    let mut c = Cur::new(s);
    let t = p_cell(&mut c)?;
    if c.done() { Ok(t) } else { Err("trailing".into()) }
}
pub fn cells_of_str(s: &str) -> PR<Vec<Cell>> {
    let mut c = Cur::new(s);
    if c.token() != "cells" {
        return Err("cells".into());
    }
    let v = c.items(p_cell)?;
    if c.done() { Ok(v) } else { Err("trailing".into()) }
}

// ------------------------------------------------------------------ error leaves

pub fn ser_leaf(e: &SerializationError) -> String {
    if let Some(t) = e.downcast_ref::<BuiltinTypeCheckError>() {
        return match &t.kind {
            TK::MismatchedType { .. } => "MismatchedType".into(),
            TK::NotEmptyable => "NotEmptyable".into(),
            TK::SetOrListError(SetOrListTypeCheckErrorKind::NotSetOrList) => "NotSetOrList".into(),
            TK::MapError(MapTypeCheckErrorKind::NotMap) => "NotMap".into(),
            TK::TupleError(TupleTypeCheckErrorKind::NotTuple) => "NotTuple".into(),
            TK::TupleError(TupleTypeCheckErrorKind::WrongElementCount { .. }) => "TupleWrongCount".into(),
            TK::UdtError(UdtTypeCheckErrorKind::NotUdt) => "NotUdt".into(),
            TK::UdtError(UdtTypeCheckErrorKind::NameMismatch { .. }) => "UdtNameMismatch".into(),
            TK::UdtError(UdtTypeCheckErrorKind::NoSuchFieldInUdt { .. }) => "NoSuchFieldInUdt".into(),
            k => format!("OtherTypeCheck:{:?}", k).replace(' ', "_"),
        };
    }
    if let Some(s) = e.downcast_ref::<BuiltinSerializationError>() {
        return match &s.kind {
            SK::SizeOverflow => "SizeOverflow".into(),
            SK::ValueOverflow => "ValueOverflow".into(),
            SK::SetOrListError(SetOrListSerializationErrorKind::TooManyElements) => "TooManyElements".into(),
            SK::SetOrListError(SetOrListSerializationErrorKind::ElementSerializationFailed(i)) => ser_leaf(i),
            SK::VectorError(VectorSerializationErrorKind::InvalidNumberOfElements(..)) => "VectorLen".into(),
            SK::VectorError(VectorSerializationErrorKind::ElementSerializationFailed(i)) => ser_leaf(i),
            SK::MapError(MapSerializationErrorKind::TooManyElements) => "TooManyElements".into(),
            SK::MapError(MapSerializationErrorKind::KeySerializationFailed(i)) => ser_leaf(i),
            SK::MapError(MapSerializationErrorKind::ValueSerializationFailed(i)) => ser_leaf(i),
            SK::TupleError(TupleSerializationErrorKind::ElementSerializationFailed { err, .. }) => ser_leaf(err),
            SK::UdtError(UdtSerializationErrorKind::FieldSerializationFailed { err, .. }) => ser_leaf(err),
            k => format!("OtherSer:{:?}", k).replace(' ', "_"),
        };
    }
    "Other".into()
}

pub fn de_leaf(e: &DeserializationError) -> String {
    if let Some(b) = e.downcast_ref::<BuiltinDeserializationError>() {
        return match &b.kind {
            DK::BadDate { .. } => "BadDate".into(),
            DK::BadDecimalScale(_) => "BadDecimalScale".into(),
            DK::RawCqlBytesReadError(_) => "RawCqlBytesRead".into(),
            DK::ExpectedNonNull => "ExpectedNonNull".into(),
            DK::ByteLengthMismatch { .. } => "ByteLengthMismatch".into(),
            DK::ExpectedAscii => "ExpectedAscii".into(),
            DK::InvalidUtf8(_) => "InvalidUtf8".into(),
            DK::ValueOverflow => "ValueOverflow".into(),
            DK::BadInetLength { .. } => "BadInetLength".into(),
            DK::SetOrListError(SetOrListDeserializationErrorKind::LengthDeserializationFailed(_)) => "LengthDeser".into(),
            DK::SetOrListError(SetOrListDeserializationErrorKind::ElementDeserializationFailed(i)) => de_leaf(i),
            DK::VectorError(VectorDeserializationErrorKind::ElementDeserializationFailed(i)) => de_leaf(i),
            DK::MapError(MapDeserializationErrorKind::LengthDeserializationFailed(_)) => "LengthDeser".into(),
            DK::MapError(MapDeserializationErrorKind::KeyDeserializationFailed(i)) => de_leaf(i),
            DK::MapError(MapDeserializationErrorKind::ValueDeserializationFailed(i)) => de_leaf(i),
            DK::TupleError(TupleDeserializationErrorKind::FieldDeserializationFailed { err, .. }) => de_leaf(err),
            DK::UdtError(UdtDeserializationErrorKind::FieldDeserializationFailed { err, .. }) => de_leaf(err),
            k => format!("OtherDeser:{:?}", k).replace(' ', "_"),
        };
    }
    if e.downcast_ref::<LowLevelDeserializationError>().is_some() {
        // typed tuples wrap a failed [bytes] read directly
        return "RawCqlBytesRead".into();
    }
    "Other".into()
}

// ------------------------------------------------------------------ running the real code

/// bytes of SerializedValues::add_value(&v, &typ) (without the 2-byte value count)
pub fn add_value_bytes<T: SerializeValue>(v: &T, typ: &Ty) -> Result<Vec<u8>, String> {
    let mut sv = SerializedValues::new();
    match sv.add_value(v, typ) {
        Ok(()) => {
            let mut buf = Vec::new();
            sv.write_to_request(&mut buf);
            Ok(buf[2..].to_vec())
        }
        Err(e) => Err(ser_leaf(&e)),
    }
}

pub fn ser_dynamic(typ: &Ty, c: &Cell) -> Result<Vec<u8>, String> {
    match c {
        Cell::Null => add_value_bytes(&Option::<CqlValue>::None, typ),
        Cell::Unset => add_value_bytes(&Unset, typ),
        Cell::Val(v) => add_value_bytes(v, typ),
    }
}

/// read one [bytes] item from `bytes` and decode it with carrier T; Ok(decoded) / Err(leaf)
pub fn deser_with<T>(typ: &Ty, bytes: &[u8]) -> Result<T, String>
where
    T: for<'f, 'm> DeserializeValue<'f, 'm>,
{
    if let Err(_e) = T::type_check(typ) {
        return Err("TypeCheck".into());
    }
    let b = Bytes::copy_from_slice(bytes);
    let mut fs = FrameSlice::new(&b);
    let raw = fs.read_cql_bytes().map_err(|_| "RawCqlBytesRead".to_string())?;
    T::deserialize(typ, raw).map_err(|e| de_leaf(&e))
}

pub fn deser_dynamic(typ: &Ty, bytes: &[u8]) -> Result<Cell, String> {
    deser_with::<Option<CqlValue>>(typ, bytes).map(|o| match o {
        None => Cell::Null,
        Some(v) => Cell::Val(v),
    })
}

pub fn fmt_ser(r: &Result<Vec<u8>, String>) -> String {
    match r {
        Ok(b) => format!("ok:{}", hex_bytes(b)),
        Err(e) => format!("err:{}", e),
    }
}
pub fn fmt_deser(r: &Result<Cell, String>) -> String {
    match r {
        Ok(c) => format!("ok:{}", s_cell(c)),
        Err(e) => format!("err:{}", e),
    }
}

/// the dynamic path for one (type, cell): "<ser> <deser>"
pub fn run_dynamic(typ: &Ty, c: &Cell) -> String {
    let (t1, c1) = (typ.clone(), c.clone());
    let ser = match catch(move || ser_dynamic(&t1, &c1)) {
        Ok(r) => r,
        Err(_) => return "panic -".into(),
    };
    let de = match &ser {
        Ok(b) => {
            let (t2, b2) = (typ.clone(), b.clone());
            match catch(move || deser_dynamic(&t2, &b2)) {
                Ok(r) => fmt_deser(&r),
                Err(_) => "panic".into(),
            }
        }
        Err(_) => "-".into(),
    };
    format!("{} {}", fmt_ser(&ser), de)
}
