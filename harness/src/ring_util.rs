//! Shared by the C04 and C05 runners: topology / strategy text formats, the ClusterState builder
//! over hook H2 (`scylla::cluster::verif_state`) and the seeded topology generators.
#![allow(dead_code)]
use scylla::cluster::metadata::Strategy;
use scylla::cluster::verif_state::{VerifPeer, cluster_state_via_new, keyspace};
use scylla::cluster::{ClusterState, NodeAddr};
use scylla::routing::Token;
use std::collections::{BTreeSet, HashMap};
use std::net::SocketAddr;
use uuid::Uuid;
use vh::*;

pub const ABSENT_DC: u64 = 9;

#[derive(Clone, Debug, PartialEq)]
pub enum Strat {
    Simple(u64),
    Nts(Vec<(u64, u64)>),
    Local,
    Other,
}

#[derive(Clone, Debug)]
pub struct Topo {
    pub nodes: Vec<(u64, Option<u64>, Option<u64>)>,
    pub ring: Vec<(i64, u64)>,
    /// node id -> (nr_shards, msb_ignore) for the nodes that have a sharder
    pub sharders: HashMap<u64, (u16, u8)>,
}

pub fn opt_s(o: &Option<u64>) -> String {
    match o {
        Some(v) => hex_u(*v as u128),
        None => "_".into(),
    }
}
pub fn strat_s(s: &Strat) -> String {
    match s {
        Strat::Simple(rf) => format!("S{}", hex_u(*rf as u128)),
        Strat::Nts(m) => format!(
            "N{}",
            m.iter().map(|(d, rf)| format!("{}={}", hex_u(*d as u128), hex_u(*rf as u128))).collect::<Vec<_>>().join("+")
        ),
        Strat::Local => "L".into(),
        Strat::Other => "O".into(),
    }
}
pub fn parse_strat(s: &str) -> Strat {
    let h = |x: &str| u64::from_str_radix(x, 16).unwrap();
    match &s[..1] {
        "S" => Strat::Simple(h(&s[1..])),
        "N" => Strat::Nts(
            s[1..]
                .split('+')
                .filter(|e| !e.is_empty())
                .map(|e| {
                    let (d, rf) = e.split_once('=').unwrap();
                    (h(d), h(rf))
                })
                .collect(),
        ),
        "L" => Strat::Local,
        _ => Strat::Other,
    }
}
pub fn to_strategy(s: &Strat) -> Strategy {
    match s {
        Strat::Simple(rf) => Strategy::SimpleStrategy { replication_factor: *rf as usize },
        Strat::Nts(m) => Strategy::NetworkTopologyStrategy {
            datacenter_repfactors: m.iter().map(|(d, rf)| (format!("dc{}", d), *rf as usize)).collect(),
        },
        Strat::Local => Strategy::LocalStrategy,
        Strat::Other => Strategy::Other { name: "org.example.Custom".into(), data: HashMap::new() },
    }
}
pub fn topo_s(t: &Topo) -> (String, String) {
    let nodes = t
        .nodes
        .iter()
        .map(|(i, d, r)| {
            let sh = match t.sharders.get(i) {
                Some((nr, msb)) => format!("{}-{}", hex_u(*nr as u128), hex_u(*msb as u128)),
                None => "_".into(),
            };
            format!("{}.{}.{}.{}", hex_u(*i as u128), opt_s(d), opt_s(r), sh)
        })
        .collect::<Vec<_>>()
        .join(",");
    let ring = if t.ring.is_empty() {
        "-".to_string()
    } else {
        t.ring.iter().map(|(tk, i)| format!("{}.{}", hex_i(*tk as i128), hex_u(*i as u128))).collect::<Vec<_>>().join(",")
    };
    (nodes, ring)
}
pub fn parse_i(s: &str) -> i64 {
    if let Some(r) = s.strip_prefix('-') {
        (-(i128::from_str_radix(r, 16).unwrap())) as i64
    } else {
        i128::from_str_radix(s, 16).unwrap() as i64
    }
}
pub fn parse_topo(nodes: &str, ring: &str) -> Topo {
    let h = |x: &str| u64::from_str_radix(x, 16).unwrap();
    let o = |x: &str| if x == "_" { None } else { Some(u64::from_str_radix(x, 16).unwrap()) };
    let mut sharders = HashMap::new();
    let nodes = nodes
        .split(',')
        .filter(|e| !e.is_empty() && *e != "-")
        .map(|e| {
            let f: Vec<&str> = e.split('.').collect();
            if f.len() > 3 && f[3] != "_" {
                let (nr, msb) = f[3].split_once('-').unwrap();
                sharders.insert(h(f[0]), (h(nr) as u16, h(msb) as u8));
            }
            (h(f[0]), o(f[1]), o(f[2]))
        })
        .collect();
    let ring = if ring == "-" {
        vec![]
    } else {
        ring.split(',')
            .map(|e| {
                let (t, i) = e.rsplit_once('.').unwrap();
                (parse_i(t), h(i))
            })
            .collect()
    };
    Topo { nodes, ring, sharders }
}

/// registers the topology's sharders with the per-host `Node::sharder` override
pub fn install_sharders(t: &Topo) {
    use scylla::cluster::verif_node_flags as fl;
    fl::clear_node_sharders();
    for (id, (nr, msb)) in &t.sharders {
        fl::set_node_sharder(Uuid::from_u128(*id as u128), std::num::NonZeroU16::new(*nr).unwrap(), *msb);
    }
}

pub fn build(rt: &tokio::runtime::Runtime, t: &Topo, pre: &[Strat]) -> ClusterState {
    // peers in node order; each peer's tokens in ring-list order (the ring list is generated
    // peer by peer, so this reproduces it exactly)
    let peers: Vec<VerifPeer> = t
        .nodes
        .iter()
        .map(|(id, dc, rack)| VerifPeer {
            host_id: Uuid::from_u128(*id as u128),
            address: NodeAddr::Translatable(SocketAddr::from(([127, 0, 0, 1], *id as u16))),
            datacenter: dc.map(|d| format!("dc{}", d)),
            rack: rack.map(|r| format!("r{}", r)),
            tokens: t.ring.iter().filter(|(_, n)| n == id).map(|(tk, _)| Token::new(*tk)).collect(),
        })
        .collect();
    let keyspaces = pre.iter().enumerate().map(|(i, s)| (format!("ks{}", i), keyspace(to_strategy(s), false))).collect();
    // the REAL ClusterState::new (reject-all host filter: every node is pool-less, nothing connects)
    rt.block_on(cluster_state_via_new(peers, keyspaces))
}

// ---------------------------------------------------------------- generators

pub fn gen_topo(r: &mut Rng, dup_tokens: bool) -> Topo {
    let n = match r.below(10) {
        0..=2 => r.range(1, 4),
        3..=6 => r.range(5, 8),
        _ => r.range(9, 12),
    } as usize;
    let ndc = r.range(1, 3);
    let racks_per_dc: Vec<u64> = (0..ndc).map(|_| r.range(1, 4)).collect();
    let some_dcless = r.chance(1, 8);
    let some_rackless = r.chance(1, 4);
    let mut nodes = Vec::new();
    for i in 0..n {
        let dc = if some_dcless && r.chance(1, 4) { None } else { Some(r.below(ndc)) };
        let rack = if some_rackless && r.chance(1, 3) {
            None
        } else {
            Some(r.below(racks_per_dc[dc.unwrap_or(0) as usize]))
        };
        nodes.push((i as u64 + 1, dc, rack));
    }
    let fixed_v = if r.bool() { Some(r.range(1, 8)) } else { None };
    let style = r.below(4);
    let mut used: HashMap<i64, Vec<Option<u64>>> = HashMap::new();
    let mut ring = Vec::new();
    for (id, dc, _) in &nodes {
        let v = if r.chance(1, 25) { 0 } else { fixed_v.unwrap_or_else(|| r.range(1, 8)) };
        for _ in 0..v {
            for _attempt in 0..50 {
                let tk: i64 = match style {
                    0 => r.range(0, (n as u64) * 10) as i64 - (n as i64) * 5,
                    1 => (r.range(0, (n as u64) * 12) as i64 - (n as i64) * 6) * 100,
                    2 => match r.below(12) {
                        0 => i64::MAX,
                        1 => i64::MIN + 1,
                        2 => i64::MAX - 1,
                        _ => r.i64(),
                    },
                    _ => r.range(0, 40) as i64,
                };
                let tk = if tk == i64::MIN { i64::MAX } else { tk };
                match used.get(&tk) {
                    None => {}
                    // the same token again only for a node of a different datacenter
                    Some(dcs) if dup_tokens && !dcs.contains(dc) => {}
                    Some(_) => continue,
                }
                used.entry(tk).or_default().push(*dc);
                ring.push((tk, *id));
                break;
            }
        }
    }
    // sharders: none / all / mixed; shard counts small, sometimes large; msb_ignore 0 or 12
    let mut sharders = HashMap::new();
    let style = r.below(4);
    for (id, _, _) in &nodes {
        let has = match style {
            0 => false,
            1 => true,
            _ => r.bool(),
        };
        if has {
            let nr = match r.below(8) {
                0 => 1,
                1 => *r.pick(&[255u16, 256, 1000, 65535]),
                _ => r.range(2, 16) as u16,
            };
            sharders.insert(*id, (nr, if r.bool() { 12 } else { 0 }));
        }
    }
    Topo { nodes, ring, sharders }
}

pub fn ring_dcs(t: &Topo) -> Vec<u64> {
    let mut s = BTreeSet::new();
    for (_, id) in &t.ring {
        if let Some(d) = t.nodes.iter().find(|n| n.0 == *id).unwrap().1 {
            s.insert(d);
        }
    }
    s.into_iter().collect()
}
pub fn nodes_in(t: &Topo, d: u64) -> u64 {
    t.nodes.iter().filter(|n| n.1 == Some(d) && t.ring.iter().any(|e| e.1 == n.0)).count() as u64
}

pub fn gen_strat(r: &mut Rng, t: &Topo) -> Strat {
    let n = t.nodes.len() as u64;
    match r.below(20) {
        0 => Strat::Local,
        1 => Strat::Other,
        2..=7 => Strat::Simple(if r.chance(1, 3) { r.range(0, n + 2) } else { r.range(0, 4.min(n + 2)) }),
        _ => {
            let mut m = Vec::new();
            let mut dcs = ring_dcs(t);
            // datacenters known to nodes but absent from the ring, and one nobody knows
            for d in 0..3 {
                if !dcs.contains(&d) && r.chance(1, 4) {
                    dcs.push(d);
                }
            }
            if r.chance(1, 5) {
                dcs.push(ABSENT_DC);
            }
            r.shuffle(&mut dcs);
            for d in dcs {
                if r.chance(1, 6) {
                    continue;
                }
                let k = nodes_in(t, d);
                let rf = match r.below(10) {
                    0 => 0,
                    1 => k + r.range(0, 2),
                    2 | 3 => r.range(0, k + 2),
                    // exactly the rack count (largest RF served from the compressed ring), and just above it
                    4 | 5 => racks_in(t, d),
                    6 => racks_in(t, d) + r.range(1, 2),
                    _ => r.range(1, 4),
                };
                m.push((d, rf));
            }
            Strat::Nts(m)
        }
    }
}

/// variations of a registered strategy: same shape, replication factors moved by one or more
pub fn vary(r: &mut Rng, s: &Strat) -> Strat {
    match s {
        Strat::Simple(rf) => Strat::Simple(if r.bool() { rf + r.range(1, 2) } else { rf.saturating_sub(r.range(1, 2)) }),
        Strat::Nts(m) => Strat::Nts(
            m.iter()
                .map(|(d, rf)| (*d, match r.below(3) { 0 => *rf, 1 => rf + r.range(1, 2), _ => rf.saturating_sub(r.range(1, 2)) }))
                .collect(),
        ),
        o => o.clone(),
    }
}

/// distinct racks ("no rack" counts as one) among the token-owning nodes of a datacenter
pub fn racks_in(t: &Topo, d: u64) -> u64 {
    let s: BTreeSet<Option<u64>> =
        t.nodes.iter().filter(|n| n.1 == Some(d) && t.ring.iter().any(|e| e.1 == n.0)).map(|n| n.2).collect();
    s.len() as u64
}

/// directed variation of a registered strategy: for an NTS replication factor m <= rack count the
/// query m-1 (must be served as a true prefix of the stored list), for m > rack count + 1 a factor
/// strictly between (not stored, must NOT use the prefix); SimpleStrategy: rf-1
pub fn directed(r: &mut Rng, t: &Topo, s: &Strat) -> Strat {
    match s {
        Strat::Simple(rf) => Strat::Simple(if *rf >= 2 { rf - 1 } else { *rf }),
        Strat::Nts(m) => Strat::Nts(
            m.iter()
                .map(|(d, rf)| {
                    let racks = racks_in(t, *d);
                    if *rf >= 2 && *rf <= racks {
                        (*d, rf - 1)
                    } else if *rf > racks + 1 {
                        (*d, r.range(racks + 1, rf - 1))
                    } else {
                        (*d, *rf)
                    }
                })
                .collect(),
        ),
        o => o.clone(),
    }
}

pub fn token_points(t: &Topo) -> Vec<i64> {
    let mut s = BTreeSet::new();
    for (tk, _) in &t.ring {
        let tk = if *tk == i64::MIN { i64::MAX } else { *tk };
        s.insert(tk);
        s.insert(tk.saturating_sub(1).max(i64::MIN + 1));
        s.insert(tk.saturating_add(1));
    }
    s.insert(i64::MIN + 1);
    s.insert(i64::MAX);
    s.insert(0);
    s.into_iter().collect()
}

