//! C17: the Rust carrier types (everything that implements SerializeValue / DeserializeValue),
//! their descriptors (`Desc`, the text the Coq model's `carrier` is parsed from), one tree type
//! `KV` for the values of all carriers (the model's `kval`), and the registries that map a
//! descriptor to monomorphised calls of the REAL serialize / add_value / type_check.
//! Included by harness/src/bin/c17.rs with #[path]; needs `mod text` (c01_text.rs) at crate root.
#![allow(dead_code)]
use crate::text::*;
use scylla_cql_core::deserialize::value::{
    BuiltinTypeCheckError as DTE, BuiltinTypeCheckErrorKind as DTK, DeserializeValue, FrameSliceWithMetadata,
    ListlikeIterator, MapIterator, MapTypeCheckErrorKind as DMapK, SetOrListTypeCheckErrorKind as DSetK,
    TupleTypeCheckErrorKind as DTupK, UdtIterator, UdtTypeCheckErrorKind as DUdtK, VectorIterator,
    VectorTypeCheckErrorKind as DVecK,
};
use scylla_cql_core::deserialize::result::{RawRowIterator, TypedRowIterator};
use scylla_cql_core::deserialize::row::{BuiltinTypeCheckError as RowTE, BuiltinTypeCheckErrorKind as RowTK, DeserializeRow};
use scylla_cql_core::deserialize::{FrameSlice, TypeCheckError};
use scylla_cql_core::frame::response::result::{ColumnSpec, ColumnType};
use scylla_cql_core::serialize::row::SerializedValues;
use scylla_cql_core::serialize::value::SerializeValue;
use scylla_cql_core::serialize::writers::{CellWriter, WrittenCellProof};
use scylla_cql_core::serialize::SerializationError;
use scylla_cql_core::value::verif_extern::{bigdecimal, chrono, num_bigint_03, num_bigint_04, secrecy_08, secrecy_10, time};
use scylla_cql_core::value::{
    Counter, CqlDate, CqlDecimal, CqlDecimalBorrowed, CqlDuration, CqlTime, CqlTimestamp, CqlTimeuuid, CqlValue,
    CqlVarint, CqlVarintBorrowed, Emptiable, MaybeEmpty, MaybeUnset, Unset,
};
use std::borrow::Cow;
use std::collections::{BTreeMap, BTreeSet, HashMap, HashSet};
use std::net::IpAddr;
use std::sync::Arc;

// ------------------------------------------------------------------ descriptors and values

#[derive(Clone, Debug, PartialEq)]
pub struct Desc {
    pub name: &'static str,
    pub args: Vec<Desc>,
}
impl Desc {
    pub fn leaf(name: &'static str) -> Desc {
        Desc { name, args: vec![] }
    }
    pub fn un(name: &'static str, a: Desc) -> Desc {
        Desc { name, args: vec![a] }
    }
    pub fn bin(name: &'static str, a: Desc, b: Desc) -> Desc {
        Desc { name, args: vec![a, b] }
    }
    pub fn show(&self) -> String {
        if self.args.is_empty() && self.name != "Tup" {
            self.name.to_string()
        } else {
            format!("{}[{}]", self.name, self.args.iter().map(|a| a.show()).collect::<Vec<_>>().join(","))
        }
    }
}

#[derive(Clone, Debug, PartialEq)]
pub enum KV {
    Leaf(CqlValue),
    Null,
    Unset,
    Empty,
    Wrap(Box<KV>),
    Seq(Vec<KV>),
    Map(Vec<(KV, KV)>),
    Tup(Vec<KV>),
    /// a BigDecimal whose exponent does not fit the i32 scale of CqlDecimal: (exponent, unscaled bytes)
    BigDec(i64, Vec<u8>),
}
pub fn wrap(v: KV) -> KV {
    KV::Wrap(Box::new(v))
}
impl KV {
    pub fn show(&self) -> String {
        let l = |name: &str, xs: &Vec<KV>| format!("{}[{}]", name, xs.iter().map(|x| x.show()).collect::<Vec<_>>().join(","));
        match self {
            KV::Leaf(v) => format!("{{{}}}", s_val(v)),
            KV::Null => "null".into(),
            KV::Unset => "unset".into(),
            KV::Empty => "mempty".into(),
            KV::Wrap(x) => format!("w[{}]", x.show()),
            KV::Seq(xs) => l("seq", xs),
            KV::Tup(xs) => l("tup", xs),
            KV::Map(m) => format!("map[{}]", m.iter().map(|(k, v)| format!("{}~{}", k.show(), v.show())).collect::<Vec<_>>().join(",")),
            KV::BigDec(sc, b) => format!("bigdec[{},{}]", vh::hex_i(*sc as i128), vh::hex_bytes(b)),
        }
    }
}

struct P<'a> {
    s: &'a [u8],
    i: usize,
}
impl<'a> P<'a> {
    fn peek(&self) -> Option<u8> {
        self.s.get(self.i).copied()
    }
    fn tok(&mut self) -> &'a str {
        let st = self.i;
        while let Some(c) = self.peek() {
            if matches!(c, b'[' | b']' | b',' | b'~' | b'{') {
                break;
            }
            self.i += 1;
        }
        std::str::from_utf8(&self.s[st..self.i]).unwrap()
    }
    fn items<T>(&mut self, mut p: impl FnMut(&mut Self) -> Result<T, String>) -> Result<Vec<T>, String> {
        let mut v = vec![];
        if self.peek() != Some(b'[') {
            return Ok(v);
        }
        self.i += 1;
        if self.peek() == Some(b']') {
            self.i += 1;
            return Ok(v);
        }
        v.push(p(self)?);
        while self.peek() == Some(b',') {
            self.i += 1;
            v.push(p(self)?);
        }
        if self.peek() != Some(b']') {
            return Err(format!("expected ] at {}", self.i));
        }
        self.i += 1;
        Ok(v)
    }
    fn kv(&mut self) -> Result<KV, String> {
        if self.peek() == Some(b'{') {
            let st = self.i + 1;
            while self.peek().is_some() && self.peek() != Some(b'}') {
                self.i += 1;
            }
            let inner = std::str::from_utf8(&self.s[st..self.i]).unwrap();
            if self.peek() != Some(b'}') {
                return Err("unterminated leaf".into());
            }
            self.i += 1;
            return match cell_of_str(inner)? {
                Cell::Val(v) => Ok(KV::Leaf(v)),
                _ => Err("leaf".into()),
            };
        }
        let name = self.tok();
        Ok(match name {
            "null" => KV::Null,
            "unset" => KV::Unset,
            "mempty" => KV::Empty,
            "w" => {
                let mut v = self.items(|p| p.kv())?;
                if v.len() != 1 {
                    return Err("w".into());
                }
                wrap(v.pop().unwrap())
            }
            "bigdec" => {
                let v = self.items(|p| Ok(p.tok().to_string()))?;
                if v.len() != 2 {
                    return Err("bigdec".into());
                }
                let neg = v[0].starts_with('-');
                let mag = i128::from_str_radix(v[0].trim_start_matches('-'), 16).map_err(|e| e.to_string())?;
                let sc = i64::try_from(if neg { -mag } else { mag }).map_err(|e| e.to_string())?;
                KV::BigDec(sc, unhex(&v[1])?)
            }
            "seq" => KV::Seq(self.items(|p| p.kv())?),
            "tup" => KV::Tup(self.items(|p| p.kv())?),
            "map" => KV::Map(self.items(|p| {
                let k = p.kv()?;
                if p.peek() != Some(b'~') {
                    return Err("~".into());
                }
                p.i += 1;
                Ok((k, p.kv()?))
            })?),
            _ => return Err(format!("value {}", name)),
        })
    }
}
pub fn kv_of_str(s: &str) -> Result<KV, String> {
    let mut p = P { s: s.as_bytes(), i: 0 };
    let v = p.kv()?;
    if p.i == s.len() { Ok(v) } else { Err("trailing".into()) }
}

// ------------------------------------------------------------------ HasDesc / Build

pub trait HasDesc {
    fn desc() -> Desc;
}
/// carriers whose values can be rebuilt from the tree (`build`) and printed back (`show`, in the
/// iteration order of the built object)
pub trait Build: HasDesc + Sized {
    fn build(v: &KV) -> Option<Self>;
    fn show(&self) -> KV;
}

macro_rules! leaf {
    ($ty:ty, $name:expr, |$v:ident| $from:expr, |$me:ident| $to:expr) => {
        impl HasDesc for $ty {
            fn desc() -> Desc {
                Desc::leaf($name)
            }
        }
        impl Build for $ty {
            fn build(v: &KV) -> Option<Self> {
                if let KV::Leaf($v) = v { $from } else { None }
            }
            fn show(&self) -> KV {
                let $me = self;
                KV::Leaf($to)
            }
        }
    };
}
macro_rules! leaf_simple {
    ($ty:ty, $name:expr, $var:ident) => {
        leaf!($ty, $name, |v| if let CqlValue::$var(x) = v { Some(x.clone()) } else { None }, |me| CqlValue::$var(me.clone()));
    };
}
leaf_simple!(bool, "bool", Boolean);
leaf_simple!(i8, "i8", TinyInt);
leaf_simple!(i16, "i16", SmallInt);
leaf_simple!(i32, "i32", Int);
leaf_simple!(i64, "i64", BigInt);
leaf_simple!(f32, "f32", Float);
leaf_simple!(f64, "f64", Double);
leaf!(String, "String", |v| match v { CqlValue::Text(s) | CqlValue::Ascii(s) => Some(s.clone()), _ => None }, |me| CqlValue::Text(me.clone()));
leaf_simple!(Counter, "Counter", Counter);
leaf_simple!(Vec<u8>, "VecU8", Blob);
leaf!(bytes::Bytes, "Bytes", |v| if let CqlValue::Blob(x) = v { Some(bytes::Bytes::from(x.clone())) } else { None }, |me| CqlValue::Blob(me.to_vec()));
leaf_simple!(IpAddr, "IpAddr", Inet);
leaf_simple!(uuid::Uuid, "Uuid", Uuid);
leaf_simple!(CqlTimeuuid, "Timeuuid", Timeuuid);
leaf_simple!(CqlDate, "CqlDate", Date);
leaf_simple!(CqlTime, "CqlTime", Time);
leaf_simple!(CqlTimestamp, "CqlTimestamp", Timestamp);
leaf_simple!(CqlDuration, "CqlDuration", Duration);
leaf_simple!(CqlDecimal, "CqlDecimal", Decimal);
leaf!(CqlVarint, "CqlVarint", |v| if let CqlValue::Varint(x) = v { Some(x.clone()) } else { None }, |me| CqlValue::Varint(me.clone()));

fn varint_bytes(v: &CqlValue) -> Option<&[u8]> {
    if let CqlValue::Varint(x) = v { Some(x.as_signed_bytes_be_slice()) } else { None }
}
leaf!(num_bigint_03::BigInt, "BigInt03",
    |v| varint_bytes(v).filter(|b| !b.is_empty()).map(num_bigint_03::BigInt::from_signed_bytes_be),
    |me| CqlValue::Varint(CqlVarint::from_signed_bytes_be(me.to_signed_bytes_be())));
leaf!(num_bigint_04::BigInt, "BigInt04",
    |v| varint_bytes(v).filter(|b| !b.is_empty()).map(num_bigint_04::BigInt::from_signed_bytes_be),
    |me| CqlValue::Varint(CqlVarint::from_signed_bytes_be(me.to_signed_bytes_be())));
impl HasDesc for bigdecimal::BigDecimal {
    fn desc() -> Desc {
        Desc::leaf("BigDecimal")
    }
}
impl Build for bigdecimal::BigDecimal {
    fn build(v: &KV) -> Option<Self> {
        match v {
            KV::Leaf(CqlValue::Decimal(d)) => {
                let (b, sc) = d.as_signed_be_bytes_slice_and_exponent();
                if b.is_empty() {
                    None
                } else {
                    Some(bigdecimal::BigDecimal::from((bigdecimal::num_bigint::BigInt::from_signed_bytes_be(b), sc as i64)))
                }
            }
            KV::BigDec(sc, b) if !b.is_empty() => {
                Some(bigdecimal::BigDecimal::from((bigdecimal::num_bigint::BigInt::from_signed_bytes_be(b), *sc)))
            }
            _ => None,
        }
    }
    fn show(&self) -> KV {
        let (i, sc) = self.as_bigint_and_exponent();
        match i32::try_from(sc) {
            Ok(sc32) => KV::Leaf(CqlValue::Decimal(CqlDecimal::from_signed_be_bytes_and_exponent(i.to_signed_bytes_be(), sc32))),
            Err(_) => KV::BigDec(sc, i.to_signed_bytes_be()),
        }
    }
}
leaf!(chrono::NaiveDate, "ChronoDate", |v| if let CqlValue::Date(d) = v { (*d).try_into().ok() } else { None }, |me| CqlValue::Date(CqlDate::from(*me)));
// nanoseconds since midnight; a leap second (up to 86400999999999) is a NaiveTime but not a CqlTime
leaf!(chrono::NaiveTime, "ChronoTime",
    |v| if let CqlValue::Time(d) = v {
        let z = d.0;
        if z < 0 { None } else if z < 86_400_000_000_000 {
            chrono::NaiveTime::from_num_seconds_from_midnight_opt((z / 1_000_000_000) as u32, (z % 1_000_000_000) as u32)
        } else {
            chrono::NaiveTime::from_num_seconds_from_midnight_opt(86399, u32::try_from(z - 86_399_000_000_000).ok()?)
        }
    } else { None },
    |me| {
        use chrono::Timelike;
        CqlValue::Time(CqlTime(me.num_seconds_from_midnight() as i64 * 1_000_000_000 + me.nanosecond() as i64))
    });
leaf!(chrono::DateTime<chrono::Utc>, "ChronoDateTime", |v| if let CqlValue::Timestamp(d) = v { (*d).try_into().ok() } else { None }, |me| CqlValue::Timestamp(CqlTimestamp::from(*me)));
leaf!(time::Date, "TimeDate", |v| if let CqlValue::Date(d) = v { (*d).try_into().ok() } else { None }, |me| CqlValue::Date(CqlDate::from(*me)));
leaf!(time::Time, "TimeTime", |v| if let CqlValue::Time(d) = v { (*d).try_into().ok() } else { None }, |me| CqlValue::Time(CqlTime::from(*me)));
leaf!(time::OffsetDateTime, "TimeOffsetDateTime", |v| if let CqlValue::Timestamp(d) = v { (*d).try_into().ok() } else { None }, |me| CqlValue::Timestamp(CqlTimestamp::from(*me)));
leaf!(CqlValue, "CqlValue", |v| Some(v.clone()), |me| me.clone());

impl HasDesc for Unset {
    fn desc() -> Desc {
        Desc::leaf("Unset")
    }
}
impl Build for Unset {
    fn build(v: &KV) -> Option<Self> {
        if *v == KV::Unset { Some(Unset) } else { None }
    }
    fn show(&self) -> KV {
        KV::Unset
    }
}

// --- borrowed / unsized leaf carriers: owning newtypes that delegate to the real impl

macro_rules! delegating_leaf {
    ($w:ident($inner:ty), $name:expr, |$me:ident| $borrow:expr, $target:ty, |$v:ident| $from:expr, |$s:ident| $to:expr) => {
        pub struct $w(pub $inner);
        impl SerializeValue for $w {
            fn serialize<'b>(&self, typ: &ColumnType, writer: CellWriter<'b>) -> Result<WrittenCellProof<'b>, SerializationError> {
                let $me = self;
                <$target as SerializeValue>::serialize(&$borrow, typ, writer)
            }
        }
        impl HasDesc for $w {
            fn desc() -> Desc {
                Desc::leaf($name)
            }
        }
        impl Build for $w {
            fn build(v: &KV) -> Option<Self> {
                if let KV::Leaf($v) = v { $from } else { None }
            }
            fn show(&self) -> KV {
                let $s = self;
                KV::Leaf($to)
            }
        }
    };
}
fn as_string(v: &CqlValue) -> Option<String> {
    match v {
        CqlValue::Text(s) | CqlValue::Ascii(s) => Some(s.clone()),
        _ => None,
    }
}
fn as_blob(v: &CqlValue) -> Option<Vec<u8>> {
    if let CqlValue::Blob(x) = v { Some(x.clone()) } else { None }
}
// `str` itself: <str as SerializeValue>::serialize(&*s, ..)
pub struct StrOf(pub String);
impl SerializeValue for StrOf {
    fn serialize<'b>(&self, typ: &ColumnType, writer: CellWriter<'b>) -> Result<WrittenCellProof<'b>, SerializationError> {
        <str as SerializeValue>::serialize(self.0.as_str(), typ, writer)
    }
}
impl HasDesc for StrOf {
    fn desc() -> Desc {
        Desc::leaf("str")
    }
}
impl Build for StrOf {
    fn build(v: &KV) -> Option<Self> {
        if let KV::Leaf(x) = v { as_string(x).map(StrOf) } else { None }
    }
    fn show(&self) -> KV {
        KV::Leaf(CqlValue::Text(self.0.clone()))
    }
}
delegating_leaf!(SliceU8(Vec<u8>), "SliceU8", |me| me.0.as_slice(), &[u8], |v| as_blob(v).map(SliceU8), |s| CqlValue::Blob(s.0.clone()));
delegating_leaf!(ArrU8(Vec<u8>), "ArrU8", |me| <[u8; 4]>::try_from(me.0.as_slice()).unwrap(), [u8; 4],
    |v| as_blob(v).filter(|x| x.len() == 4).map(ArrU8), |s| CqlValue::Blob(s.0.clone()));
delegating_leaf!(VarintB(Vec<u8>), "CqlVarintB", |me| CqlVarintBorrowed::from_signed_bytes_be_slice(&me.0), CqlVarintBorrowed<'_>,
    |v| varint_bytes(v).map(|b| VarintB(b.to_vec())), |s| CqlValue::Varint(CqlVarint::from_signed_bytes_be(s.0.clone())));
delegating_leaf!(DecimalB((Vec<u8>, i32)), "CqlDecimalB", |me| CqlDecimalBorrowed::from_signed_be_bytes_slice_and_exponent(&me.0 .0, me.0 .1), CqlDecimalBorrowed<'_>,
    |v| if let CqlValue::Decimal(d) = v { let (b, sc) = d.as_signed_be_bytes_slice_and_exponent(); Some(DecimalB((b.to_vec(), sc))) } else { None },
    |s| CqlValue::Decimal(CqlDecimal::from_signed_be_bytes_and_exponent(s.0 .0.clone(), s.0 .1)));

// the real borrowed types, for DeserializeValue::type_check only
impl HasDesc for &'static [u8] {
    fn desc() -> Desc {
        Desc::leaf("SliceU8")
    }
}
impl HasDesc for CqlVarintBorrowed<'static> {
    fn desc() -> Desc {
        Desc::leaf("CqlVarintB")
    }
}
impl HasDesc for CqlDecimalBorrowed<'static> {
    fn desc() -> Desc {
        Desc::leaf("CqlDecimalB")
    }
}
impl HasDesc for &'static str {
    fn desc() -> Desc {
        Desc::un("Ref", Desc::leaf("str"))
    }
}
impl HasDesc for Cow<'static, [u8]> {
    fn desc() -> Desc {
        Desc::un("Cow", Desc::leaf("SliceU8"))
    }
}
impl HasDesc for Cow<'static, str> {
    fn desc() -> Desc {
        Desc::un("Cow", Desc::leaf("str"))
    }
}

// --- wrappers

macro_rules! wrapper {
    ($name:expr, $w:ident, |$x:ident| $mk:expr, |$me:ident| $get:expr) => {
        impl<T: HasDesc> HasDesc for $w<T> {
            fn desc() -> Desc {
                Desc::un($name, T::desc())
            }
        }
        impl<T: Build> Build for $w<T> {
            fn build(v: &KV) -> Option<Self> {
                if let KV::Wrap(x) = v { T::build(x).map(|$x| $mk) } else { None }
            }
            fn show(&self) -> KV {
                let $me = self;
                wrap($get.show())
            }
        }
    };
}
wrapper!("Box", Box, |x| Box::new(x), |me| (**me));
wrapper!("Arc", Arc, |x| Arc::new(x), |me| (**me));

impl<T: HasDesc> HasDesc for Option<T> {
    fn desc() -> Desc {
        Desc::un("Opt", T::desc())
    }
}
impl<T: Build> Build for Option<T> {
    fn build(v: &KV) -> Option<Self> {
        match v {
            KV::Null => Some(None),
            KV::Wrap(x) => T::build(x).map(Some),
            _ => None,
        }
    }
    fn show(&self) -> KV {
        match self {
            None => KV::Null,
            Some(x) => wrap(x.show()),
        }
    }
}
impl<T: HasDesc> HasDesc for MaybeUnset<T> {
    fn desc() -> Desc {
        Desc::un("MUnset", T::desc())
    }
}
impl<T: Build> Build for MaybeUnset<T> {
    fn build(v: &KV) -> Option<Self> {
        match v {
            KV::Unset => Some(MaybeUnset::Unset),
            KV::Wrap(x) => T::build(x).map(MaybeUnset::Set),
            _ => None,
        }
    }
    fn show(&self) -> KV {
        match self {
            MaybeUnset::Unset => KV::Unset,
            MaybeUnset::Set(x) => wrap(x.show()),
        }
    }
}
impl<T: HasDesc + Emptiable> HasDesc for MaybeEmpty<T> {
    fn desc() -> Desc {
        Desc::un("MEmpty", T::desc())
    }
}
impl<T: Build + Emptiable> Build for MaybeEmpty<T> {
    fn build(v: &KV) -> Option<Self> {
        match v {
            KV::Empty => Some(MaybeEmpty::Empty),
            KV::Wrap(x) => T::build(x).map(MaybeEmpty::Value),
            _ => None,
        }
    }
    fn show(&self) -> KV {
        match self {
            MaybeEmpty::Empty => KV::Empty,
            MaybeEmpty::Value(x) => wrap(x.show()),
        }
    }
}

/// `&T` for an owned carrier T
pub struct RefOf<T>(pub T);
impl<T: SerializeValue> SerializeValue for RefOf<T> {
    fn serialize<'b>(&self, typ: &ColumnType, writer: CellWriter<'b>) -> Result<WrittenCellProof<'b>, SerializationError> {
        <&T as SerializeValue>::serialize(&&self.0, typ, writer)
    }
}
impl<T: HasDesc> HasDesc for RefOf<T> {
    fn desc() -> Desc {
        Desc::un("Ref", T::desc())
    }
}
impl<T: Build> Build for RefOf<T> {
    fn build(v: &KV) -> Option<Self> {
        if let KV::Wrap(x) = v { T::build(x).map(RefOf) } else { None }
    }
    fn show(&self) -> KV {
        wrap(self.0.show())
    }
}
/// `&str` (= &T with T = str), `Box<str>`, `Arc<str>`, `Cow<str>`
macro_rules! str_wrapper {
    ($w:ident, $name:expr, |$me:ident| $borrow:expr, $target:ty) => {
        pub struct $w(pub String);
        impl SerializeValue for $w {
            fn serialize<'b>(&self, typ: &ColumnType, writer: CellWriter<'b>) -> Result<WrittenCellProof<'b>, SerializationError> {
                let $me = self;
                <$target as SerializeValue>::serialize(&$borrow, typ, writer)
            }
        }
        impl HasDesc for $w {
            fn desc() -> Desc {
                Desc::un($name, Desc::leaf("str"))
            }
        }
        impl Build for $w {
            fn build(v: &KV) -> Option<Self> {
                if let KV::Wrap(x) = v { if let KV::Leaf(c) = &**x { as_string(c).map($w) } else { None } } else { None }
            }
            fn show(&self) -> KV {
                wrap(KV::Leaf(CqlValue::Text(self.0.clone())))
            }
        }
    };
}
str_wrapper!(RefStr, "Ref", |me| me.0.as_str(), &str);
str_wrapper!(BoxStr, "Box", |me| me.0.clone().into_boxed_str(), Box<str>);
str_wrapper!(ArcStr, "Arc", |me| Arc::<str>::from(me.0.as_str()), Arc<str>);
str_wrapper!(CowStr, "Cow", |me| Cow::Borrowed(me.0.as_str()), Cow<'_, str>);
impl HasDesc for Box<str> {
    fn desc() -> Desc {
        Desc::un("Box", Desc::leaf("str"))
    }
}
impl HasDesc for Arc<str> {
    fn desc() -> Desc {
        Desc::un("Arc", Desc::leaf("str"))
    }
}

impl HasDesc for secrecy_08::Secret<String> {
    fn desc() -> Desc {
        Desc::un("Sec08", Desc::leaf("String"))
    }
}
impl Build for secrecy_08::Secret<String> {
    fn build(v: &KV) -> Option<Self> {
        if let KV::Wrap(x) = v { String::build(x).map(secrecy_08::Secret::new) } else { None }
    }
    fn show(&self) -> KV {
        use secrecy_08::ExposeSecret;
        wrap(self.expose_secret().show())
    }
}
impl HasDesc for secrecy_10::SecretBox<i64> {
    fn desc() -> Desc {
        Desc::un("SecBox10", Desc::leaf("i64"))
    }
}
impl Build for secrecy_10::SecretBox<i64> {
    fn build(v: &KV) -> Option<Self> {
        if let KV::Wrap(x) = v { i64::build(x).map(|y| secrecy_10::SecretBox::new(Box::new(y))) } else { None }
    }
    fn show(&self) -> KV {
        use secrecy_10::ExposeSecret;
        wrap(self.expose_secret().show())
    }
}
impl HasDesc for secrecy_10::SecretString {
    fn desc() -> Desc {
        Desc::leaf("SecretString")
    }
}
impl HasDesc for secrecy_10::SecretSlice<i32> {
    fn desc() -> Desc {
        Desc::un("SecSlice", Desc::leaf("i32"))
    }
}

// --- collections

macro_rules! seq_carrier {
    ($name:expr, $c:ident, $($bound:tt)*) => {
        impl<T: HasDesc> HasDesc for $c<T> {
            fn desc() -> Desc {
                Desc::un($name, T::desc())
            }
        }
        impl<T: Build + $($bound)*> Build for $c<T> {
            fn build(v: &KV) -> Option<Self> {
                if let KV::Seq(l) = v { l.iter().map(T::build).collect() } else { None }
            }
            fn show(&self) -> KV {
                KV::Seq(self.iter().map(|x| x.show()).collect())
            }
        }
    };
}
seq_carrier!("Vec", Vec, Sized);
seq_carrier!("BSet", BTreeSet, Ord);
seq_carrier!("HSet", HashSet, Eq + std::hash::Hash);

/// `[T]` (the slice impl) for an owned Vec<T>
pub struct SliceOf<T>(pub Vec<T>);
impl<T: SerializeValue> SerializeValue for SliceOf<T> {
    fn serialize<'b>(&self, typ: &ColumnType, writer: CellWriter<'b>) -> Result<WrittenCellProof<'b>, SerializationError> {
        <[T] as SerializeValue>::serialize(self.0.as_slice(), typ, writer)
    }
}
impl<T: HasDesc> HasDesc for SliceOf<T> {
    fn desc() -> Desc {
        Desc::un("Slice", T::desc())
    }
}
impl<T: Build> Build for SliceOf<T> {
    fn build(v: &KV) -> Option<Self> {
        Vec::<T>::build(v).map(SliceOf)
    }
    fn show(&self) -> KV {
        self.0.show()
    }
}

macro_rules! map_carrier {
    ($name:expr, $m:ident, $($bound:tt)+) => {
        impl<K: HasDesc, V: HasDesc> HasDesc for $m<K, V> {
            fn desc() -> Desc {
                Desc::bin($name, K::desc(), V::desc())
            }
        }
        impl<K: Build + $($bound)+, V: Build> Build for $m<K, V> {
            fn build(v: &KV) -> Option<Self> {
                if let KV::Map(l) = v { l.iter().map(|(k, x)| Some((K::build(k)?, V::build(x)?))).collect() } else { None }
            }
            fn show(&self) -> KV {
                KV::Map(self.iter().map(|(k, x)| (k.show(), x.show())).collect())
            }
        }
    };
}
map_carrier!("BMap", BTreeMap, Ord);
map_carrier!("HMap", HashMap, Eq + std::hash::Hash);

macro_rules! tuple_carrier {
    ($($T:ident $i:tt),*) => {
        impl<$($T: HasDesc),*> HasDesc for ($($T,)*) {
            fn desc() -> Desc {
                Desc { name: "Tup", args: vec![$($T::desc()),*] }
            }
        }
        impl<$($T: Build),*> Build for ($($T,)*) {
            #[allow(unused_variables)]
            fn build(v: &KV) -> Option<Self> {
                if let KV::Tup(l) = v {
                    let n: usize = [$($i),*].len();
                    if l.len() != n {
                        return None;
                    }
                    Some(($($T::build(&l[$i])?,)*))
                } else {
                    None
                }
            }
            fn show(&self) -> KV {
                KV::Tup(vec![$(self.$i.show()),*])
            }
        }
    };
}
impl HasDesc for () {
    fn desc() -> Desc {
        Desc { name: "Tup", args: vec![] }
    }
}
tuple_carrier!(A 0);
tuple_carrier!(A 0, B 1);
tuple_carrier!(A 0, B 1, C 2);
tuple_carrier!(A 0, B 1, C 2, D 3);
tuple_carrier!(A 0, B 1, C 2, D 3, E 4);
tuple_carrier!(A 0, B 1, C 2, D 3, E 4, F 5);
tuple_carrier!(A 0, B 1, C 2, D 3, E 4, F 5, G 6);
tuple_carrier!(A 0, B 1, C 2, D 3, E 4, F 5, G 6, H 7);
tuple_carrier!(A 0, B 1, C 2, D 3, E 4, F 5, G 6, H 7, I 8);
tuple_carrier!(A 0, B 1, C 2, D 3, E 4, F 5, G 6, H 7, I 8, J 9);
tuple_carrier!(A 0, B 1, C 2, D 3, E 4, F 5, G 6, H 7, I 8, J 9, K 10);
tuple_carrier!(A 0, B 1, C 2, D 3, E 4, F 5, G 6, H 7, I 8, J 9, K 10, L 11);
tuple_carrier!(A 0, B 1, C 2, D 3, E 4, F 5, G 6, H 7, I 8, J 9, K 10, L 11, M 12);
tuple_carrier!(A 0, B 1, C 2, D 3, E 4, F 5, G 6, H 7, I 8, J 9, K 10, L 11, M 12, N 13);
tuple_carrier!(A 0, B 1, C 2, D 3, E 4, F 5, G 6, H 7, I 8, J 9, K 10, L 11, M 12, N 13, O 14);
tuple_carrier!(A 0, B 1, C 2, D 3, E 4, F 5, G 6, H 7, I 8, J 9, K 10, L 11, M 12, N 13, O 14, Q 15);

// deserialization-only iterators
impl<T: HasDesc> HasDesc for ListlikeIterator<'static, 'static, T> {
    fn desc() -> Desc {
        Desc::un("ListIter", T::desc())
    }
}
impl<T: HasDesc> HasDesc for VectorIterator<'static, 'static, T> {
    fn desc() -> Desc {
        Desc::un("VecIter", T::desc())
    }
}
impl<K: HasDesc, V: HasDesc> HasDesc for MapIterator<'static, 'static, K, V> {
    fn desc() -> Desc {
        Desc::bin("MapIter", K::desc(), V::desc())
    }
}
impl HasDesc for UdtIterator<'static, 'static> {
    fn desc() -> Desc {
        Desc::leaf("UdtIter")
    }
}
impl HasDesc for FrameSliceWithMetadata<'static, 'static> {
    fn desc() -> Desc {
        Desc::leaf("FrameSlice")
    }
}

// ------------------------------------------------------------------ registries

pub struct SerEntry {
    pub name: String,
    pub desc: Desc,
    /// serialize into a buffer that already holds `prefix`: (result leaf, buffer after the call)
    pub ser: fn(&KV, &Ty, bool, &[u8]) -> Option<(Result<(), String>, Vec<u8>)>,
    pub add: fn(&mut SerializedValues, &KV, &Ty) -> Option<Result<(), String>>,
    pub boxed: fn(&KV) -> Option<Box<dyn SerializeValue>>,
    /// build then show: the value in the iteration order of the real object
    pub canon: fn(&KV) -> Option<KV>,
}
pub struct DeEntry {
    pub name: String,
    pub desc: Desc,
    pub tck: fn(&Ty) -> String,
}

fn ser_fn<T: Build + SerializeValue>(v: &KV, t: &Ty, ws: bool, prefix: &[u8]) -> Option<(Result<(), String>, Vec<u8>)> {
    let val = T::build(v)?;
    let mut buf = prefix.to_vec();
    let r = {
        let w = if ws { CellWriter::new(&mut buf) } else { CellWriter::new_without_size(&mut buf) };
        val.serialize(t, w).map(|_| ()).map_err(|e| ser_leaf(&e))
    };
    Some((r, buf))
}
pub fn row_leaf(e: &SerializationError) -> String {
    use scylla_cql_core::serialize::row::{
        BuiltinSerializationError as RSE, BuiltinSerializationErrorKind as RSK, BuiltinTypeCheckError as RTE,
        BuiltinTypeCheckErrorKind as RTK,
    };
    // add_value wraps its TooManyValues error in a second SerializationError
    if let Some(inner) = e.downcast_ref::<SerializationError>() {
        return row_leaf(inner);
    }
    if let Some(s) = e.downcast_ref::<RSE>() {
        return match &s.kind {
            RSK::TooManyValues => "TooManyValues".into(),
            RSK::ColumnSerializationFailed { err, .. } => ser_leaf(err),
            k => format!("OtherRow:{:?}", k).replace(' ', "_"),
        };
    }
    if let Some(t) = e.downcast_ref::<RTE>() {
        return match &t.kind {
            RTK::WrongColumnCount { .. } => "WrongColumnCount".into(),
            RTK::ValueMissingForColumn { name } => format!("ValueMissingForColumn:{}", vh::hex_bytes(name.as_bytes())),
            RTK::NoColumnWithName { name } => format!("NoColumnWithName:{}", vh::hex_bytes(name.as_bytes())),
            k => format!("OtherRowTck:{:?}", k).replace(' ', "_"),
        };
    }
    ser_leaf(e)
}
fn add_fn<T: Build + SerializeValue>(sv: &mut SerializedValues, v: &KV, t: &Ty) -> Option<Result<(), String>> {
    let val = T::build(v)?;
    Some(sv.add_value(&val, t).map_err(|e| row_leaf(&e)))
}
fn boxed_fn<T: Build + SerializeValue + 'static>(v: &KV) -> Option<Box<dyn SerializeValue>> {
    Some(Box::new(T::build(v)?))
}
fn canon_fn<T: Build>(v: &KV) -> Option<KV> {
    T::build(v).map(|x| x.show())
}
fn ser_entry<T: Build + SerializeValue + 'static>() -> SerEntry {
    let d = T::desc();
    SerEntry { name: d.show(), desc: d, ser: ser_fn::<T>, add: add_fn::<T>, boxed: boxed_fn::<T>, canon: canon_fn::<T> }
}

pub fn tck_leaf(e: &TypeCheckError) -> String {
    if let Some(b) = e.downcast_ref::<DTE>() {
        return match &b.kind {
            DTK::MismatchedType { .. } => "MismatchedType".into(),
            DTK::NotDeserializableToVec => "NotDeserializableToVec".into(),
            DTK::SetOrListError(DSetK::NotSetOrList) => "NotSetOrList".into(),
            DTK::SetOrListError(DSetK::NotSet) => "NotSet".into(),
            DTK::SetOrListError(DSetK::ElementTypeCheckFailed(i)) => tck_leaf(i),
            DTK::VectorError(DVecK::NotVector) => "NotVector".into(),
            DTK::VectorError(DVecK::ElementTypeCheckFailed(i)) => tck_leaf(i),
            DTK::MapError(DMapK::NotMap) => "NotMap".into(),
            DTK::MapError(DMapK::KeyTypeCheckFailed(i)) => tck_leaf(i),
            DTK::MapError(DMapK::ValueTypeCheckFailed(i)) => tck_leaf(i),
            DTK::TupleError(DTupK::NotTuple) => "NotTuple".into(),
            DTK::TupleError(DTupK::WrongElementCount { .. }) => "TupleWrongCount".into(),
            DTK::TupleError(DTupK::FieldTypeCheckFailed { err, .. }) => tck_leaf(err),
            DTK::UdtError(DUdtK::NotUdt) => "NotUdt".into(),
            k => format!("Other:{:?}", k).replace(' ', "_"),
        };
    }
    "Other".into()
}
fn tck_fn<T: DeserializeValue<'static, 'static>>(t: &Ty) -> String {
    // the type only has to live for the call; type_check does not keep it
    match <T as DeserializeValue<'static, 'static>>::type_check(t) {
        Ok(()) => "ok".into(),
        Err(e) => format!("err:{}", tck_leaf(&e)),
    }
}
fn de_entry<T: HasDesc + DeserializeValue<'static, 'static>>() -> DeEntry {
    let d = T::desc();
    DeEntry { name: d.show(), desc: d, tck: tck_fn::<T> }
}

macro_rules! ser_list {
    ($v:ident; $($ty:ty),* $(,)?) => { $( $v.push(ser_entry::<$ty>()); )* };
}
macro_rules! de_list {
    ($v:ident; $($ty:ty),* $(,)?) => { $( $v.push(de_entry::<$ty>()); )* };
}
/// both directions for types that implement both traits and Build
macro_rules! both_list {
    ($s:ident, $d:ident; $($ty:ty),* $(,)?) => { $( $s.push(ser_entry::<$ty>()); $d.push(de_entry::<$ty>()); )* };
}
/// apply a unary type constructor to every type of a list, both directions
macro_rules! both_wrap {
    ($s:ident, $d:ident; $w:ident; $($ty:ty),* $(,)?) => { $( $s.push(ser_entry::<$w<$ty>>()); $d.push(de_entry::<$w<$ty>>()); )* };
}
macro_rules! ser_wrap {
    ($s:ident; $w:ident; $($ty:ty),* $(,)?) => { $( $s.push(ser_entry::<$w<$ty>>()); )* };
}

type Sec08 = secrecy_08::Secret<String>;
type SecBox10 = secrecy_10::SecretBox<i64>;
type ChronoDT = chrono::DateTime<chrono::Utc>;
type I16Tuple = (i32, i32, i32, i32, i32, i32, i32, i32, i32, i32, i32, i32, i32, i32, i32, i32);

pub fn registries() -> (Vec<SerEntry>, Vec<DeEntry>) {
    let mut s: Vec<SerEntry> = vec![];
    let mut d: Vec<DeEntry> = vec![];
    // every leaf carrier on its own
    both_list!(s, d; bool, i8, i16, i32, i64, f32, f64, String, Counter, Vec<u8>, bytes::Bytes, IpAddr, uuid::Uuid,
        CqlTimeuuid, CqlDate, chrono::NaiveDate, time::Date, CqlTime, chrono::NaiveTime, time::Time, CqlTimestamp,
        ChronoDT, time::OffsetDateTime, CqlDuration, CqlDecimal, bigdecimal::BigDecimal, CqlVarint,
        num_bigint_03::BigInt, num_bigint_04::BigInt, CqlValue);
    ser_list!(s; StrOf, SliceU8, ArrU8, VarintB, DecimalB, Unset, RefStr, BoxStr, ArcStr, CowStr, Sec08, SecBox10);
    de_list!(d; &'static [u8], CqlVarintBorrowed<'static>, CqlDecimalBorrowed<'static>, &'static str, Box<str>, Arc<str>,
        Cow<'static, str>, Cow<'static, [u8]>, Option<Cow<'static, [u8]>>, Sec08, SecBox10, secrecy_10::SecretString, secrecy_10::SecretSlice<i32>,
        UdtIterator<'static, 'static>, FrameSliceWithMetadata<'static, 'static>, ());
    // Option / Vec / Box of every sized leaf
    both_wrap!(s, d; Option; bool, i8, i16, i32, i64, f32, f64, String, Counter, Vec<u8>, bytes::Bytes, IpAddr, uuid::Uuid,
        CqlTimeuuid, CqlDate, chrono::NaiveDate, time::Date, CqlTime, chrono::NaiveTime, time::Time, CqlTimestamp,
        ChronoDT, time::OffsetDateTime, CqlDuration, CqlDecimal, bigdecimal::BigDecimal, CqlVarint,
        num_bigint_03::BigInt, num_bigint_04::BigInt, CqlValue);
    both_wrap!(s, d; Vec; bool, i8, i16, i32, i64, f32, f64, String, Counter, Vec<u8>, bytes::Bytes, IpAddr, uuid::Uuid,
        CqlTimeuuid, CqlDate, chrono::NaiveDate, time::Date, CqlTime, chrono::NaiveTime, time::Time, CqlTimestamp,
        ChronoDT, time::OffsetDateTime, CqlDuration, CqlDecimal, bigdecimal::BigDecimal, CqlVarint,
        num_bigint_03::BigInt, num_bigint_04::BigInt, CqlValue);
    both_wrap!(s, d; Box; bool, i8, i16, i32, i64, f32, f64, String, Counter, Vec<u8>, bytes::Bytes, IpAddr, uuid::Uuid,
        CqlTimeuuid, CqlDate, chrono::NaiveDate, time::Date, CqlTime, chrono::NaiveTime, time::Time, CqlTimestamp,
        ChronoDT, time::OffsetDateTime, CqlDuration, CqlDecimal, bigdecimal::BigDecimal, CqlVarint,
        num_bigint_03::BigInt, num_bigint_04::BigInt, CqlValue);
    ser_wrap!(s; Option; SliceU8, VarintB, DecimalB, ArrU8, RefStr);
    ser_wrap!(s; Vec; SliceU8, VarintB, DecimalB, ArrU8, RefStr, BoxStr, CowStr, Unset);
    de_list!(d; Option<&'static str>, Vec<&'static str>, Vec<Box<str>>, Option<&'static [u8]>, Vec<&'static [u8]>,
        Option<Cow<'static, str>>, Vec<Arc<str>>);
    // a subset of leaves under the remaining constructors
    both_wrap!(s, d; Arc; i32, i64, String, bool, f64, Vec<u8>, uuid::Uuid, CqlVarint, CqlDate, IpAddr, Counter, CqlDuration);
    ser_wrap!(s; MaybeUnset; i32, i64, String, bool, f64, Vec<u8>, uuid::Uuid, CqlVarint, CqlDate, IpAddr, Counter, CqlDuration, CqlValue);
    ser_wrap!(s; RefOf; i32, i64, String, bool, f64, Vec<u8>, uuid::Uuid, CqlVarint, CqlDate, IpAddr, Counter, CqlDuration, CqlValue);
    ser_wrap!(s; SliceOf; i32, i64, String, bool, f64, Vec<u8>, uuid::Uuid, CqlVarint, CqlDate, IpAddr, Counter, CqlDuration, CqlValue);
    both_wrap!(s, d; MaybeEmpty; i32, i64, bool, f64, f32, i8, i16, uuid::Uuid, CqlVarint, CqlDecimal, CqlDate, CqlTime, CqlTimestamp,
        CqlTimeuuid, IpAddr, chrono::NaiveDate, time::Time, num_bigint_04::BigInt, bigdecimal::BigDecimal);
    both_wrap!(s, d; BTreeSet; i32, i64, String, bool, Vec<u8>, uuid::Uuid, IpAddr, i8, i16, CqlTimeuuid);
    both_wrap!(s, d; HashSet; i32, i64, String, bool, Vec<u8>, uuid::Uuid, IpAddr, i8, i16);
    both_list!(s, d; (i32,), (String,), (i64,), (bool,), (Vec<u8>,), (uuid::Uuid,), (f64,), (CqlVarint,), (CqlDuration,), (CqlValue,),
        (i32, String), (i32, String, Vec<u8>), (Option<i32>, Option<String>), (i32, i32, i32), (i32, i32, i32, i64), I16Tuple,
        (Vec<i32>, Option<String>), (CqlValue, i32), ((i32, String), i64),
        (i32, i32, i32, i32, i32), (i32, String, i64, Vec<u8>, bool, f64), (i32, i32, i32, i32, i32, i32, i32),
        (i32, String, i64, Vec<u8>, bool, f64, uuid::Uuid, Option<i32>), (i32, i32, i32, i32, i32, i32, i32, i32, i32),
        (i32, i32, i32, i32, i32, i32, i32, i32, i32, i32), (i32, i32, i32, i32, i32, i32, i32, i32, i32, i32, i32),
        (i32, i32, i32, i32, i32, i32, i32, i32, i32, i32, i32, i32), (i32, i32, i32, i32, i32, i32, i32, i32, i32, i32, i32, i32, i32),
        (i32, i32, i32, i32, i32, i32, i32, i32, i32, i32, i32, i32, i32, i32),
        (i32, String, i32, String, i32, String, i32, String, i32, String, i32, String, i32, String, i32));
    // maps over 5 x 5 leaves
    macro_rules! maps {
        ($k:ty; $($v:ty),*) => { $( s.push(ser_entry::<BTreeMap<$k, $v>>()); d.push(de_entry::<BTreeMap<$k, $v>>());
                                    s.push(ser_entry::<HashMap<$k, $v>>()); d.push(de_entry::<HashMap<$k, $v>>()); )* };
    }
    maps!(i32; i32, String, i64, Vec<u8>, uuid::Uuid, f64);
    maps!(String; i32, String, i64, Vec<u8>, uuid::Uuid, CqlValue);
    maps!(i64; i32, String, i64, Vec<u8>, uuid::Uuid);
    maps!(Vec<u8>; i32, String, i64, Vec<u8>, uuid::Uuid);
    maps!(uuid::Uuid; i32, String, i64, Vec<u8>, uuid::Uuid);
    // second level over six leaves
    macro_rules! level2 {
        ($($b:ty),*) => { $(
            both_list!(s, d; Vec<Vec<$b>>, Vec<Option<$b>>, Option<Vec<$b>>, Vec<Box<$b>>, BTreeMap<i32, Vec<$b>>, Vec<($b, $b)>,
                (Vec<$b>, Option<$b>), Box<Vec<$b>>, Arc<Option<$b>>, Option<Option<$b>>, Vec<BTreeMap<i32, $b>>, Option<($b, i32)>,
                Vec<Vec<Vec<$b>>>, BTreeMap<i32, Option<$b>>, Vec<Arc<$b>>);
            ser_list!(s; Vec<MaybeUnset<$b>>, MaybeUnset<Vec<$b>>, Vec<RefOf<$b>>, RefOf<Vec<$b>>, SliceOf<Vec<$b>>, SliceOf<Option<$b>>,
                Option<MaybeUnset<$b>>, MaybeUnset<Option<$b>>, Vec<SliceOf<$b>>, RefOf<Option<$b>>, Box<MaybeUnset<$b>>);
            de_list!(d; ListlikeIterator<'static, 'static, $b>, VectorIterator<'static, 'static, $b>, MapIterator<'static, 'static, $b, $b>,
                Vec<ListlikeIterator<'static, 'static, $b>>, ListlikeIterator<'static, 'static, Vec<$b>>,
                VectorIterator<'static, 'static, Option<$b>>);
        )* };
    }
    level2!(i32, String, i64, f64, Vec<u8>, uuid::Uuid);
    macro_rules! level2_ord {
        ($($b:ty),*) => { $( both_list!(s, d; Vec<BTreeSet<$b>>, BTreeSet<Vec<$b>>, Option<HashSet<$b>>, BTreeMap<$b, BTreeSet<$b>>); )* };
    }
    level2_ord!(i32, String, i64, Vec<u8>, uuid::Uuid);
    macro_rules! level2_empty {
        ($($b:ty),*) => { $( both_list!(s, d; Vec<MaybeEmpty<$b>>, Option<MaybeEmpty<$b>>, BTreeMap<i32, MaybeEmpty<$b>>, Box<MaybeEmpty<$b>>);
                             ser_list!(s; MaybeUnset<MaybeEmpty<$b>>, Vec<MaybeUnset<Option<MaybeEmpty<$b>>>>); )* };
    }
    level2_empty!(i32, i64, f64, uuid::Uuid, CqlVarint);
    both_list!(s, d; Vec<Vec<CqlValue>>, Option<Vec<CqlValue>>, BTreeMap<String, Vec<CqlValue>>, (CqlValue, Option<CqlValue>), Vec<(CqlValue, i32)>);
    ser_list!(s; Vec<Sec08>, Option<SecBox10>, RefOf<RefStr>, Vec<RefOf<RefStr>>, RefOf<RefOf<i32>>, Box<RefStr>, Arc<RefStr>);
    // one entry per descriptor
    let mut seen = std::collections::HashSet::new();
    s.retain(|e| seen.insert(e.name.clone()));
    let mut seen = std::collections::HashSet::new();
    d.retain(|e| seen.insert(e.name.clone()));
    (s, d)
}

// ------------------------------------------------------------------ typed rows (the read side)

pub struct RowEntry {
    pub name: String,
    pub desc: Desc,
    /// TypedRowIterator::<R>::new over a RawRowIterator of `nrows` rows held by `data`:
    /// `ok:<rows decoded>:<rows that failed to decode>` or the leaf of the row type-check error
    pub new: fn(&[ColumnSpec<'static>], usize, &bytes::Bytes) -> String,
}
pub fn row_tck_leaf(e: &TypeCheckError) -> String {
    if let Some(b) = e.downcast_ref::<RowTE>() {
        return match &b.kind {
            RowTK::WrongColumnCount { .. } => "WrongColumnCount".into(),
            RowTK::ColumnTypeCheckFailed { column_index, err, .. } => format!("col{}:{}", column_index, tck_leaf(err)),
            k => format!("OtherRow:{:?}", k).replace(' ', "_"),
        };
    }
    format!("value:{}", tck_leaf(e))
}
fn row_fn<R>(specs: &[ColumnSpec<'static>], nrows: usize, data: &bytes::Bytes) -> String
where
    R: for<'f, 'm> DeserializeRow<'f, 'm>,
{
    let raw = RawRowIterator::new(nrows, specs, FrameSlice::new(data));
    match TypedRowIterator::<R>::new(raw) {
        Err(e) => format!("err:{}", row_tck_leaf(&e)),
        // every item of a checked iterator is taken (decoded or a decoding error): no panic may come out
        Ok(it) => {
            let (mut ok, mut bad) = (0usize, 0usize);
            for r in it {
                if r.is_ok() { ok += 1 } else { bad += 1 }
            }
            format!("ok:{:x}:{:x}", ok, bad)
        }
    }
}
fn row_entry<R: HasDesc + for<'f, 'm> DeserializeRow<'f, 'm>>() -> RowEntry {
    let d = R::desc();
    RowEntry { name: d.show(), desc: d, new: row_fn::<R> }
}
pub fn row_registry() -> Vec<RowEntry> {
    let mut v: Vec<RowEntry> = vec![];
    macro_rules! singles { ($($t:ty),* $(,)?) => { $( v.push(row_entry::<($t,)>()); )* }; }
    singles!(i32, i64, String, bool, f64, Vec<u8>, uuid::Uuid, CqlVarint, CqlDate, IpAddr, Counter, CqlDuration, Option<i32>,
        Vec<i32>, Vec<String>, BTreeSet<i32>, HashSet<String>, BTreeMap<i32, String>, (i32, String), CqlValue, Option<String>,
        Box<i64>, MaybeEmpty<i32>, CqlTimeuuid, chrono::NaiveDate, num_bigint_04::BigInt);
    macro_rules! pairs {
        ($a:ty; $($b:ty),*) => { $( v.push(row_entry::<($a, $b)>()); )* };
    }
    pairs!(i32; i32, String, i64, Vec<u8>, Option<i32>, Vec<i32>, CqlValue, BTreeSet<i32>);
    pairs!(String; i32, String, i64, Vec<u8>, Option<i32>, Vec<i32>, CqlValue, BTreeSet<i32>);
    pairs!(i64; i32, String, i64, Vec<u8>, Option<i32>, Vec<i32>, CqlValue, BTreeSet<i32>);
    pairs!(Vec<u8>; i32, String, i64, Vec<u8>, Option<i32>, Vec<i32>, CqlValue, BTreeSet<i32>);
    pairs!(Option<i32>; i32, String, i64, Vec<u8>, Option<i32>, Vec<i32>, CqlValue, BTreeSet<i32>);
    pairs!(Vec<i32>; i32, String, i64, Vec<u8>, Option<i32>, Vec<i32>, CqlValue, BTreeSet<i32>);
    pairs!(CqlValue; i32, String, i64, Vec<u8>, Option<i32>, Vec<i32>, CqlValue, BTreeSet<i32>);
    pairs!(BTreeSet<i32>; i32, String, i64, Vec<u8>, Option<i32>, Vec<i32>, CqlValue, BTreeSet<i32>);
    v.push(row_entry::<()>());
    v.push(row_entry::<(i32, String, Vec<u8>)>());
    v.push(row_entry::<(i32, i32, i32)>());
    v.push(row_entry::<(Option<i32>, Vec<String>, CqlValue)>());
    v.push(row_entry::<(String, i64, bool, f64)>());
    v.push(row_entry::<I16Tuple>());
    v.push(row_entry::<(i32, String, i64, Vec<u8>, bool)>());
    v.push(row_entry::<(i32, String, i64, Vec<u8>, bool, f64, uuid::Uuid, Option<i32>)>());
    v.push(row_entry::<(i32, i32, i32, i32, i32, i32, i32, i32, i32, i32, i32, i32)>());
    v
}
