//! C01: the typed Rust carriers.  Every carrier value is embedded into the dynamic value type
//! (`to_cell`); the case line carries the embedded value, the runner rebuilds the carrier from it
//! (`from_cell`), serialises it through ITS OWN SerializeValue impl and decodes the bytes through
//! ITS OWN DeserializeValue impl.  The driver compares both with the model of the dynamic path.
#![allow(dead_code)]
use crate::text::*;
use crate::{gen_native_value, gen_type, gen_value};
use scylla_cql_core::deserialize::value::DeserializeValue;
use scylla_cql_core::frame::response::result::{CollectionType, ColumnType, NativeType};
use scylla_cql_core::serialize::value::SerializeValue;
use scylla_cql_core::serialize::writers::{CellWriter, WrittenCellProof};
use scylla_cql_core::serialize::SerializationError;
use scylla_cql_core::value::verif_extern::{bigdecimal, chrono, num_bigint_03, num_bigint_04, secrecy_08, secrecy_10, time};
use scylla_cql_core::value::{
    Counter, CqlDate, CqlDecimal, CqlDecimalBorrowed, CqlDuration, CqlTime, CqlTimestamp, CqlTimeuuid, CqlValue,
    CqlVarint, CqlVarintBorrowed, Emptiable, MaybeEmpty, MaybeUnset,
};
use std::borrow::Cow;
use std::collections::{BTreeMap, BTreeSet, HashMap, HashSet};
use std::net::IpAddr;
use std::sync::Arc;
use vh::*;

pub trait Carrier: Sized {
    /// a column type this carrier can be bound to
    fn gen_type(r: &mut Rng) -> Ty;
    /// rebuild the carrier from the embedded value (None: not in the image of the embedding)
    fn from_cell(t: &Ty, c: &Cell) -> Option<Self>;
    /// the embedding
    fn to_cell(&self, t: &Ty) -> Cell;
    /// the carrier value in the text form of the case files, WITHOUT going through the dynamic value:
    /// a null inside a Vec / set / map (which CqlValue cannot hold) is printed as `null`
    fn show(&self, t: &Ty) -> String {
        s_cell(&self.to_cell(t))
    }
    /// can the carrier's own decoder be used against `t`? (typed tuples need the exact arity)
    fn deser_ok(_t: &Ty) -> bool {
        true
    }
}

fn val(c: &Cell) -> Option<&CqlValue> {
    match c {
        Cell::Val(v) => Some(v),
        _ => None,
    }
}

macro_rules! native_carrier {
    ($ty:ty, [$($nt:ident),+], |$v:ident| $from:expr, |$me:ident, $t:ident| $to:expr) => {
        impl Carrier for $ty {
            fn gen_type(r: &mut Rng) -> Ty {
                nat(r.pick(&[$(NativeType::$nt),+]).clone())
            }
            fn from_cell(_t: &Ty, c: &Cell) -> Option<Self> {
                let $v = val(c)?;
                $from
            }
            fn to_cell(&self, $t: &Ty) -> Cell {
                let $me = self;
                Cell::Val($to)
            }
        }
    };
}

fn is_ascii_t(t: &Ty) -> bool {
    matches!(t, ColumnType::Native(NativeType::Ascii))
}
fn text_val(t: &Ty, s: String) -> CqlValue {
    if is_ascii_t(t) { CqlValue::Ascii(s) } else { CqlValue::Text(s) }
}
fn as_string(v: &CqlValue) -> Option<String> {
    match v {
        CqlValue::Text(s) | CqlValue::Ascii(s) => Some(s.clone()),
        _ => None,
    }
}

native_carrier!(i8, [TinyInt], |v| if let CqlValue::TinyInt(x) = v { Some(*x) } else { None }, |me, _t| CqlValue::TinyInt(*me));
native_carrier!(i16, [SmallInt], |v| if let CqlValue::SmallInt(x) = v { Some(*x) } else { None }, |me, _t| CqlValue::SmallInt(*me));
native_carrier!(i32, [Int], |v| if let CqlValue::Int(x) = v { Some(*x) } else { None }, |me, _t| CqlValue::Int(*me));
native_carrier!(i64, [BigInt], |v| if let CqlValue::BigInt(x) = v { Some(*x) } else { None }, |me, _t| CqlValue::BigInt(*me));
native_carrier!(f32, [Float], |v| if let CqlValue::Float(x) = v { Some(*x) } else { None }, |me, _t| CqlValue::Float(*me));
native_carrier!(f64, [Double], |v| if let CqlValue::Double(x) = v { Some(*x) } else { None }, |me, _t| CqlValue::Double(*me));
native_carrier!(bool, [Boolean], |v| if let CqlValue::Boolean(x) = v { Some(*x) } else { None }, |me, _t| CqlValue::Boolean(*me));
native_carrier!(String, [Text, Ascii], |v| as_string(v), |me, t| text_val(t, me.clone()));
native_carrier!(Vec<u8>, [Blob], |v| if let CqlValue::Blob(x) = v { Some(x.clone()) } else { None }, |me, _t| CqlValue::Blob(me.clone()));
native_carrier!(bytes::Bytes, [Blob], |v| if let CqlValue::Blob(x) = v { Some(bytes::Bytes::from(x.clone())) } else { None }, |me, _t| CqlValue::Blob(me.to_vec()));
native_carrier!(IpAddr, [Inet], |v| if let CqlValue::Inet(x) = v { Some(*x) } else { None }, |me, _t| CqlValue::Inet(*me));
native_carrier!(uuid::Uuid, [Uuid], |v| if let CqlValue::Uuid(x) = v { Some(*x) } else { None }, |me, _t| CqlValue::Uuid(*me));
native_carrier!(CqlTimeuuid, [Timeuuid], |v| if let CqlValue::Timeuuid(x) = v { Some(*x) } else { None }, |me, _t| CqlValue::Timeuuid(*me));
native_carrier!(CqlDate, [Date], |v| if let CqlValue::Date(x) = v { Some(*x) } else { None }, |me, _t| CqlValue::Date(*me));
native_carrier!(CqlTime, [Time], |v| if let CqlValue::Time(x) = v { Some(*x) } else { None }, |me, _t| CqlValue::Time(*me));
native_carrier!(CqlTimestamp, [Timestamp], |v| if let CqlValue::Timestamp(x) = v { Some(*x) } else { None }, |me, _t| CqlValue::Timestamp(*me));
native_carrier!(CqlDuration, [Duration], |v| if let CqlValue::Duration(x) = v { Some(*x) } else { None }, |me, _t| CqlValue::Duration(*me));
native_carrier!(Counter, [Counter], |v| if let CqlValue::Counter(x) = v { Some(*x) } else { None }, |me, _t| CqlValue::Counter(*me));
native_carrier!(CqlVarint, [Varint], |v| if let CqlValue::Varint(x) = v { if x.as_signed_bytes_be_slice().is_empty() { None } else { Some(x.clone()) } } else { None }, |me, _t| CqlValue::Varint(me.clone()));
native_carrier!(CqlDecimal, [Decimal], |v| if let CqlValue::Decimal(x) = v { Some(x.clone()) } else { None }, |me, _t| CqlValue::Decimal(me.clone()));

// --- external crates (feature full-serialization)

fn varint_bytes(v: &CqlValue) -> Option<&[u8]> {
    if let CqlValue::Varint(x) = v { Some(x.as_signed_bytes_be_slice()) } else { None }
}
native_carrier!(num_bigint_03::BigInt, [Varint],
    |v| varint_bytes(v).filter(|b| !b.is_empty()).map(num_bigint_03::BigInt::from_signed_bytes_be),
    |me, _t| CqlValue::Varint(CqlVarint::from_signed_bytes_be(me.to_signed_bytes_be())));
native_carrier!(num_bigint_04::BigInt, [Varint],
    |v| varint_bytes(v).filter(|b| !b.is_empty()).map(num_bigint_04::BigInt::from_signed_bytes_be),
    |me, _t| CqlValue::Varint(CqlVarint::from_signed_bytes_be(me.to_signed_bytes_be())));
native_carrier!(bigdecimal::BigDecimal, [Decimal],
    |v| if let CqlValue::Decimal(d) = v {
        let (b, sc) = d.as_signed_be_bytes_slice_and_exponent();
        if b.is_empty() { None } else {
            Some(bigdecimal::BigDecimal::from((bigdecimal::num_bigint::BigInt::from_signed_bytes_be(b), sc as i64)))
        }
    } else { None },
    |me, _t| {
        let (i, sc) = me.as_bigint_and_exponent();
        CqlValue::Decimal(CqlDecimal::from_signed_be_bytes_and_exponent(i.to_signed_bytes_be(), sc as i32))
    });
native_carrier!(chrono::NaiveDate, [Date],
    |v| if let CqlValue::Date(d) = v { (*d).try_into().ok() } else { None },
    |me, _t| CqlValue::Date(CqlDate::from(*me)));
native_carrier!(chrono::NaiveTime, [Time],
    |v| if let CqlValue::Time(d) = v { (*d).try_into().ok() } else { None },
    |me, _t| CqlValue::Time(CqlTime::try_from(*me).unwrap()));
native_carrier!(chrono::DateTime<chrono::Utc>, [Timestamp],
    |v| if let CqlValue::Timestamp(d) = v { (*d).try_into().ok() } else { None },
    |me, _t| CqlValue::Timestamp(CqlTimestamp::from(*me)));
native_carrier!(time::Date, [Date],
    |v| if let CqlValue::Date(d) = v { (*d).try_into().ok() } else { None },
    |me, _t| CqlValue::Date(CqlDate::from(*me)));
native_carrier!(time::Time, [Time],
    |v| if let CqlValue::Time(d) = v { (*d).try_into().ok() } else { None },
    |me, _t| CqlValue::Time(CqlTime::from(*me)));
native_carrier!(time::OffsetDateTime, [Timestamp],
    |v| if let CqlValue::Timestamp(d) = v { (*d).try_into().ok() } else { None },
    |me, _t| CqlValue::Timestamp(CqlTimestamp::from(*me)));

// --- wrappers

impl<C: Carrier> Carrier for Option<C> {
    fn gen_type(r: &mut Rng) -> Ty {
        C::gen_type(r)
    }
    fn from_cell(t: &Ty, c: &Cell) -> Option<Self> {
        match c {
            Cell::Null => Some(None),
            Cell::Unset => None,
            c => C::from_cell(t, c).map(Some),
        }
    }
    fn to_cell(&self, t: &Ty) -> Cell {
        match self {
            None => Cell::Null,
            Some(x) => x.to_cell(t),
        }
    }
    fn show(&self, t: &Ty) -> String {
        match self {
            None => "null".into(),
            Some(x) => x.show(t),
        }
    }
    fn deser_ok(t: &Ty) -> bool {
        C::deser_ok(t)
    }
}
impl<C: Carrier + Emptiable> Carrier for MaybeEmpty<C> {
    fn gen_type(r: &mut Rng) -> Ty {
        C::gen_type(r)
    }
    fn from_cell(t: &Ty, c: &Cell) -> Option<Self> {
        match c {
            Cell::Val(CqlValue::Empty) => Some(MaybeEmpty::Empty),
            c => C::from_cell(t, c).map(MaybeEmpty::Value),
        }
    }
    fn to_cell(&self, t: &Ty) -> Cell {
        match self {
            MaybeEmpty::Empty => Cell::Val(CqlValue::Empty),
            MaybeEmpty::Value(x) => x.to_cell(t),
        }
    }
    fn show(&self, t: &Ty) -> String {
        match self {
            MaybeEmpty::Empty => "empty".into(),
            MaybeEmpty::Value(x) => x.show(t),
        }
    }
}
impl<C: Carrier> Carrier for MaybeUnset<C> {
    fn gen_type(r: &mut Rng) -> Ty {
        C::gen_type(r)
    }
    fn from_cell(t: &Ty, c: &Cell) -> Option<Self> {
        match c {
            Cell::Unset => Some(MaybeUnset::Unset),
            c => C::from_cell(t, c).map(MaybeUnset::Set),
        }
    }
    fn to_cell(&self, t: &Ty) -> Cell {
        match self {
            MaybeUnset::Unset => Cell::Unset,
            MaybeUnset::Set(x) => x.to_cell(t),
        }
    }
}
macro_rules! ptr_carrier {
    ($p:ident) => {
        impl<C: Carrier> Carrier for $p<C> {
            fn gen_type(r: &mut Rng) -> Ty {
                C::gen_type(r)
            }
            fn from_cell(t: &Ty, c: &Cell) -> Option<Self> {
                C::from_cell(t, c).map($p::new)
            }
            fn to_cell(&self, t: &Ty) -> Cell {
                (**self).to_cell(t)
            }
            fn show(&self, t: &Ty) -> String {
                (**self).show(t)
            }
            fn deser_ok(t: &Ty) -> bool {
                C::deser_ok(t)
            }
        }
    };
}
ptr_carrier!(Box);
ptr_carrier!(Arc);

impl Carrier for secrecy_08::Secret<String> {
    fn gen_type(r: &mut Rng) -> Ty {
        String::gen_type(r)
    }
    fn from_cell(t: &Ty, c: &Cell) -> Option<Self> {
        String::from_cell(t, c).map(secrecy_08::Secret::new)
    }
    fn to_cell(&self, t: &Ty) -> Cell {
        use secrecy_08::ExposeSecret;
        self.expose_secret().to_cell(t)
    }
}
impl Carrier for secrecy_10::SecretBox<i64> {
    fn gen_type(r: &mut Rng) -> Ty {
        i64::gen_type(r)
    }
    fn from_cell(t: &Ty, c: &Cell) -> Option<Self> {
        i64::from_cell(t, c).map(|x| secrecy_10::SecretBox::new(Box::new(x)))
    }
    fn to_cell(&self, t: &Ty) -> Cell {
        use secrecy_10::ExposeSecret;
        self.expose_secret().to_cell(t)
    }
}

impl Carrier for secrecy_10::SecretString {
    fn gen_type(r: &mut Rng) -> Ty {
        String::gen_type(r)
    }
    fn from_cell(t: &Ty, c: &Cell) -> Option<Self> {
        String::from_cell(t, c).map(secrecy_10::SecretString::from)
    }
    fn to_cell(&self, t: &Ty) -> Cell {
        use secrecy_10::ExposeSecret;
        self.expose_secret().to_string().to_cell(t)
    }
}
impl Carrier for secrecy_10::SecretSlice<i32> {
    fn gen_type(r: &mut Rng) -> Ty {
        Vec::<i32>::gen_type(r)
    }
    fn from_cell(t: &Ty, c: &Cell) -> Option<Self> {
        Vec::<i32>::from_cell(t, c).map(secrecy_10::SecretSlice::from)
    }
    fn to_cell(&self, t: &Ty) -> Cell {
        use secrecy_10::ExposeSecret;
        self.expose_secret().to_vec().to_cell(t)
    }
}

// --- borrowed / serialize-only carriers: newtypes that own the data and delegate to the real impl

macro_rules! delegating {
    ($w:ident($inner:ty), [$($nt:ident),+], |$me:ident| $borrow:expr, $target:ty, |$v:ident| $from:expr, |$s:ident, $t:ident| $to:expr) => {
        pub struct $w($inner);
        impl SerializeValue for $w {
            fn serialize<'b>(&self, typ: &ColumnType, writer: CellWriter<'b>) -> Result<WrittenCellProof<'b>, SerializationError> {
                let $me = self;
                <$target as SerializeValue>::serialize(&$borrow, typ, writer)
            }
        }
        impl Carrier for $w {
            fn gen_type(r: &mut Rng) -> Ty {
                nat(r.pick(&[$(NativeType::$nt),+]).clone())
            }
            fn from_cell(_t: &Ty, c: &Cell) -> Option<Self> {
                let $v = val(c)?;
                $from
            }
            fn to_cell(&self, $t: &Ty) -> Cell {
                let $s = self;
                Cell::Val($to)
            }
        }
    };
}
delegating!(RefStr(String), [Text, Ascii], |me| me.0.as_str(), &str, |v| as_string(v).map(RefStr), |s, t| text_val(t, s.0.clone()));
delegating!(CowStr(String), [Text, Ascii], |me| Cow::Borrowed(me.0.as_str()), Cow<'_, str>, |v| as_string(v).map(CowStr), |s, t| text_val(t, s.0.clone()));
delegating!(BoxStr(String), [Text, Ascii], |me| me.0.clone().into_boxed_str(), Box<str>, |v| as_string(v).map(BoxStr), |s, t| text_val(t, s.0.clone()));
delegating!(ArcStr(String), [Text, Ascii], |me| Arc::<str>::from(me.0.as_str()), Arc<str>, |v| as_string(v).map(ArcStr), |s, t| text_val(t, s.0.clone()));
delegating!(RefSlice(Vec<u8>), [Blob], |me| me.0.as_slice(), &[u8], |v| if let CqlValue::Blob(x) = v { Some(RefSlice(x.clone())) } else { None }, |s, _t| CqlValue::Blob(s.0.clone()));
delegating!(Arr4(Vec<u8>), [Blob], |me| <[u8; 4]>::try_from(me.0.as_slice()).unwrap(), [u8; 4],
    |v| if let CqlValue::Blob(x) = v { if x.len() == 4 { Some(Arr4(x.clone())) } else { None } } else { None }, |s, _t| CqlValue::Blob(s.0.clone()));
delegating!(VarintB(Vec<u8>), [Varint], |me| CqlVarintBorrowed::from_signed_bytes_be_slice(&me.0), CqlVarintBorrowed<'_>,
    |v| varint_bytes(v).filter(|b| !b.is_empty()).map(|b| VarintB(b.to_vec())), |s, _t| CqlValue::Varint(CqlVarint::from_signed_bytes_be(s.0.clone())));
delegating!(DecimalB((Vec<u8>, i32)), [Decimal], |me| CqlDecimalBorrowed::from_signed_be_bytes_slice_and_exponent(&me.0 .0, me.0 .1), CqlDecimalBorrowed<'_>,
    |v| if let CqlValue::Decimal(d) = v { let (b, sc) = d.as_signed_be_bytes_slice_and_exponent(); Some(DecimalB((b.to_vec(), sc))) } else { None },
    |s, _t| CqlValue::Decimal(CqlDecimal::from_signed_be_bytes_and_exponent(s.0 .0.clone(), s.0 .1)));

/// `&T` for an owned carrier T
pub struct RefOf<T>(T);
impl<T: SerializeValue> SerializeValue for RefOf<T> {
    fn serialize<'b>(&self, typ: &ColumnType, writer: CellWriter<'b>) -> Result<WrittenCellProof<'b>, SerializationError> {
        <&T as SerializeValue>::serialize(&&self.0, typ, writer)
    }
}
impl<C: Carrier> Carrier for RefOf<C> {
    fn gen_type(r: &mut Rng) -> Ty {
        C::gen_type(r)
    }
    fn from_cell(t: &Ty, c: &Cell) -> Option<Self> {
        C::from_cell(t, c).map(RefOf)
    }
    fn to_cell(&self, t: &Ty) -> Cell {
        self.0.to_cell(t)
    }
    fn show(&self, t: &Ty) -> String {
        self.0.show(t)
    }
}
/// `[T]` (the slice impl) for an owned Vec<T>
pub struct SliceOf<T>(Vec<T>);
impl<T: SerializeValue> SerializeValue for SliceOf<T> {
    fn serialize<'b>(&self, typ: &ColumnType, writer: CellWriter<'b>) -> Result<WrittenCellProof<'b>, SerializationError> {
        <[T] as SerializeValue>::serialize(self.0.as_slice(), typ, writer)
    }
}
impl<C: Carrier> Carrier for SliceOf<C> {
    fn gen_type(r: &mut Rng) -> Ty {
        Vec::<C>::gen_type(r)
    }
    fn from_cell(t: &Ty, c: &Cell) -> Option<Self> {
        Vec::<C>::from_cell(t, c).map(SliceOf)
    }
    fn to_cell(&self, t: &Ty) -> Cell {
        self.0.to_cell(t)
    }
    fn show(&self, t: &Ty) -> String {
        self.0.show(t)
    }
}

// --- collections

fn elem_type(t: &Ty) -> Option<&Ty> {
    match t {
        ColumnType::Collection { typ: CollectionType::List(e), .. } | ColumnType::Collection { typ: CollectionType::Set(e), .. } => Some(e),
        ColumnType::Vector { typ, .. } => Some(typ),
        _ => None,
    }
}
fn seq_items(v: &CqlValue) -> Option<&Vec<CqlValue>> {
    match v {
        CqlValue::List(l) | CqlValue::Set(l) | CqlValue::Vector(l) => Some(l),
        _ => None,
    }
}
fn seq_val(t: &Ty, l: Vec<CqlValue>) -> CqlValue {
    match t {
        ColumnType::Collection { typ: CollectionType::Set(_), .. } => CqlValue::Set(l),
        ColumnType::Vector { .. } => CqlValue::Vector(l),
        _ => CqlValue::List(l),
    }
}
fn seq_name(t: &Ty) -> &'static str {
    match t {
        ColumnType::Collection { typ: CollectionType::Set(_), .. } => "set",
        ColumnType::Vector { .. } => "vector",
        _ => "list",
    }
}
fn cell_val(c: Cell) -> CqlValue {
    match c {
        Cell::Val(v) => v,
        _ => CqlValue::Empty, // unreachable for element carriers without Option
    }
}

impl<C: Carrier> Carrier for Vec<C> {
    fn gen_type(r: &mut Rng) -> Ty {
        let e = C::gen_type(r);
        match r.below(4) {
            0 => set_t(e),
            1 => vec_t(e, r.range(1, 4) as u16),
            _ => list_t(e),
        }
    }
    fn from_cell(t: &Ty, c: &Cell) -> Option<Self> {
        let e = elem_type(t)?;
        seq_items(val(c)?)?.iter().map(|x| C::from_cell(e, &Cell::Val(x.clone()))).collect()
    }
    fn to_cell(&self, t: &Ty) -> Cell {
        let e = elem_type(t).unwrap();
        Cell::Val(seq_val(t, self.iter().map(|x| cell_val(x.to_cell(e))).collect()))
    }
    fn show(&self, t: &Ty) -> String {
        let e = elem_type(t).unwrap();
        format!("{}({})", seq_name(t), self.iter().map(|x| x.show(e)).collect::<Vec<_>>().join(";"))
    }
}
impl<C: Carrier + Ord> Carrier for BTreeSet<C> {
    fn gen_type(r: &mut Rng) -> Ty {
        set_t(C::gen_type(r))
    }
    fn from_cell(t: &Ty, c: &Cell) -> Option<Self> {
        let e = elem_type(t)?;
        seq_items(val(c)?)?.iter().map(|x| C::from_cell(e, &Cell::Val(x.clone()))).collect()
    }
    fn to_cell(&self, t: &Ty) -> Cell {
        let e = elem_type(t).unwrap();
        Cell::Val(seq_val(t, self.iter().map(|x| cell_val(x.to_cell(e))).collect()))
    }
    fn show(&self, t: &Ty) -> String {
        let e = elem_type(t).unwrap();
        format!("{}({})", seq_name(t), self.iter().map(|x| x.show(e)).collect::<Vec<_>>().join(";"))
    }
}
impl<C: Carrier + Eq + std::hash::Hash> Carrier for HashSet<C> {
    fn gen_type(r: &mut Rng) -> Ty {
        set_t(C::gen_type(r))
    }
    fn from_cell(t: &Ty, c: &Cell) -> Option<Self> {
        let e = elem_type(t)?;
        seq_items(val(c)?)?.iter().map(|x| C::from_cell(e, &Cell::Val(x.clone()))).collect()
    }
    fn to_cell(&self, t: &Ty) -> Cell {
        let e = elem_type(t).unwrap();
        Cell::Val(seq_val(t, self.iter().map(|x| cell_val(x.to_cell(e))).collect()))
    }
    fn show(&self, t: &Ty) -> String {
        let e = elem_type(t).unwrap();
        format!("{}({})", seq_name(t), self.iter().map(|x| x.show(e)).collect::<Vec<_>>().join(";"))
    }
}
fn map_types(t: &Ty) -> Option<(&Ty, &Ty)> {
    match t {
        ColumnType::Collection { typ: CollectionType::Map(k, v), .. } => Some((k, v)),
        _ => None,
    }
}
macro_rules! map_carrier {
    ($m:ident, $($bound:tt)+) => {
        impl<K: Carrier + $($bound)+, V: Carrier> Carrier for $m<K, V> {
            fn gen_type(r: &mut Rng) -> Ty {
                map_t(K::gen_type(r), V::gen_type(r))
            }
            fn from_cell(t: &Ty, c: &Cell) -> Option<Self> {
                let (kt, vt) = map_types(t)?;
                if let CqlValue::Map(m) = val(c)? {
                    m.iter()
                        .map(|(k, v)| Some((K::from_cell(kt, &Cell::Val(k.clone()))?, V::from_cell(vt, &Cell::Val(v.clone()))?)))
                        .collect()
                } else {
                    None
                }
            }
            fn to_cell(&self, t: &Ty) -> Cell {
                let (kt, vt) = map_types(t).unwrap();
                Cell::Val(CqlValue::Map(self.iter().map(|(k, v)| (cell_val(k.to_cell(kt)), cell_val(v.to_cell(vt)))).collect()))
            }
            fn show(&self, t: &Ty) -> String {
                let (kt, vt) = map_types(t).unwrap();
                format!("map({})", self.iter().map(|(k, v)| format!("{}={}", k.show(kt), v.show(vt))).collect::<Vec<_>>().join(";"))
            }
        }
    };
}
map_carrier!(BTreeMap, Ord);
map_carrier!(HashMap, Eq + std::hash::Hash);

// --- tuples

fn tuple_types(t: &Ty) -> Option<&Vec<Ty>> {
    match t {
        ColumnType::Tuple(ts) => Some(ts),
        _ => None,
    }
}
fn opt_cell(o: &Option<CqlValue>) -> Cell {
    match o {
        None => Cell::Null,
        Some(v) => Cell::Val(v.clone()),
    }
}
fn cell_opt(c: Cell) -> Option<CqlValue> {
    match c {
        Cell::Val(v) => Some(v),
        _ => None,
    }
}
macro_rules! tuple_carrier {
    ($n:expr; $($T:ident $i:tt),+) => {
        impl<$($T: Carrier),+> Carrier for ($($T,)+) {
            fn gen_type(r: &mut Rng) -> Ty {
                let mut ts = vec![$($T::gen_type(r)),+];
                // the typed serialiser accepts a CQL tuple with MORE components than the Rust tuple
                if r.chance(1, 5) {
                    ts.push(gen_type(r, 1));
                }
                ColumnType::Tuple(ts)
            }
            fn from_cell(t: &Ty, c: &Cell) -> Option<Self> {
                let ts = tuple_types(t)?;
                if ts.len() < $n {
                    return None;
                }
                if let CqlValue::Tuple(l) = val(c)? {
                    if l.len() != $n {
                        return None;
                    }
                    Some(($($T::from_cell(&ts[$i], &opt_cell(&l[$i]))?,)+))
                } else {
                    None
                }
            }
            fn to_cell(&self, t: &Ty) -> Cell {
                let ts = tuple_types(t).unwrap();
                let mut l = vec![$(cell_opt(self.$i.to_cell(&ts[$i]))),+];
                // the decoder of a tuple with the exact arity returns all components
                while l.len() < ts.len().min($n) {
                    l.push(None);
                }
                Cell::Val(CqlValue::Tuple(l))
            }
            fn show(&self, t: &Ty) -> String {
                let ts = tuple_types(t).unwrap();
                let mut l = vec![$(self.$i.show(&ts[$i])),+];
                while l.len() < ts.len().min($n) {
                    l.push("null".into());
                }
                format!("tuple({})", l.join(";"))
            }
            fn deser_ok(t: &Ty) -> bool {
                tuple_types(t).map(|ts| ts.len() == $n).unwrap_or(false)
            }
        }
    };
}
tuple_carrier!(1; A 0);
tuple_carrier!(2; A 0, B 1);
tuple_carrier!(3; A 0, B 1, C 2);
tuple_carrier!(4; A 0, B 1, C 2, D 3);
tuple_carrier!(5; A 0, B 1, C 2, D 3, E 4);
tuple_carrier!(6; A 0, B 1, C 2, D 3, E 4, F 5);
tuple_carrier!(7; A 0, B 1, C 2, D 3, E 4, F 5, G 6);
tuple_carrier!(8; A 0, B 1, C 2, D 3, E 4, F 5, G 6, H 7);
tuple_carrier!(9; A 0, B 1, C 2, D 3, E 4, F 5, G 6, H 7, I 8);
tuple_carrier!(10; A 0, B 1, C 2, D 3, E 4, F 5, G 6, H 7, I 8, J 9);
tuple_carrier!(11; A 0, B 1, C 2, D 3, E 4, F 5, G 6, H 7, I 8, J 9, K 10);
tuple_carrier!(12; A 0, B 1, C 2, D 3, E 4, F 5, G 6, H 7, I 8, J 9, K 10, L 11);
tuple_carrier!(13; A 0, B 1, C 2, D 3, E 4, F 5, G 6, H 7, I 8, J 9, K 10, L 11, M 12);
tuple_carrier!(14; A 0, B 1, C 2, D 3, E 4, F 5, G 6, H 7, I 8, J 9, K 10, L 11, M 12, N 13);
tuple_carrier!(15; A 0, B 1, C 2, D 3, E 4, F 5, G 6, H 7, I 8, J 9, K 10, L 11, M 12, N 13, O 14);
tuple_carrier!(16; A 0, B 1, C 2, D 3, E 4, F 5, G 6, H 7, I 8, J 9, K 10, L 11, M 12, N 13, O 14, P 15);

impl Carrier for CqlValue {
    fn gen_type(r: &mut Rng) -> Ty {
        gen_type(r, 2)
    }
    fn from_cell(_t: &Ty, c: &Cell) -> Option<Self> {
        val(c).cloned()
    }
    fn to_cell(&self, _t: &Ty) -> Cell {
        Cell::Val(self.clone())
    }
}

// ------------------------------------------------------------------ running

fn run_full<C>(t: &Ty, c: &Cell) -> Result<String, String>
where
    C: Carrier + SerializeValue + for<'f, 'm> DeserializeValue<'f, 'm>,
{
    let v = C::from_cell(t, c).ok_or("not-embeddable")?;
    let ser = catch(std::panic::AssertUnwindSafe(|| add_value_bytes(&v, t))).map_err(|_| "panic".to_string());
    let ser = match ser {
        Ok(r) => r,
        Err(_) => return Ok("panic -".into()),
    };
    let de = match &ser {
        Ok(b) => {
            // a carrier whose own type check refuses the column type (e.g. a Rust tuple shorter
            // than the CQL tuple) cannot decode; the bytes then go through the dynamic decoder
            if C::type_check(t).is_ok() {
                match catch(std::panic::AssertUnwindSafe(|| deser_with::<C>(t, b).map(|x| x.show(t)))) {
                    Ok(r) => fmt_shown(&r),
                    Err(_) => "panic".into(),
                }
            } else {
                fmt_deser(&deser_dynamic(t, b))
            }
        }
        Err(_) => "-".into(),
    };
    Ok(format!("{} {}", fmt_ser(&ser), de))
}

/// carriers without a decoder of their own: the bytes are decoded through the dynamic path
fn run_ser_only<C>(t: &Ty, c: &Cell) -> Result<String, String>
where
    C: Carrier + SerializeValue,
{
    let v = C::from_cell(t, c).ok_or("not-embeddable")?;
    let ser = match catch(std::panic::AssertUnwindSafe(|| add_value_bytes(&v, t))) {
        Ok(r) => r,
        Err(_) => return Ok("panic -".into()),
    };
    let de = match &ser {
        Ok(b) => fmt_deser(&deser_dynamic(t, b)),
        Err(_) => "-".into(),
    };
    Ok(format!("{} {}", fmt_ser(&ser), de))
}

/// the carrier's own (borrowing) decoder for the serialize-only wrappers: None = type check refused
type BorrowedDeser = fn(&Ty, &[u8]) -> Option<Result<Cell, String>>;

macro_rules! borrowed_deser {
    ($name:ident, $ty:ty, |$x:ident, $t:ident| $conv:expr) => {
        fn $name(t: &Ty, bytes: &[u8]) -> Option<Result<Cell, String>> {
            if <$ty as DeserializeValue>::type_check(t).is_err() {
                return None;
            }
            let b = bytes::Bytes::copy_from_slice(bytes);
            let mut fs = scylla_cql_core::deserialize::FrameSlice::new(&b);
            let raw = match fs.read_cql_bytes() {
                Ok(r) => r,
                Err(_) => return Some(Err("RawCqlBytesRead".into())),
            };
            Some(match <$ty as DeserializeValue>::deserialize(t, raw) {
                Ok($x) => {
                    let $t = t;
                    Ok(Cell::Val($conv))
                }
                Err(e) => Err(de_leaf(&e)),
            })
        }
    };
}
borrowed_deser!(de_ref_str, &str, |x, t| text_val(t, x.to_string()));
borrowed_deser!(de_cow_str, Cow<'_, str>, |x, t| text_val(t, x.to_string()));
borrowed_deser!(de_box_str, Box<str>, |x, t| text_val(t, x.to_string()));
borrowed_deser!(de_arc_str, Arc<str>, |x, t| text_val(t, x.to_string()));
borrowed_deser!(de_ref_slice, &[u8], |x, _t| CqlValue::Blob(x.to_vec()));
borrowed_deser!(de_varint_b, CqlVarintBorrowed<'_>, |x, _t| CqlValue::Varint(CqlVarint::from_signed_bytes_be_slice(x.as_signed_bytes_be_slice())));
borrowed_deser!(de_decimal_b, CqlDecimalBorrowed<'_>, |x, _t| {
    let (b, sc) = x.as_signed_be_bytes_slice_and_exponent();
    CqlValue::Decimal(CqlDecimal::from_signed_be_bytes_slice_and_exponent(b, sc))
});

fn decode_full<C>(t: &Ty, bytes: &[u8]) -> Result<String, String>
where
    C: Carrier + for<'f, 'm> DeserializeValue<'f, 'm>,
{
    deser_with::<C>(t, bytes).map(|x| x.show(t))
}
fn fmt_shown(r: &Result<String, String>) -> String {
    match r {
        Ok(s) => format!("ok:{}", s),
        Err(e) => format!("err:{}", e),
    }
}

pub struct Entry {
    pub name: String,
    pub deser: Option<BorrowedDeser>,
    /// the carrier's own decoder on arbitrary bytes (one [bytes] item), embedded back
    pub decode: Option<fn(&Ty, &[u8]) -> Result<String, String>>,
    pub run: fn(&Ty, &Cell) -> Result<String, String>,
    pub gen_type: fn(&mut Rng) -> Ty,
    pub embed: fn(&Ty, &Cell) -> Option<Cell>,
}
fn embed_of<C: Carrier>(t: &Ty, c: &Cell) -> Option<Cell> {
    C::from_cell(t, c).map(|v| v.to_cell(t))
}
macro_rules! full {
    ($($ty:ty),* $(,)?) => { vec![$(Entry {
        name: stringify!($ty).split_whitespace().collect::<String>(), deser: None, decode: Some(decode_full::<$ty>),
        run: run_full::<$ty>, gen_type: <$ty as Carrier>::gen_type, embed: embed_of::<$ty> }),*] };
}
macro_rules! ser_only {
    ($($ty:ty),* $(,)?) => { vec![$(Entry {
        name: stringify!($ty).split_whitespace().collect::<String>(), deser: None, decode: None,
        run: run_ser_only::<$ty>, gen_type: <$ty as Carrier>::gen_type, embed: embed_of::<$ty> }),*] };
}

pub fn registry() -> Vec<Entry> {
    let mut v = full![
        i8, i16, i32, i64, f32, f64, bool, String, Vec<u8>, bytes::Bytes, IpAddr, uuid::Uuid, CqlTimeuuid, CqlDate,
        CqlTime, CqlTimestamp, CqlDuration, Counter, CqlVarint, CqlDecimal,
        num_bigint_03::BigInt, num_bigint_04::BigInt, bigdecimal::BigDecimal,
        chrono::NaiveDate, chrono::NaiveTime, chrono::DateTime<chrono::Utc>,
        time::Date, time::Time, time::OffsetDateTime,
        secrecy_08::Secret<String>, secrecy_10::SecretBox<i64>,
        CqlValue, Option<IpAddr>, Option<i32>, Option<String>, Option<f64>,
        Vec<Option<i32>>, Vec<Option<String>>, BTreeSet<Option<i32>>, BTreeMap<i32, Option<String>>, Vec<(Option<i32>, Option<String>)>, Option<CqlVarint>, Option<Vec<i32>>, Option<CqlValue>,
        MaybeEmpty<i32>, MaybeEmpty<i64>, MaybeEmpty<f32>, MaybeEmpty<bool>, MaybeEmpty<uuid::Uuid>, MaybeEmpty<CqlVarint>,
        MaybeEmpty<CqlDecimal>, MaybeEmpty<IpAddr>, MaybeEmpty<CqlDate>, MaybeEmpty<CqlTimestamp>, Option<MaybeEmpty<i16>>,
        Box<i32>, Box<String>, Arc<i64>, Arc<Vec<String>>, Box<(i32, String)>,
        Vec<i32>, Vec<i64>, Vec<f32>, Vec<f64>, Vec<bool>, Vec<String>, Vec<Vec<u8>>, Vec<uuid::Uuid>, Vec<CqlTimeuuid>,
        Vec<CqlTimestamp>, Vec<CqlVarint>, Vec<i8>, Vec<i16>, Vec<IpAddr>, Vec<CqlDuration>, Vec<CqlDecimal>,
        Vec<MaybeEmpty<i32>>, Vec<MaybeEmpty<CqlVarint>>,
        Vec<Vec<i32>>, Vec<Vec<String>>, Vec<(i32, String)>, Vec<BTreeMap<i32, String>>, Vec<CqlValue>,
        BTreeSet<i32>, BTreeSet<String>, BTreeSet<Vec<u8>>, BTreeSet<(i32, i64)>, BTreeSet<uuid::Uuid>,
        HashSet<i32>, HashSet<String>, HashSet<i64>,
        BTreeMap<i32, String>, BTreeMap<String, Vec<i32>>, BTreeMap<String, Option<i32>>, BTreeMap<i64, (i32, Option<String>)>,
        BTreeMap<uuid::Uuid, BTreeSet<i32>>, BTreeMap<String, CqlValue>,
        HashMap<i32, String>, HashMap<String, f64>,
        (i32,), (Option<i32>,), (String, i64), (Option<String>, Option<i64>), (i32, Option<Vec<i32>>, String),
        (Option<i8>, Option<f32>, Option<(i32, String)>), (Vec<i32>, BTreeMap<i32, i32>), (i32, i32, i32, Option<String>),
        (CqlValue, Option<CqlValue>),
        (i32, Option<String>, i64, bool, Option<f64>),
        (Option<i32>, Option<i32>, Option<i32>, Option<i32>, Option<i32>, Option<String>),
        (Option<i32>, Option<i32>, Option<i32>, Option<i32>, Option<i32>, Option<i32>, Option<String>),
        (Option<i32>, Option<i32>, Option<i32>, Option<i32>, Option<i32>, Option<i32>, Option<i32>, Option<i32>, Option<String>),
        (Option<i32>, Option<i32>, Option<i32>, Option<i32>, Option<i32>, Option<i32>, Option<i32>, Option<i32>, Option<i32>, Option<String>),
        (Option<i32>, Option<i32>, Option<i32>, Option<i32>, Option<i32>, Option<i32>, Option<i32>, Option<i32>, Option<i32>, Option<i32>, Option<String>),
        (Option<i32>, Option<i32>, Option<i32>, Option<i32>, Option<i32>, Option<i32>, Option<i32>, Option<i32>, Option<i32>, Option<i32>, Option<i32>, Option<String>),
        (Option<i32>, Option<i32>, Option<i32>, Option<i32>, Option<i32>, Option<i32>, Option<i32>, Option<i32>, Option<i32>, Option<i32>, Option<i32>, Option<i32>, Option<String>),
        (Option<i32>, Option<i32>, Option<i32>, Option<i32>, Option<i32>, Option<i32>, Option<i32>, Option<i32>, Option<i32>, Option<i32>, Option<i32>, Option<i32>, Option<i32>, Option<String>),
        (Option<i32>, Option<i32>, Option<i32>, Option<i32>, Option<i32>, Option<i32>, Option<i32>, Option<i32>, Option<i32>, Option<i32>, Option<i32>, Option<i32>, Option<i32>, Option<i32>, Option<String>),
        secrecy_10::SecretString, secrecy_10::SecretSlice<i32>,
        (i8, i16, i32, i64, Option<String>, Option<bool>, Vec<i32>, Option<uuid::Uuid>),
        (Option<i32>, Option<i32>, Option<i32>, Option<i32>, Option<i32>, Option<i32>, Option<i32>, Option<i32>,
         Option<i64>, Option<i64>, Option<i64>, Option<i64>, Option<String>, Option<String>, Option<bool>, Option<f32>),
    ];
    v.extend(ser_only![
        RefStr, CowStr, BoxStr, ArcStr, RefSlice, Arr4, VarintB, DecimalB,
        RefOf<i32>, RefOf<String>, RefOf<Vec<i64>>, RefOf<Option<f64>>, SliceOf<i32>, SliceOf<String>, SliceOf<Vec<u8>>,
        MaybeUnset<i32>, MaybeUnset<String>, MaybeUnset<Option<i64>>, MaybeUnset<Vec<i32>>, MaybeUnset<CqlValue>,
        Option<MaybeUnset<i32>>,
    ]);
    for (n, d) in [("RefStr", de_ref_str as BorrowedDeser), ("CowStr", de_cow_str), ("BoxStr", de_box_str), ("ArcStr", de_arc_str),
                   ("RefSlice", de_ref_slice), ("VarintB", de_varint_b), ("DecimalB", de_decimal_b)] {
        v.iter_mut().find(|e| e.name == n).unwrap().deser = Some(d);
    }
    v
}

thread_local! {
    static REG: Vec<Entry> = registry();
}

pub fn run_typed(carrier: &str, t: &Ty, c: &Cell) -> Result<String, String> {
    REG.with(|reg| {
        let e = reg.iter().find(|e| e.name == carrier).ok_or(format!("unknown carrier {}", carrier))?;
        let out = (e.run)(t, c)?;
        // serialize-only wrappers of borrowing carriers: decode through the carrier's own decoder
        if let (Some(d), Some(hx)) = (e.deser, out.strip_prefix("ok:")) {
            let hx = hx.split(' ').next().unwrap();
            let bytes = unhex(hx)?;
            if let Some(r) = d(t, &bytes) {
                return Ok(format!("ok:{} {}", hx, fmt_deser(&r)));
            }
        }
        Ok(out)
    })
}

/// pick a carrier, a type it can be bound to, a value of that type that the carrier can hold
pub fn gen_typed_case(r: &mut Rng, _depth: u32) -> Option<String> {
    REG.with(|reg| {
        let e = &reg[r.below(reg.len() as u64) as usize];
        for _ in 0..8 {
            // type mismatches between carriers and column types belong to C17; zero-dimension
            // vectors are not CQL types and typed / dynamic decoders legitimately differ on them
            let t = (e.gen_type)(r);
            if s_type(&t).contains(";0)") {
                continue;
            }
            let c = match r.below(24) {
                0 => Cell::Null,
                1 => Cell::Unset,
                _ => Cell::Val(gen_value(r, &t, 0)),
            };
            if let Some(emb) = (e.embed)(&t, &c) {
                return Some(format!("T {} {} {}", e.name, s_type(&t), s_cell(&emb)));
            }
        }
        None
    })
}

// ------------------------------------------------------------------ vectors / lists of cells

type E3<C> = MaybeUnset<Option<MaybeEmpty<C>>>;
fn cells_full<C>(t: &Ty, e: &Ty, cells: &[Cell]) -> Result<String, String>
where
    C: Carrier + Emptiable + SerializeValue + for<'f, 'm> DeserializeValue<'f, 'm>,
{
    let v: Vec<E3<C>> = cells.iter().map(|c| E3::<C>::from_cell(e, c)).collect::<Option<_>>().ok_or("not-embeddable")?;
    let ser = match catch(std::panic::AssertUnwindSafe(|| add_value_bytes(&v, t))) {
        Ok(r) => r,
        Err(_) => return Ok("panic -".into()),
    };
    let de = match &ser {
        Ok(b) => match catch(std::panic::AssertUnwindSafe(|| deser_with::<Vec<Option<MaybeEmpty<C>>>>(t, b))) {
            Ok(Ok(l)) => format!("ok:{}", s_cells(&l.iter().map(|x| x.to_cell(e)).collect::<Vec<_>>())),
            Ok(Err(x)) => format!("err:{}", x),
            Err(_) => "panic".into(),
        },
        Err(_) => "-".into(),
    };
    Ok(format!("{} {}", fmt_ser(&ser), de))
}
/// element carriers that are not Emptiable (strings, blobs): MaybeUnset<Option<C>>
fn cells_plain<C>(t: &Ty, e: &Ty, cells: &[Cell]) -> Result<String, String>
where
    C: Carrier + SerializeValue + for<'f, 'm> DeserializeValue<'f, 'm>,
{
    let v: Vec<MaybeUnset<Option<C>>> =
        cells.iter().map(|c| MaybeUnset::<Option<C>>::from_cell(e, c)).collect::<Option<_>>().ok_or("not-embeddable")?;
    let ser = match catch(std::panic::AssertUnwindSafe(|| add_value_bytes(&v, t))) {
        Ok(r) => r,
        Err(_) => return Ok("panic -".into()),
    };
    let de = match &ser {
        Ok(b) => match catch(std::panic::AssertUnwindSafe(|| deser_with::<Vec<Option<C>>>(t, b))) {
            Ok(Ok(l)) => format!("ok:{}", s_cells(&l.iter().map(|x| x.to_cell(e)).collect::<Vec<_>>())),
            Ok(Err(x)) => format!("err:{}", x),
            Err(_) => "panic".into(),
        },
        Err(_) => "-".into(),
    };
    Ok(format!("{} {}", fmt_ser(&ser), de))
}

pub fn run_cells(carrier: &str, t: &Ty, e: &Ty, cells: &[Cell]) -> Result<String, String> {
    match carrier {
        "i32" => cells_full::<i32>(t, e, cells),
        "i64" => cells_full::<i64>(t, e, cells),
        "f64" => cells_full::<f64>(t, e, cells),
        "bool" => cells_full::<bool>(t, e, cells),
        "Uuid" => cells_full::<uuid::Uuid>(t, e, cells),
        "CqlVarint" => cells_full::<CqlVarint>(t, e, cells),
        "String" => cells_plain::<String>(t, e, cells),
        "Vec<u8>" => cells_plain::<Vec<u8>>(t, e, cells),
        "Vec<i32>" => cells_plain::<Vec<i32>>(t, e, cells),
        _ => Err(format!("unknown cells carrier {}", carrier)),
    }
}

pub fn gen_cells_case(r: &mut Rng) -> String {
    let (carrier, nt, emptiable) = *r.pick(&[
        ("i32", "int", true),
        ("i64", "bigint", true),
        ("f64", "double", true),
        ("bool", "boolean", true),
        ("Uuid", "uuid", true),
        ("CqlVarint", "varint", true),
        ("String", "text", false),
        ("Vec<u8>", "blob", false),
        ("Vec<i32>", "L(int)", false),
    ]);
    let e = type_of_str(nt).unwrap();
    let n = r.range(1, 4);
    // mostly without holes; nulls / unset / empty elements in about a third of the cases
    let holes = r.chance(1, 3);
    let cells: Vec<Cell> = (0..n)
        .map(|_| {
            if holes {
                match r.below(8) {
                    0 | 1 => return Cell::Null,
                    2 => return Cell::Unset,
                    3 if emptiable => return Cell::Val(CqlValue::Empty),
                    _ => {}
                }
            }
            let v = match &e {
                ColumnType::Native(nt) => loop {
                    let v = gen_native_value(r, nt);
                    // plain constructor of the type (no ascii-for-text swap, no zero-byte varint)
                    match (&v, nt) {
                        (CqlValue::Ascii(_), NativeType::Text) => continue,
                        (CqlValue::Varint(x), _) if x.as_signed_bytes_be_slice().is_empty() => continue,
                        _ => break v,
                    }
                },
                _ => CqlValue::List((0..r.below(3)).map(|_| CqlValue::Int(r.u64() as i32)).collect()),
            };
            Cell::Val(v)
        })
        .collect();
    if r.chance(1, 3) {
        format!("Q {} {} {} {}", carrier, s_type(&e), r.below(2), s_cells(&cells))
    } else {
        let dim = if r.chance(1, 20) { n + 1 } else { n };
        format!("V {} {} {:x} {}", carrier, s_type(&e), dim, s_cells(&cells))
    }
}

// ------------------------------------------------------------------ typed decoders on arbitrary bytes (kind E)

pub fn run_decode(carrier: &str, t: &Ty, bytes: &[u8]) -> Result<String, String> {
    REG.with(|reg| {
        let e = reg.iter().find(|e| e.name == carrier).ok_or(format!("unknown carrier {}", carrier))?;
        if let Some(d) = e.decode {
            let (t2, b2) = (t.clone(), bytes.to_vec());
            return Ok(match catch(std::panic::AssertUnwindSafe(move || d(&t2, &b2))) {
                Ok(r) => fmt_shown(&r),
                Err(_) => "panic".into(),
            });
        }
        if let Some(d) = e.deser {
            return Ok(match d(t, bytes) {
                Some(r) => fmt_deser(&r),
                None => "err:TypeCheck".into(),
            });
        }
        Err(format!("carrier {} has no decoder", carrier))
    })
}

/// a carrier with a decoder that the Coq model of the typed codec covers, a type it accepts, and the
/// encoding of a value of that type: intact, corrupted, or a null cell
pub fn gen_decode_case(r: &mut Rng, mutate: &dyn Fn(&mut Rng, &[u8]) -> Vec<u8>) -> Option<String> {
    REG.with(|reg| {
        for _ in 0..16 {
            let e = &reg[r.below(reg.len() as u64) as usize];
            if (e.decode.is_none() && e.deser.is_none())
                || ["chrono::", "time::", "bigdecimal::"].iter().any(|p| e.name.contains(p))
                || e.name.starts_with("Hash")
            {
                continue;
            }
            let t = (e.gen_type)(r);
            if s_type(&t).contains(";0)") {
                continue;
            }
            let bytes = match r.below(12) {
                0 => vec![0xff, 0xff, 0xff, 0xff],   // a null cell: Option -> None, Vec / map -> empty, others refuse
                1 => vec![0, 0, 0, 0],               // a zero-length cell
                _ => {
                    let c = Cell::Val(gen_value(r, &t, 0));
                    let b = ser_dynamic(&t, &c).unwrap_or_default();
                    if r.chance(1, 3) { b } else { mutate(r, &b) }
                }
            };
            return Some(format!("E {} {} {}", e.name, s_type(&t), hex_bytes(&bytes)));
        }
        None
    })
}

/// kind E, directed: collections whose ELEMENTS are null on the wire, decoded by carriers with an Option element
/// (the dynamic value type cannot hold such a value; the typed carrier and its model can)
pub fn gen_null_elem_case(r: &mut Rng) -> String {
    fn item(r: &mut Rng, text: bool, out: &mut Vec<u8>) {
        if r.chance(2, 5) {
            out.extend([0xff, 0xff, 0xff, 0xff]);
        } else if text {
            let s = ["", "a", "zz", "\u{e9}"][r.below(4) as usize].as_bytes().to_vec();
            out.extend((s.len() as i32).to_be_bytes());
            out.extend(s);
        } else {
            out.extend(4i32.to_be_bytes());
            out.extend((r.u64() as i32 % 5).to_be_bytes());
        }
    }
    let n = r.range(1, 4) as usize;
    let mut body: Vec<u8> = (n as i32).to_be_bytes().to_vec();
    let (carrier, ty) = match r.below(5) {
        0 => { for _ in 0..n { item(r, false, &mut body); } ("Vec<Option<i32>>", if r.bool() { "L(int)" } else { "S(int)" }) }
        1 => { for _ in 0..n { item(r, true, &mut body); } ("Vec<Option<String>>", "L(text)") }
        2 => { for _ in 0..n { item(r, false, &mut body); } ("BTreeSet<Option<i32>>", "S(int)") }
        3 => {
            for i in 0..n { body.extend(4i32.to_be_bytes()); body.extend((i as i32 - 1).to_be_bytes()); item(r, true, &mut body); }
            ("BTreeMap<i32,Option<String>>", "M(int;text)")
        }
        _ => {
            for _ in 0..n { body.extend(4i32.to_be_bytes()); body.extend((r.u64() as i32 % 3).to_be_bytes()); item(r, false, &mut body); }
            ("BTreeMap<String,Option<i32>>", "M(text;int)")
        }
    };
    // BTreeMap<String,..> keys must be text: rewrite the int keys of the last shape as 4 raw bytes (valid only if UTF-8; they are small ints)
    let mut cell = (body.len() as i32).to_be_bytes().to_vec();
    cell.extend(body);
    format!("E {} {} {}", carrier, ty, hex_bytes(&cell))
}
