//! C02 end-to-end half: ONE real pool connection of a real `Session` against `mocknode`, many
//! concurrent requests, adversarial answer orders, callers abandoned at the four points,
//! stream-id exhaustion, and oversized response frames.  Every request carries a unique marker in
//! its statement text; the mock echoes the marker in the single row of its answer.
//!
//! What is written for the extracted acceptor `c02_trace_ok` (ocaml/c02/driver) is ONE event list
//! (hex numbers), ordered by the common clock `MockCluster::now_ns`:
//!   s<m>            a caller is about to submit the request with marker m (stamped BEFORE the call)
//!   i<sid>.<m>      the mock received a request frame on stream <sid> carrying marker m
//!   o<sid>.<m>      the mock sends a response on stream <sid> whose row carries marker m
//!   d<m>.r<m'>      the caller of m completed with a row carrying marker m' (stamped AFTER)
//!   d<m>.a          ... failed with UnableToAllocStreamId
//!   d<m>.x<class>   ... failed otherwise
//!   c<m>            the caller of m was dropped (information only)
//! Frames without a marker (handshake, keepalive) get markers 0x40000000+k, their `s` events are
//! put at the start of the list.
use scylla::client::PoolSize;
use scylla::client::execution_profile::ExecutionProfile;
use scylla::client::session::Session;
use scylla::client::session_builder::SessionBuilder;
use scylla::errors::{ExecutionError, RequestAttemptError};
use scylla::policies::retry::FallthroughRetryPolicy;
use std::collections::{HashMap, HashSet};
use std::future::Future;
use std::pin::Pin;
use std::sync::atomic::{AtomicU64, AtomicUsize, Ordering};
use std::sync::{Arc, Mutex};
use std::time::{Duration, Instant};
use vh::mocknode::*;
use vh::*;

pub const SYNTH: u64 = 0x4000_0000;

fn text_for(m: u64) -> String {
    format!("SELECT m FROM ks.t WHERE k = {}", m)
}
fn marker_of_text(t: &str) -> Option<u64> {
    t.strip_prefix("SELECT m FROM ks.t WHERE k = ")?.trim().parse().ok()
}
fn rows_spec(m: u64) -> RowsSpec {
    RowsSpec::new(vec![ColSpec::new("ks", "t", "m", CqlType::BigInt)], vec![vec![cell::bigint(m as i64)]]).with_meta(MetaMode::Full)
}
fn rows_for(m: u64) -> Action {
    Action::Rows(rows_spec(m))
}
/// marker carried by a response body built by `rows_for` (the bigint cell is the last 8 bytes)
fn marker_of_body(body: &[u8]) -> Option<u64> {
    if body.len() < 12 || body[..4] != [0, 0, 0, 2] {
        return None;
    }
    let l = body.len();
    if body[l - 12..l - 8] != [0, 0, 0, 8] {
        return None;
    }
    Some(u64::from_be_bytes(body[l - 8..].try_into().unwrap()))
}

#[derive(Clone, Debug)]
pub enum Outcome {
    Rows(u64),
    ErrAlloc,
    Other(String),
}

fn classify(r: Result<scylla::response::query_result::QueryResult, ExecutionError>) -> Outcome {
    match r {
        Ok(q) => match q.into_rows_result() {
            Ok(rows) => match rows.single_row::<(i64,)>() {
                Ok((m,)) => Outcome::Rows(m as u64),
                Err(_) => Outcome::Other("rowshape".into()),
            },
            Err(_) => Outcome::Other("notrows".into()),
        },
        Err(ExecutionError::LastAttemptError(RequestAttemptError::UnableToAllocStreamId)) => Outcome::ErrAlloc,
        Err(e) => {
            let d = format!("{:?}", e);
            if d.contains("TooManyOrphanedStreamIds") {
                return Outcome::Other("TooManyOrphanedStreamIds".into());
            }
            let mut w: Vec<&str> = d.split(|c: char| !c.is_alphanumeric()).filter(|s| !s.is_empty()).take(3).collect();
            if w.is_empty() {
                w.push("err");
            }
            Outcome::Other(w.join("_"))
        }
    }
}

type AnswerPolicy = dyn Fn(u64, usize, u64) -> Vec<Action> + Send + Sync; // (marker, arrival index, now_ns) -> modifiers
type CtxPolicy = dyn Fn(&ReqCtx, u64, u64) -> Vec<Action> + Send + Sync; // (request, marker, now_ns) -> actions

pub struct Env {
    pub cluster: MockCluster,
    pub session: Arc<Session>,
    pub received: Arc<AtomicUsize>,
    policy: Arc<Mutex<Arc<AnswerPolicy>>>,
    ctx_policy: Arc<Mutex<Option<Arc<CtxPolicy>>>>,
    /// runner-side events: (t_ns, class 0 = before mock events / 2 = after, token)
    pub events: Arc<Mutex<Vec<(u64, u8, String)>>>,
}

impl Env {
    pub async fn start(write_coalescing: bool) -> Result<Env, String> {
        let table = TableDef::new("t", &[("k", CqlType::BigInt)], &[], &[("m", CqlType::BigInt)]);
        let mut spec = ClusterSpec::uniform("c02", &[("dc1", 1)], 1, 4, 0).with_keyspace(KeyspaceDef::simple("ks", 1).with_table(table));
        spec.options.tablets_ext = false;
        spec.options.shard_aware_port = None;
        let cluster = MockCluster::start(spec).await.map_err(|e| format!("start-cluster {}", e))?;
        let profile = ExecutionProfile::builder().request_timeout(None).retry_policy(Arc::new(FallthroughRetryPolicy)).speculative_execution_policy(None).build();
        let session = tokio::time::timeout(
            Duration::from_secs(30),
            SessionBuilder::new()
                .known_node_addr(cluster.contact_point(0))
                .local_ip_address(Some(cluster.client_ip()))
                .pool_size(PoolSize::PerHost(std::num::NonZeroUsize::new(1).unwrap()))
                .connection_timeout(Duration::from_secs(10))
                .keepalive_interval(Duration::from_secs(3600))
                .keepalive_timeout(Duration::from_secs(3600))
                .cluster_metadata_refresh_interval(Duration::from_secs(3600))
                .write_coalescing(write_coalescing)
                .default_execution_profile_handle(profile.into_handle())
                .build(),
        )
        .await
        .map_err(|_| "session-timeout".to_string())?
        .map_err(|e| format!("session {:?}", e))?;
        // pool connection + control connection
        let t = Instant::now();
        while cluster.connections(None).len() < 2 && t.elapsed() < Duration::from_secs(10) {
            tokio::time::sleep(Duration::from_millis(2)).await;
        }
        let received = Arc::new(AtomicUsize::new(0));
        let default_policy: Arc<AnswerPolicy> = Arc::new(|_, _, _| vec![]);
        let policy = Arc::new(Mutex::new(default_policy));
        let ctx_policy: Arc<Mutex<Option<Arc<CtxPolicy>>>> = Arc::new(Mutex::new(None));
        {
            let received = received.clone();
            let policy = policy.clone();
            let ctx_policy = ctx_policy.clone();
            let t0 = Instant::now();
            let base = cluster.now_ns();
            cluster.set_handler(Some(Arc::new(move |ctx: &ReqCtx| {
                if ctx.is_system || ctx.opcode != op::QUERY {
                    return None;
                }
                let m = marker_of_text(ctx.text.as_deref()?)?;
                let k = received.fetch_add(1, Ordering::SeqCst);
                let now = base + t0.elapsed().as_nanos() as u64;
                let cp = ctx_policy.lock().unwrap().clone();
                let mut a = match cp {
                    Some(cp) => cp(ctx, m, now),
                    None => {
                        let p = policy.lock().unwrap().clone();
                        p(m, k, now)
                    }
                };
                if !a.iter().any(|x| !x.is_modifier()) {
                    a.push(rows_for(m));
                }
                Some(a)
            })));
        }
        Ok(Env { cluster, session: Arc::new(session), received, policy, ctx_policy, events: Arc::new(Mutex::new(Vec::new())) })
    }
    pub fn set_ctx_policy(&self, p: Arc<CtxPolicy>) {
        *self.ctx_policy.lock().unwrap() = Some(p);
    }
    pub fn set_policy(&self, p: Arc<AnswerPolicy>) {
        *self.policy.lock().unwrap() = p;
    }
    pub fn now(&self) -> u64 {
        self.cluster.now_ns()
    }
    pub fn ev(&self, class: u8, tok: String) {
        let t = self.now();
        self.events.lock().unwrap().push((t, class, tok));
    }
    pub fn query(&self, m: u64) -> Pin<Box<dyn Future<Output = Outcome> + Send>> {
        let s = self.session.clone();
        Box::pin(async move { classify(s.query_unpaged(text_for(m), ()).await) })
    }
    pub fn done_token(m: u64, o: &Outcome) -> String {
        match o {
            Outcome::Rows(x) => format!("d{:x}.r{:x}", m, x),
            Outcome::ErrAlloc => format!("d{:x}.a", m),
            Outcome::Other(c) => format!("d{:x}.x{}", m, c),
        }
    }

    /// Wait until the mock received nothing new for `quiet` (all written frames arrived).
    pub async fn settle(&self, quiet: Duration, max: Duration) {
        let t = Instant::now();
        let mut last = self.received.load(Ordering::SeqCst);
        let mut since = Instant::now();
        while t.elapsed() < max {
            tokio::time::sleep(Duration::from_millis(5)).await;
            let now = self.received.load(Ordering::SeqCst);
            if now != last {
                last = now;
                since = Instant::now();
            } else if since.elapsed() >= quiet {
                break;
            }
        }
    }

    /// Ends the scenario: merges the runner's events with the mock's trace of the pool connection.
    /// `extra_out`: response frames the mock sent as raw bytes: (position marker in trace = index of
    /// the RawOut event among RawOut events, stream id, marker)
    pub fn finish(self, raw_out: &[(i16, u64)]) -> String {
        let trace = self.cluster.drain_trace();
        self.cluster.shutdown();
        let events = std::mem::take(&mut *self.events.lock().unwrap());
        drop(self.session);
        // the pool connection = the one that carried marker queries; fall back to non-control
        let control: HashSet<u64> = trace.iter().filter(|e| e.is_in(op::REGISTER)).map(|e| e.conn_id).collect();
        let mut mock: Vec<(u64, String)> = Vec::new();
        let mut synth = 0u64;
        let mut synth_subs: Vec<String> = Vec::new();
        let mut owed: HashMap<(u64, i16), u64> = HashMap::new();
        let mut raw_idx = 0usize;
        let mut conns_seen: HashSet<u64> = HashSet::new();
        // Only the FIRST connection that carried marker requests is judged; a second one exists only
        // after a break.  Connections without marker requests are strangers: sessions of scenarios that
        // ended (here or in another process) keep knocking at the address of their dead mock, which a
        // new cluster may have taken over.
        let carries_marker = |e: &TraceEvent| -> bool {
            match &e.ev {
                Ev::In { opcode, body, .. } if *opcode == op::QUERY => wire::decode_query(body).ok().and_then(|q| marker_of_text(&q.text)).is_some(),
                _ => false,
            }
        };
        for e in trace.iter().filter(|e| !control.contains(&e.conn_id) && carries_marker(e)) {
            conns_seen.insert(e.conn_id);
        }
        let first_conn = conns_seen.iter().copied().min();
        for e in &trace {
            if control.contains(&e.conn_id) {
                continue;
            }
            if Some(e.conn_id) != first_conn {
                continue;
            }
            match &e.ev {
                Ev::In { stream, opcode, body, .. } => {
                    conns_seen.insert(e.conn_id);
                    let m = if *opcode == op::QUERY { wire::decode_query(body).ok().and_then(|q| marker_of_text(&q.text)) } else { None };
                    let m = match m {
                        Some(m) => m,
                        None => {
                            synth += 1;
                            synth_subs.push(format!("s{:x}", SYNTH + synth));
                            SYNTH + synth
                        }
                    };
                    owed.insert((e.conn_id, *stream), m);
                    mock.push((e.t_ns, format!("i{:x}.{:x}", *stream as u16, m)));
                }
                Ev::Out { stream, opcode, body, written, .. } => {
                    // what the answer carries: the marker in its row, or (frames without rows) the
                    // marker of the request the mock answers on this stream
                    let m = match owed.get(&(e.conn_id, *stream)).copied() {
                        Some(x) if x >= SYNTH => x,
                        _ => (if *opcode == op::RESULT { marker_of_body(body) } else { None }).unwrap_or(0x7fff_ffff),
                    };
                    let cut = if *written < 9 + body.len() { "!cut" } else { "" };
                    mock.push((e.t_ns, format!("o{:x}.{:x}{}", *stream as u16, m, cut)));
                }
                Ev::RawOut { .. } | Ev::RawFillOut { .. } => {
                    if let Some((sid, m)) = raw_out.get(raw_idx) {
                        mock.push((e.t_ns, format!("o{:x}.{:x}", *sid as u16, m)));
                    } else {
                        mock.push((e.t_ns, "rawout".into()));
                    }
                    raw_idx += 1;
                }
                Ev::Stalled => mock.push((e.t_ns, "stalled".into())),
                Ev::Close { by } => {
                    if !matches!(by, CloseBy::Shutdown) {
                        mock.push((e.t_ns, format!("close{:?}", by)));
                    }
                }
                Ev::Open { .. } => {}
                #[allow(unreachable_patterns)]
                _ => {}
            }
        }
        // merge: runner events sorted by stamp (stable), class 0 before / class 2 after mock events
        let mut ev = events;
        ev.sort_by_key(|x| x.0);
        let mut out: Vec<String> = synth_subs;
        let (mut i, mut j) = (0usize, 0usize);
        while i < ev.len() || j < mock.len() {
            let take_runner = if i >= ev.len() {
                false
            } else if j >= mock.len() {
                true
            } else {
                let (t, c, _) = &ev[i];
                *t < mock[j].0 || (*t == mock[j].0 && *c == 0)
            };
            if take_runner {
                out.push(std::mem::take(&mut ev[i].2));
                i += 1;
            } else {
                out.push(std::mem::take(&mut mock[j].1));
                j += 1;
            }
        }
        format!("conns={} T={}", conns_seen.len(), if out.is_empty() { "-".into() } else { out.join(",") })
    }
}

fn rt(threads: usize) -> tokio::runtime::Runtime {
    if threads == 0 {
        tokio::runtime::Builder::new_current_thread().enable_all().build().unwrap()
    } else {
        tokio::runtime::Builder::new_multi_thread().worker_threads(threads).enable_all().build().unwrap()
    }
}

fn answer_mix(seed: u64, maxdelay: u64) -> Arc<AnswerPolicy> {
    Arc::new(move |m, k, _| {
        let mut r = Rng::new(seed ^ m.wrapping_mul(0x9E3779B97F4A7C15) ^ ((k as u64) << 32));
        match r.below(10) {
            0..=2 => vec![],
            3..=5 => vec![Action::Delay(r.range(1, maxdelay))],
            6..=7 => vec![Action::Reorder(r.range(1, 40) as usize)],
            8 => vec![Action::Delay(r.range(1, maxdelay / 2 + 1)), Action::Reorder(r.range(1, 8) as usize)],
            _ => vec![Action::Delay(maxdelay + r.range(0, maxdelay))],
        }
    })
}

// ------------------------------------------------------------------ P: phased, deterministic cancel points
/// Current-thread runtime: nothing but this task runs between two awaits, so after polling all n
/// request futures once the first 1024 sit in the submit channel (not yet written) and the rest wait
/// for channel capacity.  Dropping futures now = cancellation before write / before enqueue.
/// Later: dropping a still pending future after the mock received its frame = after write; a
/// "frozen" future (never polled again) dropped after the mock sent its answer = after response.
async fn scn_phased(seed: u64, n: usize) -> Result<String, String> {
    let mut r = Rng::new(seed);
    let env = Env::start(r.bool()).await?;
    env.set_policy(answer_mix(seed, 30));
    let mut futs: Vec<Option<Pin<Box<dyn Future<Output = Outcome> + Send>>>> = Vec::with_capacity(n);
    for i in 0..n {
        let m = (i + 1) as u64;
        env.ev(0, format!("s{:x}", m));
        let mut f = env.query(m);
        match futures::poll!(f.as_mut()) {
            std::task::Poll::Ready(o) => {
                env.ev(2, Env::done_token(m, &o));
                futs.push(None);
            }
            std::task::Poll::Pending => futs.push(Some(f)),
        }
    }
    // phase 1: drop before enqueue / before write (no await since the first poll)
    let mut frozen: Vec<usize> = Vec::new();
    for i in 0..n {
        if futs[i].is_none() {
            continue;
        }
        match r.below(10) {
            0 => {
                futs[i] = None;
                env.ev(2, format!("c{:x}", i + 1));
            }
            1 => frozen.push(i),
            _ => {}
        }
    }
    // phase 2: let the router run; poll in rounds; drop some while pending; frozen ones after their answer
    let t = Instant::now();
    let frozen_set: HashSet<usize> = frozen.iter().copied().collect();
    let mut late_drop: Vec<(usize, u64)> = Vec::new();
    for i in 0..n {
        if futs[i].is_some() && !frozen_set.contains(&i) && r.chance(1, 8) {
            late_drop.push((i, r.range(0, 25)));
        }
    }
    loop {
        tokio::time::sleep(Duration::from_millis(1)).await;
        let ms = t.elapsed().as_millis() as u64;
        late_drop.retain(|(i, at)| {
            if ms >= *at {
                if futs[*i].take().is_some() {
                    env.ev(2, format!("c{:x}", i + 1));
                }
                false
            } else {
                true
            }
        });
        let mut live = 0;
        for i in 0..n {
            if frozen_set.contains(&i) {
                continue;
            }
            if let Some(f) = futs[i].as_mut() {
                match futures::poll!(f.as_mut()) {
                    std::task::Poll::Ready(o) => {
                        env.ev(2, Env::done_token((i + 1) as u64, &o));
                        futs[i] = None;
                    }
                    std::task::Poll::Pending => live += 1,
                }
            }
        }
        if live == 0 || t.elapsed() > Duration::from_secs(60) {
            break;
        }
    }
    // frozen callers: wait until the mock has sent their answers (or never received them), then drop
    let t = Instant::now();
    loop {
        env.settle(Duration::from_millis(20), Duration::from_secs(5)).await;
        let tr = env.cluster.trace_snapshot();
        let mut inn: HashSet<u64> = HashSet::new();
        let mut out: HashSet<u64> = HashSet::new();
        for e in &tr {
            match &e.ev {
                Ev::In { opcode, body, .. } if *opcode == op::QUERY => {
                    if let Some(m) = wire::decode_query(body).ok().and_then(|q| marker_of_text(&q.text)) {
                        inn.insert(m);
                    }
                }
                Ev::Out { opcode, body, .. } if *opcode == op::RESULT => {
                    if let Some(m) = marker_of_body(body) {
                        out.insert(m);
                    }
                }
                _ => {}
            }
        }
        if frozen.iter().all(|i| !inn.contains(&((i + 1) as u64)) || out.contains(&((i + 1) as u64))) || t.elapsed() > Duration::from_secs(30) {
            break;
        }
    }
    tokio::time::sleep(Duration::from_millis(5)).await;
    for i in frozen {
        if futs[i].take().is_some() {
            env.ev(2, format!("c{:x}", i + 1));
        }
    }
    // orphan notices are processed; a last round of fresh requests reuses freed ids
    tokio::time::sleep(Duration::from_millis(5)).await;
    env.set_policy(Arc::new(|_, _, _| vec![]));
    for k in 0..20u64 {
        let m = n as u64 + 1 + k;
        env.ev(0, format!("s{:x}", m));
        match tokio::time::timeout(Duration::from_secs(20), env.query(m)).await {
            Ok(o) => env.ev(2, Env::done_token(m, &o)),
            Err(_) => env.ev(2, format!("c{:x}", m)),
        }
    }
    env.settle(Duration::from_millis(30), Duration::from_secs(5)).await;
    Ok(env.finish(&[]))
}

/// Waits for a caller task until `deadline` -- ONE budget shared by the whole batch of callers, not a
/// budget per task: a change of the driver that strands many requests (a frame never written, an
/// answer delivered elsewhere) must not multiply the wait by the number of stranded callers (a seeded
/// change of the fourth wave made the S scenario wait 60 s x ~900).  A task still pending at the
/// deadline is aborted AND awaited (it holds the `Env`), and counts as a caller that gave up.
/// Returns `true` when the task ended on its own.
async fn join_by(mut h: tokio::task::JoinHandle<()>, deadline: tokio::time::Instant) -> bool {
    match tokio::time::timeout_at(deadline, &mut h).await {
        Ok(Ok(())) => true,
        Ok(Err(_)) => false,
        Err(_) => {
            h.abort();
            let _ = h.await;
            false
        }
    }
}

// ------------------------------------------------------------------ R: random cancellation, multi-thread
/// `neg`: about one request in 12 is answered on a NEGATIVE stream id (-1 = event stream, or any other
/// negative id) instead of its own: the reader must drop such frames (never `lookup` them), the
/// request stays unanswered, its caller gives up after 300 ms.
fn neg_marker(seed: u64, m: u64) -> Option<i16> {
    let h = (m ^ seed).wrapping_mul(0x9E3779B97F4A7C15) >> 33;
    if h % 12 == 0 { Some([-1i16, -2, -100, -32768, -1, -32767][(h / 12 % 6) as usize]) } else { None }
}
async fn scn_random(seed: u64, n: usize, neg: bool, storm: bool) -> Result<String, String> {
    let mut r = Rng::new(seed);
    let env = Arc::new(Env::start(r.bool()).await?);
    if neg {
        let base = answer_mix(seed, r.range(2, 40));
        env.set_policy(Arc::new(move |m, k, now| {
            let mut a = base(m, k, now);
            if let (Some(s), true) = (neg_marker(seed, m), m <= n as u64) {
                a.push(Action::UnsolicitedStream(s));
            }
            a
        }));
    } else {
        env.set_policy(answer_mix(seed, r.range(2, 40)));
    }
    let mut handles = Vec::with_capacity(n);
    let burst = r.range(1, 400) as usize;
    let mut droppable = 0usize;
    for i in 0..n {
        let m = (i + 1) as u64;
        // at most 900 callers are dropped: the number of orphaned ids can then never exceed
        // OLD_ORPHAN_COUNT_THRESHOLD (1024), whatever stalls the machine adds
        let mut how = r.below(12);
        if how <= 6 {
            if droppable >= (if neg { 700 } else { 900 }) {
                how = 11;
            } else {
                droppable += 1;
            }
        }
        let mut d_us = match r.below(4) {
            0 => r.range(0, 50),
            1 => r.range(50, 800),
            2 => r.range(800, 6000),
            _ => r.range(6000, 60000),
        };
        if storm {
            // submit storm: up to 900 caller tasks are aborted from outside at a random instant within the
            // first 3 ms, while the other submissions are still racing for the 1024 channel slots
            // (allocate id -> wait for a slot -> push): the abort lands before, in or after the send
            how = if droppable <= 900 && how <= 6 { 5 } else { 11 };
            d_us = r.range(0, 3000);
        }
        if neg && neg_marker(seed, m).is_some() && m <= n as u64 {
            // never answered on its own stream id: give up after 300 ms
            how = 0;
            d_us = 300_000;
        }
        let e = env.clone();
        env.ev(0, format!("s{:x}", m));
        let h = tokio::spawn(async move {
            let f = e.query(m);
            match how {
                0..=2 => match tokio::time::timeout(Duration::from_micros(d_us), f).await {
                    Ok(o) => e.ev(2, Env::done_token(m, &o)),
                    Err(_) => e.ev(2, format!("c{:x}", m)),
                },
                3 => {
                    tokio::select! {
                        biased;
                        _ = tokio::time::sleep(Duration::from_micros(d_us)) => e.ev(2, format!("c{:x}", m)),
                        o = f => e.ev(2, Env::done_token(m, &o)),
                    }
                }
                4 => {
                    // dropped without ever being polled
                    drop(f);
                    e.ev(2, format!("c{:x}", m));
                }
                _ => {
                    let o = f.await;
                    e.ev(2, Env::done_token(m, &o));
                }
            }
        });
        handles.push((m, h, if how == 5 || how == 6 { Some(d_us) } else { None }));
        if !storm && i % burst == burst - 1 {
            tokio::task::yield_now().await;
        }
    }
    // abort()-style cancellation from outside
    let t = Instant::now();
    let mut aborts: Vec<(u64, u64, tokio::task::AbortHandle)> = handles.iter().filter_map(|(m, h, d)| d.map(|d| (*m, d, h.abort_handle()))).collect();
    aborts.sort_by_key(|x| x.1);
    for (_m, d, a) in aborts {
        let el = t.elapsed().as_micros() as u64;
        if d > el {
            tokio::time::sleep(Duration::from_micros(d - el)).await;
        }
        a.abort();
    }
    let deadline = tokio::time::Instant::now() + Duration::from_secs(60);
    for (m, h, _) in handles {
        if !join_by(h, deadline).await {
            env.ev(2, format!("c{:x}", m));
        }
    }
    // fresh requests after the storm
    env.settle(Duration::from_millis(30), Duration::from_secs(5)).await;
    env.set_policy(Arc::new(|_, _, _| vec![]));
    for k in 0..10u64 {
        let m = n as u64 + 1 + k;
        env.ev(0, format!("s{:x}", m));
        match tokio::time::timeout(Duration::from_secs(20), env.query(m)).await {
            Ok(o) => env.ev(2, Env::done_token(m, &o)),
            Err(_) => env.ev(2, format!("c{:x}", m)),
        }
    }
    env.settle(Duration::from_millis(30), Duration::from_secs(5)).await;
    let env = Arc::try_unwrap(env).map_err(|_| "env-still-shared".to_string())?;
    Ok(env.finish(&[]))
}

// ------------------------------------------------------------------ X: exhaustion and the aged-orphan shape
/// The mock holds every answer until `hold_ms` after the start.  Meanwhile: `fill` requests
/// (32768 = all ids), `extra` more (must fail locally), `old` callers abandoned, > 1 s later `young`
/// more abandoned, `extra` more requests (must fail: the ids of abandoned requests are still owed),
/// then the answers are released and a last batch is served normally.
async fn scn_exhaust(seed: u64, fill: usize, extra: usize, old: usize, young: usize, wait_ms: u64, hold_ms: u64) -> Result<String, String> {
    let mut r = Rng::new(seed);
    let env = Arc::new(Env::start(r.bool()).await?);
    let release_at = Arc::new(AtomicU64::new(env.now() + hold_ms * 1_000_000));
    // half of the runs release the held answers in six waves 70 ms apart, in an order unrelated to
    // the arrival order (the others: all at once, in arrival order)
    let stagger = r.bool();
    {
        let ra = release_at.clone();
        env.set_policy(Arc::new(move |m, _, now| {
            let at = ra.load(Ordering::SeqCst) + if stagger { ((m.wrapping_mul(2654435761) >> 7) % 6) * 70_000_000 } else { 0 };
            if at > now { vec![Action::Delay((at - now) / 1_000_000 + 1)] } else { vec![] }
        }));
    }
    let submit = |m: u64| {
        let e = env.clone();
        e.ev(0, format!("s{:x}", m));
        tokio::spawn(async move {
            let o = e.query(m).await;
            e.ev(2, Env::done_token(m, &o));
        })
    };
    let mut handles: Vec<Option<tokio::task::JoinHandle<()>>> = Vec::with_capacity(fill);
    for i in 0..fill {
        handles.push(Some(submit((i + 1) as u64)));
        if i % 512 == 511 {
            tokio::task::yield_now().await;
        }
    }
    // all frames at the mock?
    let t = Instant::now();
    while env.received.load(Ordering::SeqCst) < fill && t.elapsed() < Duration::from_millis(hold_ms) {
        tokio::time::sleep(Duration::from_millis(5)).await;
    }
    if env.received.load(Ordering::SeqCst) < fill {
        // the machine stalled: the held answers are about to be released before all requests are at the
        // mock -- this attempt cannot show exhaustion; the caller retries with a longer hold
        // (its history is kept and judged all the same: `late`)
        for (i, h) in handles.into_iter().enumerate() {
            if let Some(h) = h {
                h.abort();
                let _ = h.await;
                env.ev(2, format!("c{:x}", i + 1));
            }
        }
        env.settle(Duration::from_millis(30), Duration::from_secs(5)).await;
        let env = Arc::try_unwrap(env).map_err(|_| "env-still-shared".to_string())?;
        return Ok(format!("late {}", env.finish(&[])));
    }
    if std::env::var("C02_E2E_DEBUG").is_ok() {
        eprintln!("fill {} received {} after {} ms", fill, env.received.load(Ordering::SeqCst), t.elapsed().as_millis());
    }
    let mut next = fill as u64 + 1;
    let mut extras = Vec::new();
    let run_extras = |k: usize, next: &mut u64, extras: &mut Vec<(u64, tokio::task::JoinHandle<()>)>| {
        for _ in 0..k {
            extras.push((*next, submit(*next)));
            *next += 1;
        }
    };
    run_extras(extra, &mut next, &mut extras);
    // abandon `old` callers now, `young` callers after the wait
    let mut idx: Vec<usize> = (0..fill).collect();
    r.shuffle(&mut idx);
    for &i in idx.iter().take(old) {
        if let Some(h) = handles[i].take() {
            h.abort();
            let _ = h.await;
            env.ev(2, format!("c{:x}", i + 1));
        }
    }
    tokio::time::sleep(Duration::from_millis(wait_ms)).await;
    for &i in idx.iter().skip(old).take(young) {
        if let Some(h) = handles[i].take() {
            h.abort();
            let _ = h.await;
            env.ev(2, format!("c{:x}", i + 1));
        }
    }
    tokio::time::sleep(Duration::from_millis(30)).await;
    run_extras(extra, &mut next, &mut extras);
    // a stalled machine: the held answers are (about to be) released before the second batch of extras
    // could meet a full id space -- this attempt shows no refusal after the wait; it is still run to
    // its end and judged, and the caller runs another attempt with a longer hold
    let late = env.now() + 100_000_000 > release_at.load(Ordering::SeqCst);
    // the extras must come back on their own (error); a hang is ended after the release
    let left = (release_at.load(Ordering::SeqCst).saturating_sub(env.now())) / 1_000_000;
    tokio::time::sleep(Duration::from_millis(left + 50)).await;
    let deadline = tokio::time::Instant::now() + Duration::from_secs(30);
    for (m, h) in extras {
        let a = h.abort_handle();
        if tokio::time::timeout_at(deadline, h).await.is_err() {
            a.abort();
            env.ev(2, format!("c{:x}", m));
        }
    }
    let deadline = tokio::time::Instant::now() + Duration::from_secs(60);
    for (i, h) in handles.into_iter().enumerate() {
        if let Some(h) = h {
            let a = h.abort_handle();
            if tokio::time::timeout_at(deadline, h).await.is_err() {
                a.abort();
                env.ev(2, format!("c{:x}", i + 1));
            }
        }
    }
    // ids are free again
    env.settle(Duration::from_millis(30), Duration::from_secs(5)).await;
    env.set_policy(Arc::new(|_, _, _| vec![]));
    for _ in 0..10 {
        let m = next;
        next += 1;
        env.ev(0, format!("s{:x}", m));
        match tokio::time::timeout(Duration::from_secs(20), env.query(m)).await {
            Ok(o) => env.ev(2, Env::done_token(m, &o)),
            Err(_) => env.ev(2, format!("c{:x}", m)),
        }
    }
    env.settle(Duration::from_millis(30), Duration::from_secs(5)).await;
    let env = Arc::try_unwrap(env).map_err(|_| "env-still-shared".to_string())?;
    let h = env.finish(&[]);
    Ok(if late { format!("late {}", h) } else { h })
}

// ------------------------------------------------------------------ K: the orphaner's threshold
/// `abandon + live` requests held by the mock until `hold_ms`; the callers of the first `abandon`
/// are dropped as soon as all frames are at the mock.  The orphaner ticks every second: with more
/// than 1024 ids orphaned for longer than 1 s it ends the connection (TooManyOrphanedStreamIds) and
/// every live caller fails; with 1024 or fewer nothing happens and the live callers get their
/// answers at the release.
async fn scn_threshold(seed: u64, abandon: usize, live: usize, hold_ms: u64) -> Result<String, String> {
    let mut r = Rng::new(seed);
    let env = Arc::new(Env::start(r.bool()).await?);
    let release_at = env.now() + hold_ms * 1_000_000;
    env.set_policy(Arc::new(move |_, _, now| if release_at > now { vec![Action::Delay((release_at - now) / 1_000_000 + 1)] } else { vec![] }));
    let total = abandon + live;
    let mut handles = Vec::with_capacity(total);
    for i in 0..total {
        let m = (i + 1) as u64;
        let e = env.clone();
        e.ev(0, format!("s{:x}", m));
        handles.push(Some(tokio::spawn(async move {
            let o = e.query(m).await;
            e.ev(2, Env::done_token(m, &o));
        })));
        if i % 256 == 255 {
            tokio::task::yield_now().await;
        }
    }
    let t = Instant::now();
    while env.received.load(Ordering::SeqCst) < total && t.elapsed() < Duration::from_millis(hold_ms / 4) {
        tokio::time::sleep(Duration::from_millis(2)).await;
    }
    if env.received.load(Ordering::SeqCst) < total {
        // the machine stalled: not all frames are at the mock in time; the attempt is ended, its history is
        // kept and judged (`late`), the caller runs another attempt with a longer hold
        for (i, h) in handles.into_iter().enumerate() {
            if let Some(h) = h {
                h.abort();
                let _ = h.await;
                env.ev(2, format!("c{:x}", i + 1));
            }
        }
        env.settle(Duration::from_millis(30), Duration::from_secs(5)).await;
        let env = Arc::try_unwrap(env).map_err(|_| "env-still-shared".to_string())?;
        return Ok(format!("late {}", env.finish(&[])));
    }
    // which callers are abandoned: a random subset of size `abandon`
    let mut idx: Vec<usize> = (0..total).collect();
    r.shuffle(&mut idx);
    for &i in idx.iter().take(abandon) {
        if let Some(h) = handles[i].take() {
            h.abort();
            let _ = h.await;
            env.ev(2, format!("c{:x}", i + 1));
        }
    }
    for (i, h) in handles.into_iter().enumerate() {
        if let Some(h) = h {
            let a = h.abort_handle();
            if tokio::time::timeout(Duration::from_millis(hold_ms + 30_000), h).await.is_err() {
                a.abort();
                env.ev(2, format!("c{:x}", i + 1));
            }
        }
    }
    env.settle(Duration::from_millis(30), Duration::from_secs(3)).await;
    let env = Arc::try_unwrap(env).map_err(|_| "env-still-shared".to_string())?;
    Ok(env.finish(&[]))
}

// ------------------------------------------------------------------ O: the frame reader on a byte stream
/// `O <chunk> <frame>;<frame>;...` with frame = `<header hex>:<body bytes sent, hex>:<seed>:<ins>`,
/// ins = `-` or `<off>=<hex>+<off>=<hex>..`; body byte i = the insert covering i, else (i + seed) % 251.
/// The stream ends (EOF) after the last frame.  `read_response_frame` (scylla-cql, public) is called
/// until it fails; output: `f<stream>.<flags>.<opcode>.<len>.<digest>` per frame, then `e<error>`.
pub struct Seg {
    pub hdr: Vec<u8>,
    pub body_len: u64,
    pub seed: u64,
    pub ins: Vec<(u64, Vec<u8>)>,
}
impl Seg {
    pub fn text(&self) -> String {
        let ins = if self.ins.is_empty() { "-".to_string() } else { self.ins.iter().map(|(o, b)| format!("{:x}={}", o, hex_bytes(b))).collect::<Vec<_>>().join("+") };
        format!("{}:{:x}:{:x}:{}", hex_bytes(&self.hdr), self.body_len, self.seed, ins)
    }
    fn parse(t: &str) -> Option<Seg> {
        let p: Vec<&str> = t.split(':').collect();
        if p.len() != 4 {
            return None;
        }
        let unhex = |h: &str| -> Vec<u8> { if h == "-" { vec![] } else { (0..h.len() / 2).map(|i| u8::from_str_radix(&h[2 * i..2 * i + 2], 16).unwrap_or(0)).collect() } };
        let mut ins = Vec::new();
        if p[3] != "-" {
            for x in p[3].split('+') {
                let (o, b) = x.split_once('=')?;
                ins.push((u64::from_str_radix(o, 16).ok()?, unhex(b)));
            }
        }
        Some(Seg { hdr: unhex(p[0]), body_len: u64::from_str_radix(p[1], 16).ok()?, seed: u64::from_str_radix(p[2], 16).ok()?, ins })
    }
    /// `digest` of the whole body, computed from the description (sampled positions only)
    pub fn digest(&self) -> u64 {
        let len = self.body_len;
        let tail = len.saturating_sub(70000);
        let table: Vec<u8> = (0..251 * 2).map(|i| (i % 251) as u8).collect();
        let mut h: u64 = 0xcbf29ce484222325;
        let mut i = 0u64;
        let mut one = [0u8; 1];
        while i < len {
            if i < 4096 || i >= tail || i % 4099 == 0 {
                self.fill(i, &mut one, &table);
                h ^= one[0] as u64;
                h = h.wrapping_mul(0x100000001b3);
                i += 1;
            } else {
                let next_mult = (i / 4099 + 1) * 4099;
                i = next_mult.min(tail.max(i + 1));
            }
        }
        h
    }
    /// fills `out` with the body bytes [off, off + out.len())
    fn fill(&self, off: u64, out: &mut [u8], table: &[u8]) {
        let mut done = 0usize;
        while done < out.len() {
            let start = ((off + done as u64 + self.seed) % 251) as usize;
            let n = (out.len() - done).min(table.len() - start);
            out[done..done + n].copy_from_slice(&table[start..start + n]);
            done += n;
        }
        for (o, b) in &self.ins {
            let (a0, a1) = (*o, *o + b.len() as u64);
            let (b0, b1) = (off, off + out.len() as u64);
            let (lo, hi) = (a0.max(b0), a1.min(b1));
            if lo < hi {
                out[(lo - b0) as usize..(hi - b0) as usize].copy_from_slice(&b[(lo - a0) as usize..(hi - a0) as usize]);
            }
        }
    }
}

struct PatStream {
    segs: Vec<Seg>,
    seg: usize,
    off: u64,
    chunk: usize,
    table: Vec<u8>,
}
impl tokio::io::AsyncRead for PatStream {
    fn poll_read(mut self: Pin<&mut Self>, _cx: &mut std::task::Context<'_>, buf: &mut tokio::io::ReadBuf<'_>) -> std::task::Poll<std::io::Result<()>> {
        let me = &mut *self;
        loop {
            if me.seg >= me.segs.len() {
                return std::task::Poll::Ready(Ok(())); // EOF
            }
            let sg = &me.segs[me.seg];
            let total = sg.hdr.len() as u64 + sg.body_len;
            if me.off >= total {
                me.seg += 1;
                me.off = 0;
                continue;
            }
            let hl = sg.hdr.len() as u64;
            let want = me.chunk.min(buf.remaining());
            if want == 0 {
                return std::task::Poll::Ready(Ok(()));
            }
            if me.off < hl {
                let n = want.min((hl - me.off) as usize);
                buf.put_slice(&sg.hdr[me.off as usize..me.off as usize + n]);
                me.off += n as u64;
            } else {
                let n = (want as u64).min(total - me.off) as usize;
                let dst = buf.initialize_unfilled_to(n);
                sg.fill(me.off - hl, dst, &me.table);
                buf.advance(n);
                me.off += n as u64;
            }
            return std::task::Poll::Ready(Ok(()));
        }
    }
}

/// FNV-1a over the sampled positions of a body (all of it when it is shorter than ~74 kB)
pub fn digest(body: &[u8]) -> u64 {
    let len = body.len();
    let mut h: u64 = 0xcbf29ce484222325;
    let mut i = 0usize;
    while i < len {
        let take = i < 4096 || i + 70000 >= len || i % 4099 == 0;
        if take {
            h ^= body[i] as u64;
            h = h.wrapping_mul(0x100000001b3);
            i += 1;
        } else {
            // jump to the next sampled index
            let next_mult = (i / 4099 + 1) * 4099;
            let tail = len.saturating_sub(70000);
            i = next_mult.min(tail.max(i + 1));
        }
    }
    h
}

fn scn_reader(chunk: usize, segs: Vec<Seg>) -> String {
    use scylla_cql::frame::frame_errors::FrameHeaderParseError as E;
    let table: Vec<u8> = (0..251 * 64).map(|i| (i % 251) as u8).collect();
    let mut st = PatStream { segs, seg: 0, off: 0, chunk: chunk.max(1), table };
    let mut out = Vec::new();
    loop {
        match futures::executor::block_on(scylla_cql::frame::read_response_frame(&mut st)) {
            Ok((params, opcode, body)) => {
                out.push(format!("f{:x}.{:x}.{:x}.{:x}.{:x}", params.stream as u16, params.flags, opcode as u8, body.len(), digest(&body)));
                if out.len() > 64 {
                    out.push("etoomany".into());
                    break;
                }
            }
            Err(e) => {
                out.push(match e {
                    E::HeaderIoError(_) => "eHeaderIoError".to_string(),
                    E::FrameFromClient => "eFrameFromClient".to_string(),
                    E::FrameFromServer => "eFrameFromServer".to_string(),
                    E::VersionNotSupported(v) => format!("eVersionNotSupported.{:x}", v),
                    E::UnknownResponseOpcode(_) => "eUnknownResponseOpcode".to_string(),
                    E::BodyChunkIoError(..) => "eBodyChunkIoError".to_string(),
                    E::ConnectionClosed(missing, len) => format!("eConnectionClosed.{:x}.{:x}", missing, len),
                    _ => "eOther".to_string(),
                });
                break;
            }
        }
    }
    out.join(" ")
}

pub const BIG: u64 = (256 << 20) + (64 << 10);

pub fn frame_header(version: u8, flags: u8, stream: u16, opcode: u8, len: u32) -> Vec<u8> {
    let mut h = vec![version, flags, (stream >> 8) as u8, stream as u8, opcode];
    h.extend(len.to_be_bytes());
    h
}
/// a complete, valid RESULT/Rows frame for `stream` whose row carries `marker`
pub fn rows_frame(stream: u16, marker: u64) -> Vec<u8> {
    let body = types::body_result_rows(&rows_spec(marker), false);
    let mut f = frame_header(0x84, 0, stream, op::RESULT, body.len() as u32);
    f.extend(body);
    f
}
/// Bytes that tile [0, len) with frames that look like valid answers for `streams` (row markers
/// 0xBAD0000+i) and one last padding frame on `pad_stream` ending exactly at `len`.
pub fn fake_tail(streams: &[u16], pad_stream: u16, len: usize) -> Vec<u8> {
    let mut v = Vec::with_capacity(len);
    for (i, s) in streams.iter().enumerate() {
        let f = rows_frame(*s, 0xBAD0000 + i as u64);
        if v.len() + f.len() + 9 <= len {
            v.extend(f);
        }
    }
    if v.len() + 9 <= len {
        let rest = len - v.len() - 9;
        // an ERROR-free filler: a RESULT/Void-like frame with `rest` bytes of body
        v.extend(frame_header(0x84, 0, pad_stream, op::RESULT, rest as u32));
        v.extend((0..rest).map(|i| if i < 4 { [0u8, 0, 0, 1][i] } else { 0 }));
    }
    v.resize(len, 0);
    v
}

/// the reader cases of one run: (case line)
pub fn gen_reader_cases(r: &mut Rng, n: usize, big: &[u64]) -> Vec<String> {
    let ops = [0u8, 2, 3, 6, 8, 12, 14, 16];
    let mut v = Vec::new();
    let line = |chunk: usize, segs: &[Seg]| format!("O {:x} {}", chunk, segs.iter().map(|s| s.text()).collect::<Vec<_>>().join(";"));
    for _ in 0..n {
        let chunk = *r.pick(&[1usize, 2, 3, 7, 9, 10, 64, 4096, 65536]);
        let k = r.range(1, 4) as usize;
        let mut segs = Vec::new();
        for _ in 0..k {
            let len = match r.below(6) {
                0 => 0,
                1 => r.range(1, 8),
                2 => r.range(9, 40),
                _ => r.range(0, 300),
            };
            let stream = match r.below(5) {
                0 => 0xffff,
                1 => r.range(0x8000, 0xffff) as u16,
                _ => r.below(0x8000) as u16,
            };
            let hdr = frame_header(0x84, *r.pick(&[0u8, 0, 0, 2, 4, 8]), stream, *r.pick(&ops), len as u32);
            let mut ins = Vec::new();
            if len >= 9 && r.chance(1, 2) {
                // bytes that look like a response header (or a whole frame) inside the body
                let inner = (len - 9) as u32;
                let off = r.below(len - 8);
                let l2 = r.below(inner as u64 + 1) as u32;
                ins.push((off, frame_header(0x84, 0, r.below(0x8000) as u16, op::RESULT, l2)));
            }
            segs.push(Seg { hdr, body_len: len, seed: r.below(251), ins });
        }
        // the end of the stream
        match r.below(10) {
            0 => {
                // truncated header
                let h = frame_header(0x84, 0, r.below(0x8000) as u16, op::RESULT, r.range(0, 50) as u32);
                let cut = r.range(1, 8) as usize;
                segs.push(Seg { hdr: h[..cut].to_vec(), body_len: 0, seed: 0, ins: vec![] });
            }
            1 | 2 => {
                // truncated body
                let len = r.range(1, 200);
                let sent = r.below(len);
                segs.push(Seg { hdr: frame_header(0x84, 0, r.below(0x8000) as u16, op::RESULT, len as u32), body_len: sent, seed: r.below(251), ins: vec![] });
            }
            3 => {
                let ver = *r.pick(&[0x04u8, 0x03, 0x85, 0x83, 0x80, 0xff, 0x00, 0x44]);
                segs.push(Seg { hdr: frame_header(ver, 0, 1, op::RESULT, 4), body_len: 4, seed: 0, ins: vec![] });
            }
            4 => {
                let opc = *r.pick(&[0x01u8, 0x04, 0x05, 0x07, 0x09, 0x0f, 0x11, 0xff]);
                segs.push(Seg { hdr: frame_header(0x84, 0, 1, opc, 4), body_len: 4, seed: 0, ins: vec![] });
            }
            5 => {
                // declared length far beyond what is sent (incl. > 256 MiB and 2^32-1)
                let decl = *r.pick(&[0xffff_ffffu32, 0x1000_0001, 0x1000_0000, 0x7fff_ffff, 0x10_0001]);
                segs.push(Seg { hdr: frame_header(0x84, 0, 2, op::RESULT, decl), body_len: r.range(0, 100), seed: 1, ins: vec![] });
            }
            _ => {}
        }
        v.push(line(chunk, &segs));
    }
    // boundaries of the preallocation limit (1 MiB)
    for len in [(1u64 << 20) - 1, 1 << 20, (1 << 20) + 1] {
        let segs = vec![
            Seg { hdr: frame_header(0x84, 0, 5, op::RESULT, len as u32), body_len: len, seed: 3, ins: vec![((1 << 20) - 9, rows_frame(6, 0xBAD0000))] },
            Seg { hdr: frame_header(0x84, 0, 6, op::RESULT, 3), body_len: 3, seed: 9, ins: vec![] },
        ];
        v.push(line(65536, &segs));
    }
    // oversized bodies: the tail beyond 256 MiB is made of well-formed frames for other streams
    for &len in big {
        let cut = 256u64 << 20;
        let tail = if len > cut { fake_tail(&[7, 8, 9], 7, (len - cut) as usize) } else { vec![] };
        let mut ins = vec![];
        if !tail.is_empty() {
            ins.push((cut, tail));
        }
        let segs = vec![
            Seg { hdr: frame_header(0x84, 0, 3, op::RESULT, len as u32), body_len: len, seed: r.below(251), ins },
            Seg { hdr: frame_header(0x84, 0, 7, op::RESULT, 12), body_len: 12, seed: 5, ins: vec![] },
            Seg { hdr: frame_header(0x84, 0, 8, op::RESULT, 0), body_len: 0, seed: 0, ins: vec![] },
        ];
        v.push(line(65536, &segs));
    }
    v
}

// ------------------------------------------------------------------ G: an oversized response on the wire
/// `victims` requests are held by the mock; then request B is answered with ONE response frame
/// whose body has `len` bytes (> 256 MiB): a RESULT/Rows with columns (m bigint, pad blob).  From body
/// offset 256 MiB on, the blob consists of well-formed response frames for the victims' stream ids
/// (rows carrying markers nobody asked for).  Then the victims are answered normally.
async fn scn_oversize(seed: u64, victims: usize, len: u64) -> Result<String, String> {
    let mut r = Rng::new(seed);
    let env = Arc::new(Env::start(r.bool()).await?);
    let big_marker = 1_000_000u64;
    let streams: Arc<Mutex<Vec<u16>>> = Arc::new(Mutex::new(Vec::new()));
    let big_stream: Arc<Mutex<Option<i16>>> = Arc::new(Mutex::new(None));
    // prefix of the big body: Rows metadata, row count, the marker cell, the length of the blob
    let spec = RowsSpec::new(vec![ColSpec::new("ks", "t", "m", CqlType::BigInt), ColSpec::new("ks", "t", "pad", CqlType::Blob)], vec![vec![cell::bigint(big_marker as i64), cell::blob(&[])]]).with_meta(MetaMode::Full);
    let mut prefix = types::body_result_rows(&spec, false);
    let pl = prefix.len();
    let blob_len = len - pl as u64;
    prefix[pl - 4..].copy_from_slice(&(blob_len as u32).to_be_bytes());
    let cut = 256u64 << 20;
    let blob_seed = r.below(251);
    let expected_digest: Arc<Mutex<Option<(u64, u64)>>> = Arc::new(Mutex::new(None));
    {
        let streams = streams.clone();
        let big_stream = big_stream.clone();
        let prefix = prefix.clone();
        let expected_digest = expected_digest.clone();
        let hold = Arc::new(AtomicU64::new(env.now() + 1_500_000_000));
        env.set_ctx_policy(Arc::new(move |ctx: &ReqCtx, m: u64, now: u64| {
            if m == big_marker {
                *big_stream.lock().unwrap() = Some(ctx.stream);
                let vs = streams.lock().unwrap().clone();
                let mut head = frame_header(0x84, 0, ctx.stream as u16, op::RESULT, len as u32);
                head.extend(&prefix);
                let pad = vs.last().copied().unwrap_or(ctx.stream as u16);
                let fakes = &vs[..vs.len().saturating_sub(1)];
                let seg = Seg { hdr: vec![], body_len: blob_len, seed: blob_seed, ins: vec![(cut - prefix.len() as u64, fake_tail(fakes, pad, (len - cut) as usize))] };
                *expected_digest.lock().unwrap() = Some((blob_len, seg.digest()));
                // after this frame the held answers may go
                hold.store(now + 300_000_000, Ordering::SeqCst);
                return vec![Action::RawFill { head, fill_len: blob_len, seed: blob_seed as u8, inserts: seg.ins, tail: vec![] }];
            }
            if m < 1000 {
                streams.lock().unwrap().push(ctx.stream as u16);
                let at = hold.load(Ordering::SeqCst);
                return vec![Action::Delay(at.saturating_sub(now) / 1_000_000 + 1)];
            }
            vec![]
        }));
    }
    let mut handles = Vec::new();
    for i in 0..victims {
        let m = (i + 1) as u64;
        let e = env.clone();
        e.ev(0, format!("s{:x}", m));
        handles.push(tokio::spawn(async move {
            let o = e.query(m).await;
            e.ev(2, Env::done_token(m, &o));
        }));
    }
    let t = Instant::now();
    while env.received.load(Ordering::SeqCst) < victims && t.elapsed() < Duration::from_secs(3) {
        tokio::time::sleep(Duration::from_millis(2)).await;
    }
    // the big one
    env.ev(0, format!("s{:x}", big_marker));
    let res = tokio::time::timeout(Duration::from_secs(120), env.session.query_unpaged(text_for(big_marker), ())).await;
    let o = match res {
        Err(_) => None,
        Ok(Err(e)) => Some(classify(Err(e))),
        Ok(Ok(q)) => Some(match q.into_rows_result() {
            Ok(rows) => match rows.single_row::<(i64, &[u8])>() {
                Ok((m, pad)) => {
                    let want = *expected_digest.lock().unwrap();
                    if Some((pad.len() as u64, digest(pad))) == want { Outcome::Rows(m as u64) } else { Outcome::Other("bigbody_differs".into()) }
                }
                Err(_) => Outcome::Other("bigrowshape".into()),
            },
            Err(_) => Outcome::Other("bignotrows".into()),
        }),
    };
    match o {
        Some(o) => env.ev(2, Env::done_token(big_marker, &o)),
        None => env.ev(2, format!("c{:x}", big_marker)),
    }
    let deadline = tokio::time::Instant::now() + Duration::from_secs(30);
    for (i, h) in handles.into_iter().enumerate() {
        let a = h.abort_handle();
        if tokio::time::timeout_at(deadline, h).await.is_err() {
            a.abort();
            env.ev(2, format!("c{:x}", i + 1));
        }
    }
    for k in 0..5u64 {
        let m = 2000 + k;
        env.ev(0, format!("s{:x}", m));
        match tokio::time::timeout(Duration::from_secs(20), env.query(m)).await {
            Ok(o) => env.ev(2, Env::done_token(m, &o)),
            Err(_) => env.ev(2, format!("c{:x}", m)),
        }
    }
    env.settle(Duration::from_millis(30), Duration::from_secs(5)).await;
    let bs = big_stream.lock().unwrap().unwrap_or(0);
    let env = Arc::try_unwrap(env).map_err(|_| "env-still-shared".to_string())?;
    Ok(env.finish(&[(bs, big_marker)]))
}

/// One e2e case line -> observation.  Kinds: P <seed> <n> | R/N <seed> <n> <threads> | S <seed> <n> |
/// X <seed> <fill> <extra> <old> <young> <wait_ms> <hold_ms> | K <seed> <abandon> <live> <hold_ms> |
/// G <seed> <victims> <len> | O <chunk> <frames>
pub fn run_case(case: &str) -> Option<String> {
    let f: Vec<&str> = case.split_whitespace().collect();
    let num = |i: usize| -> u64 { f.get(i).and_then(|s| s.parse().ok()).unwrap_or(0) };
    let res = match f.first().copied() {
        Some("P") => rt(0).block_on(scn_phased(num(1), num(2) as usize)),
        Some("R") => rt(num(3).max(1) as usize).block_on(scn_random(num(1), num(2) as usize, false, false)),
        Some("S") => rt(3).block_on(scn_random(num(1), num(2) as usize, false, true)),
        Some("N") => rt(num(3).max(1) as usize).block_on(scn_random(num(1), num(2) as usize, true, false)),
        Some("K") | Some("X") => {
            // Up to three attempts (hold x1, x2, x4).  An attempt that missed its window (`late`: frames not
            // at the mock in time / release before the second batch of extras; K: the connection had to end
            // and did not, or ended while released answers were being read) is kept and judged, and another
            // attempt follows: `<history> NEXT <history>`.  If no attempt met its window the case ends with
            // `NEXT setup-error …`: the kept histories are judged, the scenario counts as not run.
            let is_k = f[0] == "K";
            let mut parts: Vec<String> = Vec::new();
            let mut met = false;
            // did the LAST attempt miss its window for a reason of the environment (frames late, release
            // too early, scenario could not start)?  Only then the scenario is "not run"; a K attempt whose
            // frames were all in time and whose connection did not end (or ended during the release) after
            // the longest hold is the scenario's last word and is judged as such.
            let mut last_late = true;
            let mut last_err = "window-missed".to_string();
            for attempt in 0..3u64 {
                let r = if is_k {
                    rt(2).block_on(scn_threshold(num(1), num(2) as usize, num(3) as usize, num(4) << attempt))
                } else {
                    rt(2).block_on(scn_exhaust(num(1), num(2) as usize, num(3) as usize, num(4) as usize, num(5) as usize, num(6), num(7) << attempt))
                };
                match r {
                    Ok(h) => {
                        let late = h.starts_with("late ");
                        let h = h.strip_prefix("late ").unwrap_or(&h).to_string();
                        let closed = h.contains(",close");
                        let rows = h.split(',').any(|t| t.starts_with('d') && t.contains(".r"));
                        let again = late || (is_k && num(2) > 1024 && (!closed || rows));
                        parts.push(h);
                        last_late = late;
                        if !again {
                            met = true;
                            break;
                        }
                    }
                    Err(e) => {
                        last_err = e;
                        last_late = true;
                    }
                }
            }
            if parts.is_empty() {
                Err(last_err)
            } else if met || !last_late {
                Ok(parts.join(" NEXT "))
            } else {
                Ok(format!("{} NEXT setup-error {}", parts.join(" NEXT "), last_err.replace(' ', "_")))
            }
        }
        Some("G") => {
            // one more attempt when the scenario could not start (session setup on a stalled machine)
            let mut res = rt(2).block_on(scn_oversize(num(1), num(2).max(1) as usize, num(3)));
            if res.is_err() {
                res = rt(2).block_on(scn_oversize(num(1), num(2).max(1) as usize, num(3)));
            }
            res
        }
        Some("O") => {
            let chunk = usize::from_str_radix(f.get(1).copied().unwrap_or("1"), 16).unwrap_or(1);
            let segs: Option<Vec<Seg>> = f.get(2).copied().unwrap_or("").split(';').filter(|x| !x.is_empty()).map(Seg::parse).collect();
            match segs {
                Some(s) => Ok(scn_reader(chunk, s)),
                None => Err("bad-reader-case".into()),
            }
        }
        _ => return None,
    };
    Some(match res {
        Ok(s) => s,
        Err(e) => format!("setup-error {}", e.replace(' ', "_")),
    })
}
