//! End-to-end half of C06 and C13: a real `Session` against `vh::mocknode`, every session API that
//! sends a statement (query_unpaged, execute_unpaged, batch, query_single_page, execute_single_page,
//! query_iter, execute_iter), with the statement's idempotence flag, the retry policy, the
//! speculative-execution policy and the consistency coming from the statement or from an execution
//! profile, and a scripted outcome for every request frame the mock receives.
//!
//! Included by `bin/c06.rs` and `bin/c13.rs` through `#[path]`; the two checks use different scenario
//! mixes (`Mix::C06`: retry-heavy outcome streams incl. connection drops; `Mix::C13`: speculative
//! policies, slow nodes, no drops) and judge the same observation with their own acceptors.
//!
//! One case = one scenario = one mock cluster + one Session + several logical requests executed one
//! after the other:   `E6 <scenario seed> <q|t>`  /  `E13 <scenario seed> <q|t>`.
//! Scenario seeds below `SHAPES` are fixed shapes (non-idempotent statement + speculative policy + a
//! slow first answer through every API); the others are generated from the seed.
//!
//! Every logical request carries a unique marker (in the statement text, or in the first bound value
//! of a prepared statement); every page of a paged request is its own logical request (the driver runs
//! the whole execution machinery once per page).  The mock answers the k-th frame it receives for a
//! (marker, page) with the k-th scripted outcome of that page (success when the script is used up).
//!
//! observation (after '|'):   `env:<n>:rp<in-attempt re-prepares merged>:sh<shards per node>` followed by one record per (logical request, page), or
//! `skip-env <reason>` when the session could not be built for lack of loopback ports.
//!   record  R;api=<a>;idem=<0|1>;pol=<policy>;spec=<-|max:interval ms>;cl=<consistency>;n=<nodes>;
//!           down=<nodes whose connection the mock has cut so far>;pg=<page>;t0=<us>;tr=<us>;mg=<us>;sm=<us>;
//!           to=<client-side request timeout of the statement in ms | ->;
//!           res=<result>;co=<coordinator node named by the result | ->;fr=<frame>,<frame>...
//!   frame   <node>/<consistency>/<arrival us>/<answer us | ->/<ok | drop | X<error token> | ->/<shard>
//!   result  rows | void | end | X<error token> | pool | emptyplan | timeout | hang | other:<text>
//!   t0 = lower bound of the instant the driver started executing this page, tr = upper bound of the
//!   instant it returned, mg = margin below which two answer times are treated as simultaneous
//!   (150 ms + 3 x the largest scheduling stall measured while the request ran), sm = the same with 20 ms
//!   (within it a logged answer is taken to have been processed by the driver).  All times are in
//!   microseconds of the mock's clock (hex), frames in arrival order.
#![allow(dead_code)]
use futures::StreamExt;
use scylla::client::PoolSize;
use scylla::client::execution_profile::{ExecutionProfile, ExecutionProfileHandle};
use scylla::client::session::Session;
use scylla::client::session_builder::SessionBuilder;
use scylla::errors::{
    DbError, ExecutionError, NextPageError, NextRowError, PagerExecutionError, RequestAttemptError, RequestError, WriteType,
};
use scylla::policies::retry::{DefaultRetryPolicy, DowngradingConsistencyRetryPolicy, FallthroughRetryPolicy, RetryPolicy};
use scylla::policies::speculative_execution::{SimpleSpeculativeExecutionPolicy, SpeculativeExecutionPolicy};
use scylla::response::query_result::QueryResult;
use scylla::response::{PagingState, PagingStateResponse};
use scylla::statement::Consistency;
use scylla::statement::batch::{Batch, BatchType};
use scylla::statement::prepared::PreparedStatement;
use scylla::statement::unprepared::Statement;
use std::collections::HashMap;
use std::num::NonZeroUsize;
use std::sync::atomic::{AtomicU64, AtomicUsize, Ordering};
use std::sync::{Arc, Mutex};
use std::time::{Duration, Instant};
use vh::mocknode::*;
use vh::{Out, Rng};

#[derive(Clone, Copy, PartialEq, Eq, Debug)]
pub enum Mix {
    C06,
    C13,
}
impl Mix {
    fn kind(self) -> &'static str {
        match self {
            Mix::C06 => "E6",
            Mix::C13 => "E13",
        }
    }
}

/// number of fixed-shape scenarios (seeds 0..SHAPES)
pub const SHAPES: u64 = 14;
/// speculative retry interval used everywhere (ms); slow answers are delayed by SLOW_MS
const INTERVAL_MS: u64 = 30;
const SLOW_MS: u64 = 300;
const TIMEOUT_MS: u64 = 100;
/// two answer times closer than this (plus the measured stall) are treated as simultaneous
const MARGIN_US: u64 = 150_000;
/// an answer the mock has logged is taken to be processed by the driver within this (plus the stall)
const SMALL_MARGIN_US: u64 = 20_000;

const CLS: [(&str, Consistency, u16); 11] = [
    ("Any", Consistency::Any, 0),
    ("One", Consistency::One, 1),
    ("Two", Consistency::Two, 2),
    ("Three", Consistency::Three, 3),
    ("Quorum", Consistency::Quorum, 4),
    ("All", Consistency::All, 5),
    ("LocalQuorum", Consistency::LocalQuorum, 6),
    ("EachQuorum", Consistency::EachQuorum, 7),
    ("Serial", Consistency::Serial, 8),
    ("LocalSerial", Consistency::LocalSerial, 9),
    ("LocalOne", Consistency::LocalOne, 10),
];
fn cl_name(c: Consistency) -> &'static str {
    CLS.iter().find(|x| x.1 == c).unwrap().0
}
fn cl_code(name: &str) -> u16 {
    CLS.iter().find(|x| x.0 == name).map(|x| x.2).unwrap_or(4)
}
fn cl_name_of_code(code: u16) -> &'static str {
    CLS.iter().find(|x| x.2 == code).map(|x| x.0).unwrap_or("?")
}
const POLICIES: [&str; 3] = ["Default", "Downgrading", "Fallthrough"];
const WTS: [(&str, &str); 9] = [
    ("Simple", "SIMPLE"),
    ("Batch", "BATCH"),
    ("UnloggedBatch", "UNLOGGED_BATCH"),
    ("Counter", "COUNTER"),
    ("BatchLog", "BATCH_LOG"),
    ("Cas", "CAS"),
    ("View", "VIEW"),
    ("Cdc", "CDC"),
    ("Other", "SOMETHING_NEW"),
];

#[derive(Clone, Copy, PartialEq, Eq, Debug)]
enum Api {
    QU,
    EU,
    B,
    QS,
    ES,
    QI,
    EI,
}
const APIS: [Api; 7] = [Api::QU, Api::EU, Api::B, Api::QS, Api::ES, Api::QI, Api::EI];
impl Api {
    fn tag(self) -> &'static str {
        match self {
            Api::QU => "qu",
            Api::EU => "eu",
            Api::B => "b",
            Api::QS => "qs",
            Api::ES => "es",
            Api::QI => "qi",
            Api::EI => "ei",
        }
    }
    fn paged(self) -> bool {
        matches!(self, Api::QS | Api::ES | Api::QI | Api::EI)
    }
}

#[derive(Clone, Debug, PartialEq)]
enum Reply {
    Ok,
    /// error token in the syntax of the C06 runner: `Db.<variant>[:field...]` (numbers signed hex)
    Err(String),
    /// the mock cuts the connection instead of answering
    Drop,
    /// ERROR UNPREPARED to an EXECUTE: the driver re-prepares on that connection and sends the
    /// EXECUTE again -- inside ONE attempt (C14); the two frames are merged into one observed frame
    Unprepared,
    /// an ERROR frame whose body cannot be parsed (CqlErrorParseError at the driver)
    BadError,
}
#[derive(Clone, Debug)]
struct Outcome {
    delay_ms: u64,
    reply: Reply,
}

#[derive(Clone, Debug)]
struct Cfg {
    pol: usize,
    spec: Option<(usize, u64)>,
    cl: Consistency,
}

#[derive(Clone, Debug)]
struct Req {
    api: Api,
    idem: bool,
    /// None = the session's default profile; Some = an own profile attached to the statement
    profile: Option<Cfg>,
    stmt_pol: Option<usize>,
    stmt_cl: Option<Consistency>,
    /// scripted outcomes per page, by arrival index
    pages: Vec<Vec<Outcome>>,
    /// client-side request timeout set on the statement (ms)
    timeout_ms: Option<u64>,
}

struct Scenario {
    /// shards per node (0 = the nodes advertise no sharding); one connection per shard
    shards: u16,
    nnodes: usize,
    default: Cfg,
    reqs: Vec<Req>,
}

// ------------------------------------------------------------------------------------------
// error tokens
// ------------------------------------------------------------------------------------------
fn num(s: &str) -> i32 {
    let v = if let Some(r) = s.strip_prefix('-') { -i64::from_str_radix(r, 16).unwrap_or(0) } else { i64::from_str_radix(s, 16).unwrap_or(0) };
    v as i32
}
fn hx(v: i32) -> String {
    vh::hex_i(v as i128)
}

/// the ERROR frame of an error token
fn db_err_of(tok: &str) -> DbErr {
    let f: Vec<&str> = tok.split(':').collect();
    let k = |i: usize| f.get(i).map(|s| num(s)).unwrap_or(0);
    let c = |i: usize| cl_code(f.get(i).copied().unwrap_or("Quorum"));
    let wt = |i: usize| WTS.iter().find(|w| Some(&w.0) == f.get(i)).map(|w| w.1).unwrap_or("SIMPLE").to_string();
    match f[0] {
        "Db.Unavailable" => DbErr::Unavailable { consistency: c(1), required: k(2), alive: k(3) },
        "Db.ReadTimeout" => DbErr::ReadTimeout { consistency: c(1), received: k(2), required: k(3), data_present: k(4) != 0 },
        "Db.WriteTimeout" => DbErr::WriteTimeout { consistency: c(1), received: k(2), required: k(3), write_type: wt(4) },
        "Db.ReadFailure" => DbErr::ReadFailure { consistency: c(1), received: k(2), required: k(3), numfailures: k(4), data_present: k(5) != 0 },
        "Db.WriteFailure" => DbErr::WriteFailure { consistency: c(1), received: k(2), required: k(3), numfailures: k(4), write_type: wt(5) },
        "Db.Overloaded" => DbErr::Overloaded,
        "Db.IsBootstrapping" => DbErr::IsBootstrapping,
        "Db.TruncateError" => DbErr::TruncateError,
        "Db.ServerError" => DbErr::ServerError,
        "Db.SyntaxError" => DbErr::SyntaxError,
        "Db.Invalid" => DbErr::Invalid,
        "Db.Unauthorized" => DbErr::Unauthorized,
        "Db.ConfigError" => DbErr::ConfigError,
        "Db.AlreadyExists" => DbErr::AlreadyExists { keyspace: "ks".into(), table: "t".into() },
        "Db.FunctionFailure" => DbErr::FunctionFailure { keyspace: "ks".into(), function: "f".into(), arg_types: vec!["int".into()] },
        _ => DbErr::ServerError,
    }
}

fn wt_name(w: &WriteType) -> &'static str {
    match w {
        WriteType::Simple => "Simple",
        WriteType::Batch => "Batch",
        WriteType::UnloggedBatch => "UnloggedBatch",
        WriteType::Counter => "Counter",
        WriteType::BatchLog => "BatchLog",
        WriteType::Cas => "Cas",
        WriteType::View => "View",
        WriteType::Cdc => "Cdc",
        _ => "Other",
    }
}

/// token of an error the driver returned (the fields the model keeps; the rest by class)
fn err_token(e: &RequestAttemptError) -> String {
    match e {
        RequestAttemptError::SerializationError(_) => "E.SerializationError".into(),
        RequestAttemptError::CqlRequestSerialization(_) => "E.CqlRequestSerialization".into(),
        RequestAttemptError::UnableToAllocStreamId => "E.UnableToAllocStreamId".into(),
        RequestAttemptError::BrokenConnectionError(_) => "E.BrokenConnectionError".into(),
        RequestAttemptError::BodyExtensionsParseError(_) => "E.BodyExtensionsParseError".into(),
        RequestAttemptError::CqlResultParseError(_) => "E.CqlResultParseError".into(),
        RequestAttemptError::CqlErrorParseError(_) => "E.CqlErrorParseError".into(),
        RequestAttemptError::UnexpectedResponse(_) => "E.UnexpectedResponse".into(),
        RequestAttemptError::RepreparedIdChanged { .. } => "E.RepreparedIdChanged".into(),
        RequestAttemptError::RepreparedIdMissingInBatch => "E.RepreparedIdMissingInBatch".into(),
        RequestAttemptError::NonfinishedPagingState => "E.NonfinishedPagingState".into(),
        RequestAttemptError::DbError(db, _) => match db {
            DbError::SyntaxError => "Db.SyntaxError".into(),
            DbError::Invalid => "Db.Invalid".into(),
            DbError::AlreadyExists { .. } => "Db.AlreadyExists".into(),
            DbError::FunctionFailure { .. } => "Db.FunctionFailure".into(),
            DbError::AuthenticationError => "Db.AuthenticationError".into(),
            DbError::Unauthorized => "Db.Unauthorized".into(),
            DbError::ConfigError => "Db.ConfigError".into(),
            DbError::Unavailable { consistency, required, alive } => {
                format!("Db.Unavailable:{}:{}:{}", cl_name(*consistency), hx(*required), hx(*alive))
            }
            DbError::Overloaded => "Db.Overloaded".into(),
            DbError::IsBootstrapping => "Db.IsBootstrapping".into(),
            DbError::TruncateError => "Db.TruncateError".into(),
            DbError::ReadTimeout { consistency, received, required, data_present } => {
                format!("Db.ReadTimeout:{}:{}:{}:{}", cl_name(*consistency), hx(*received), hx(*required), *data_present as u8)
            }
            DbError::WriteTimeout { consistency, received, required, write_type } => {
                format!("Db.WriteTimeout:{}:{}:{}:{}", cl_name(*consistency), hx(*received), hx(*required), wt_name(write_type))
            }
            DbError::ReadFailure { .. } => "Db.ReadFailure".into(),
            DbError::WriteFailure { .. } => "Db.WriteFailure".into(),
            DbError::Unprepared { .. } => "Db.Unprepared".into(),
            DbError::ServerError => "Db.ServerError".into(),
            DbError::ProtocolError => "Db.ProtocolError".into(),
            DbError::RateLimitReached { .. } => "Db.RateLimitReached".into(),
            DbError::Other(_) => "Db.Other".into(),
            _ => "Db.?".into(),
        },
        _ => "E.?".into(),
    }
}
fn clean(s: String) -> String {
    s.chars().map(|c| if c.is_ascii_alphanumeric() || c == '.' || c == '_' { c } else { '_' }).take(60).collect()
}
fn res_of_request_error(e: &RequestError) -> String {
    match e {
        RequestError::EmptyPlan => "emptyplan".into(),
        RequestError::ConnectionPoolError(_) => "pool".into(),
        RequestError::RequestTimeout(_) => "timeout".into(),
        RequestError::LastAttemptError(a) => format!("X{}", err_token(a)),
        other => format!("other:{}", clean(format!("{:?}", other))),
    }
}
fn res_of_execution_error(e: &ExecutionError) -> String {
    match e {
        ExecutionError::EmptyPlan => "emptyplan".into(),
        ExecutionError::ConnectionPoolError(_) => "pool".into(),
        ExecutionError::RequestTimeout(_) => "timeout".into(),
        ExecutionError::LastAttemptError(a) => format!("X{}", err_token(a)),
        other => format!("other:{}", clean(format!("{:?}", other))),
    }
}
fn res_of_page_error(e: &NextPageError) -> String {
    match e {
        NextPageError::RequestFailure(r) => res_of_request_error(r),
        other => format!("other:{}", clean(format!("{:?}", other))),
    }
}
fn res_of_query_result(r: &QueryResult) -> String {
    if r.is_rows() { "rows".into() } else { "void".into() }
}
fn coordinator_node(cluster: &MockCluster, c: &scylla::response::Coordinator) -> Option<usize> {
    cluster.node_of_ip(c.node().address.ip())
}

// ------------------------------------------------------------------------------------------
// scenario generation
// ------------------------------------------------------------------------------------------
const SAFE_RETRYING: [&str; 6] = [
    "Db.Unavailable:Quorum:3:2",
    "Db.Unavailable:EachQuorum:3:0",
    "Db.Unavailable:Quorum:2:1",
    "Db.ReadTimeout:Quorum:2:2:0",
    "Db.ReadTimeout:All:1:3:1",
    "Db.IsBootstrapping",
];
const IDEM_RETRYING: [&str; 6] = [
    "Db.Overloaded",
    "Db.ServerError",
    "Db.TruncateError",
    "Db.WriteTimeout:Quorum:1:2:BatchLog",
    "Db.WriteTimeout:Quorum:2:3:UnloggedBatch",
    "Db.WriteTimeout:Quorum:1:2:Simple",
];
const FINAL: [&str; 10] = [
    "Db.WriteTimeout:Quorum:0:2:Simple",
    "Db.WriteTimeout:Quorum:1:2:Cas",
    "Db.WriteTimeout:One:1:1:Counter",
    "Db.ReadFailure:Two:1:2:1:0",
    "Db.WriteFailure:Two:1:2:1:Batch",
    "Db.ReadTimeout:Quorum:2:2:1",
    "Db.Invalid",
    "Db.SyntaxError",
    "Db.Unauthorized",
    "Db.AlreadyExists",
];

fn gen_err(r: &mut Rng, retrying_bias: bool) -> String {
    let x = r.below(100);
    if retrying_bias && x < 45 {
        (*r.pick(&SAFE_RETRYING)).to_string()
    } else if x < 65 {
        (*r.pick(&IDEM_RETRYING)).to_string()
    } else if x < 85 {
        (*r.pick(&FINAL)).to_string()
    } else {
        let v = |r: &mut Rng| r.range(0, 4) as i32;
        let icl = CLS[r.below(11) as usize].0;
        match r.below(3) {
            0 => format!("Db.Unavailable:{}:{}:{}", icl, hx(v(r)), hx(v(r))),
            1 => format!("Db.ReadTimeout:{}:{}:{}:{}", icl, hx(v(r)), hx(v(r)), r.below(2)),
            _ => format!("Db.WriteTimeout:{}:{}:{}:{}", icl, hx(v(r)), hx(v(r)), WTS[r.below(9) as usize].0),
        }
    }
}

fn gen_cl(r: &mut Rng) -> Consistency {
    if r.chance(1, 8) {
        *r.pick(&[Consistency::Serial, Consistency::LocalSerial])
    } else {
        *r.pick(&[
            Consistency::Quorum,
            Consistency::Quorum,
            Consistency::One,
            Consistency::Two,
            Consistency::Three,
            Consistency::All,
            Consistency::LocalQuorum,
            Consistency::EachQuorum,
            Consistency::LocalOne,
            Consistency::Any,
        ])
    }
}
fn gen_pol(r: &mut Rng, mix: Mix) -> usize {
    match (mix, r.below(20)) {
        (Mix::C06, 0..=9) => 0,
        (Mix::C06, 10..=16) => 1,
        (Mix::C06, _) => 2,
        (Mix::C13, 0..=10) => 0,
        (Mix::C13, 11..=14) => 1,
        (Mix::C13, _) => 2,
    }
}
fn gen_spec(r: &mut Rng, mix: Mix) -> Option<(usize, u64)> {
    let p = match mix {
        Mix::C06 => 40,
        Mix::C13 => 88,
    };
    if r.below(100) < p { Some((r.range(0, 3) as usize, INTERVAL_MS)) } else { None }
}
fn gen_cfg(r: &mut Rng, mix: Mix) -> Cfg {
    Cfg { pol: gen_pol(r, mix), spec: gen_spec(r, mix), cl: gen_cl(r) }
}

fn gen_page_script(r: &mut Rng, mix: Mix, spec: bool, allow_drop: bool, exec: bool) -> Vec<Outcome> {
    let mut v = Vec::new();
    match mix {
        Mix::C06 => {
            let len = match r.below(10) {
                0 | 1 => 0,
                2..=4 => 1,
                5..=7 => 2,
                8 => 3,
                _ => 4,
            };
            for _ in 0..len {
                let reply = if allow_drop && r.chance(1, 9) {
                    Reply::Drop
                } else if exec && r.chance(1, 10) {
                    Reply::Unprepared
                } else if r.chance(1, 25) {
                    Reply::BadError
                } else if r.chance(1, 12) {
                    Reply::Ok
                } else {
                    Reply::Err(gen_err(r, true))
                };
                let delay_ms = if spec && r.chance(1, 5) {
                    SLOW_MS
                } else if r.chance(1, 10) {
                    r.range(1, 25)
                } else {
                    0
                };
                v.push(Outcome { delay_ms, reply });
            }
        }
        Mix::C13 => {
            let len = r.range(0, 4);
            for k in 0..len {
                let slow = if k == 0 { r.chance(3, 5) } else { r.chance(1, 4) };
                let reply = match r.below(10) {
                    0..=2 => Reply::Ok,
                    3..=7 => Reply::Err(gen_err(r, true)),
                    _ => Reply::Err((*r.pick(&FINAL)).to_string()),
                };
                v.push(Outcome { delay_ms: if slow { SLOW_MS } else { 0 }, reply });
            }
        }
    }
    v
}

fn gen_req(r: &mut Rng, mix: Mix, default: &Cfg, allow_drop: bool, shards: u16) -> Req {
    let api = match r.below(10) {
        0 => Api::QU,
        1 => Api::EU,
        2 => Api::B,
        3 => Api::QS,
        4 => Api::ES,
        5 | 6 => Api::QI,
        7 | 8 => Api::EI,
        _ => *r.pick(&APIS),
    };
    let idem = match mix {
        Mix::C06 => r.bool(),
        Mix::C13 => r.chance(3, 5),
    };
    let profile = if r.chance(1, 2) { Some(gen_cfg(r, mix)) } else { None };
    let stmt_pol = if r.chance(1, 4) { Some(gen_pol(r, mix)) } else { None };
    let stmt_cl = if r.chance(1, 3) { Some(gen_cl(r)) } else { None };
    let spec = profile.as_ref().unwrap_or(default).spec.is_some();
    // On sharded nodes a pager's plan for page >= 1 is the previous coordinator's (node, shard) followed by
    // the fresh plan minus that (node, shard) only: the node can occur a second time on another shard.
    // The e2e model's targets are nodes, so *_iter requests on sharded clusters fetch one page
    // (manual paging has no coordinator stickiness and keeps 1-3 pages).
    let one_page = shards > 0 && matches!(api, Api::QI | Api::EI);
    let npages = if api.paged() && !one_page { r.range(1, 3) as usize } else { 1 };
    let exec = matches!(api, Api::EU | Api::ES | Api::EI);
    let mut pages: Vec<Vec<Outcome>> = (0..npages).map(|_| gen_page_script(r, mix, spec, allow_drop, exec)).collect();
    // client-side timeout (C06 mix): 100 ms against a first answer that is SLOW_MS late
    let timeout_ms = if mix == Mix::C06 && r.chance(1, 14) {
        let last = pages.len() - 1;
        let reply = pages[last].first().map(|o| o.reply.clone()).unwrap_or(Reply::Ok);
        let slow = Outcome { delay_ms: SLOW_MS, reply: if reply == Reply::Drop { Reply::Ok } else { reply } };
        if r.chance(1, 3) {
            // near the boundary: an Unavailable answered 85 ms after the first frame, so that (under a
            // retrying policy) the NEXT frame is sent ~15 ms before the 100 ms timeout fires
            pages[last] = vec![Outcome { delay_ms: TIMEOUT_MS - 15, reply: Reply::Err("Db.Unavailable:Quorum:2:1".into()) }, slow];
        } else if pages[last].is_empty() {
            pages[last].push(slow);
        } else {
            pages[last][0] = slow;
        }
        Some(TIMEOUT_MS)
    } else {
        None
    };
    Req { api, idem, profile, stmt_pol, stmt_cl, pages, timeout_ms }
}

/// The fixed shapes: seed s < 7: api s, the first frame of every page is answered with a success
/// after SLOW_MS; 7 <= s < 14: the same with an Unavailable error (a "safe" error: the request may
/// be sent again, but only after the error has been received).  Each with a speculative policy in
/// the profile and five requests: not idempotent, idempotent, not idempotent with an own profile (max 1),
/// not idempotent without a policy, idempotent with a policy of max_retry_count = 0; in the C06 mix a sixth:
/// not idempotent, 100 ms client timeout, Unavailable answered at 65 ms, the re-sent frame unanswered at the timeout.
fn shape_scenario(mix: Mix, s: u64) -> Scenario {
    let api = APIS[(s % 7) as usize];
    let first = if s < 7 { Reply::Ok } else { Reply::Err("Db.Unavailable:Quorum:2:1".into()) };
    let npages = if api.paged() { 2 } else { 1 };
    let script = || -> Vec<Vec<Outcome>> { (0..npages).map(|_| vec![Outcome { delay_ms: SLOW_MS, reply: first.clone() }]).collect() };
    let default = Cfg { pol: 0, spec: Some((2, INTERVAL_MS)), cl: Consistency::Quorum };
    let own = Cfg { pol: 0, spec: Some((1, INTERVAL_MS)), cl: Consistency::One };
    let nospec = Cfg { pol: 0, spec: None, cl: Consistency::Quorum };
    // max_retry_count = 0: a policy that allows no speculative execution at all
    let zero = Cfg { pol: 0, spec: Some((0, INTERVAL_MS)), cl: Consistency::Quorum };
    let mk = |idem: bool, profile: Option<Cfg>| Req { api, idem, profile, stmt_pol: None, stmt_cl: None, pages: script(), timeout_ms: None };
    let mut reqs = vec![mk(false, None), mk(true, None), mk(false, Some(own)), mk(false, Some(nospec.clone())), mk(true, Some(zero))];
    if mix == Mix::C06 {
        // deterministic near-boundary timeout (every seed has these 14): not idempotent, no speculative
        // policy, 100 ms statement timeout; Unavailable answered 65 ms in (a 20-30 ms stall still leaves it
        // before the timer), so the next frame goes out ~35 ms before the timeout and is never answered in time
        let near = vec![
            Outcome { delay_ms: TIMEOUT_MS - 35, reply: Reply::Err("Db.Unavailable:Quorum:2:1".into()) },
            Outcome { delay_ms: SLOW_MS, reply: Reply::Ok },
        ];
        reqs.push(Req {
            api,
            idem: false,
            profile: Some(nospec),
            stmt_pol: None,
            stmt_cl: None,
            pages: (0..npages).map(|_| near.clone()).collect(),
            timeout_ms: Some(TIMEOUT_MS),
        });
    }
    Scenario {
        shards: if s % 2 == 1 && !matches!(api, Api::QI | Api::EI) { 2 } else { 0 },
        nnodes: 3,
        default,
        reqs,
    }
}

fn gen_scenario(mix: Mix, sseed: u64, thorough: bool) -> Scenario {
    if sseed < SHAPES {
        return shape_scenario(mix, sseed);
    }
    let salt = match mix {
        Mix::C06 => 0xC06E_2E00_0000_0001u64,
        Mix::C13 => 0xC13E_2E00_0000_0001u64,
    };
    let mut r = Rng::new(sseed ^ salt);
    let nnodes = r.range(2, 4) as usize;
    let default = gen_cfg(&mut r, mix);
    let shards: u16 = *r.pick(&[0u16, 0, 0, 2, 3]);
    let n = if thorough { r.range(4, 9) } else { r.range(3, 6) } as usize;
    let mut reqs = Vec::new();
    for i in 0..n {
        // connection drops only in the last third of a scenario: a cut pool makes later plans shorter
        let allow_drop = mix == Mix::C06 && i * 3 >= n * 2;
        reqs.push(gen_req(&mut r, mix, &default, allow_drop, shards));
    }
    Scenario { shards, nnodes, default, reqs }
}

// ------------------------------------------------------------------------------------------
// the mock side
// ------------------------------------------------------------------------------------------
struct FrameRec {
    marker: u64,
    page: usize,
    node: usize,
    conn_id: u64,
    stream: i16,
    cl: u16,
    reply: Reply,
}
struct Script {
    pages: Vec<Vec<Outcome>>,
    arrivals: Vec<usize>,
}
#[derive(Default)]
struct HState {
    scripts: HashMap<u64, Script>,
    frames: Vec<FrameRec>,
}

const Q_PREFIX: &str = "SELECT v FROM ks.t WHERE m = ";
const P_TEXT: &str = "SELECT v FROM ks.t WHERE m = ?";
const B_PREFIX: &str = "INSERT INTO ks.t (m, v) VALUES (";

fn marker_of_text(t: &str) -> Option<u64> {
    if let Some(r) = t.strip_prefix(Q_PREFIX) {
        return r.trim().parse().ok();
    }
    if let Some(r) = t.strip_prefix(B_PREFIX) {
        return r.split(',').next()?.trim().parse().ok();
    }
    None
}
fn marker_of_values(v: &[wire::Value]) -> Option<u64> {
    let b = v.first()?.as_bytes()?;
    Some(u64::from_be_bytes(b.try_into().ok()?))
}
fn page_of(ps: &Option<Vec<u8>>) -> usize {
    ps.as_ref().and_then(|p| p.first().copied()).unwrap_or(0) as usize
}

/// (marker, page, consistency code) of a request frame of one of our logical requests
fn frame_key(opcode: u8, body: &[u8]) -> Option<(u64, usize, u16)> {
    match opcode {
        op::QUERY => {
            let q = wire::decode_query(body).ok()?;
            Some((marker_of_text(&q.text)?, page_of(&q.params.paging_state), q.params.consistency))
        }
        op::EXECUTE => {
            let x = wire::decode_execute(body, false).ok()?;
            Some((marker_of_values(&x.params.values)?, page_of(&x.params.paging_state), x.params.consistency))
        }
        op::BATCH => {
            let b = wire::decode_batch(body).ok()?;
            let m = b.statements.iter().find_map(|s| match s {
                wire::BatchStmt::Query { text, .. } => marker_of_text(text),
                _ => None,
            })?;
            Some((m, 0, b.consistency))
        }
        _ => None,
    }
}

fn handler(st: Arc<Mutex<HState>>) -> Handler {
    Arc::new(move |ctx: &ReqCtx| -> Option<Vec<Action>> {
        if ctx.is_system {
            return None;
        }
        let (marker, page, cl) = match ctx.opcode {
            op::QUERY => {
                let p = ctx.params.as_ref()?;
                (marker_of_text(ctx.text.as_deref()?)?, page_of(&p.paging_state), p.consistency)
            }
            op::EXECUTE => {
                let p = ctx.params.as_ref()?;
                if ctx.text.as_deref() != Some(P_TEXT) {
                    return None;
                }
                (marker_of_values(&p.values)?, page_of(&p.paging_state), p.consistency)
            }
            op::BATCH => {
                let b = ctx.batch.as_ref()?;
                let m = b.statements.iter().find_map(|s| match s {
                    wire::BatchStmt::Query { text, .. } => marker_of_text(text),
                    _ => None,
                })?;
                (m, 0, b.consistency)
            }
            _ => return None,
        };
        let mut g = st.lock().unwrap();
        let sc = g.scripts.get_mut(&marker)?;
        let npages = sc.pages.len();
        let pg = page.min(npages - 1);
        let k = sc.arrivals[pg];
        sc.arrivals[pg] += 1;
        let mut out = sc.pages[pg].get(k).cloned().unwrap_or(Outcome { delay_ms: 0, reply: Reply::Ok });
        if out.reply == Reply::Unprepared && ctx.opcode != op::EXECUTE {
            out.reply = Reply::Ok;
        }
        g.frames.push(FrameRec { marker, page, node: ctx.node, conn_id: ctx.conn_id, stream: ctx.stream, cl, reply: out.reply.clone() });
        let mut acts = Vec::new();
        if out.delay_ms > 0 {
            acts.push(Action::Delay(out.delay_ms));
        }
        acts.push(match &out.reply {
            Reply::Ok => {
                if ctx.opcode == op::BATCH {
                    Action::Void
                } else {
                    let mut rows = RowsSpec::new(vec![ColSpec::new("ks", "t", "v", CqlType::Int)], vec![vec![cell::int(page as i32)]]);
                    if page + 1 < npages {
                        rows = rows.with_paging_state(vec![(page + 1) as u8]);
                    }
                    Action::Rows(rows.with_meta(MetaMode::Full))
                }
            }
            Reply::Err(tok) => Action::Error(ErrorSpec::new(db_err_of(tok), "scripted")),
            Reply::Drop => Action::Close(CutKind::Rst),
            Reply::Unprepared => Action::Unprepared,
            // error code 0x1000 (Unavailable) without its fields
            Reply::BadError => Action::RawBody { opcode: op::ERROR, body: vec![0x00, 0x00, 0x10, 0x00, 0x00, 0x00] },
        });
        Some(acts)
    })
}

// ------------------------------------------------------------------------------------------
// the client side
// ------------------------------------------------------------------------------------------
struct PageObs {
    page: usize,
    /// lower bound of the start of the page's execution (None: derive from the previous page's answers)
    t0: Option<u64>,
    tret: u64,
    res: String,
    /// node the result names as its coordinator
    co: Option<usize>,
}
struct ReqObs {
    marker: u64,
    cfg: Cfg,
    pages: Vec<PageObs>,
    jitter_us: u64,
    /// time of the end of the whole request (for pagers: when the stream ended)
    t_end: u64,
}

fn retry_policy(i: usize) -> Arc<dyn RetryPolicy> {
    match i {
        0 => Arc::new(DefaultRetryPolicy::new()),
        1 => Arc::new(DowngradingConsistencyRetryPolicy::new()),
        _ => Arc::new(FallthroughRetryPolicy::new()),
    }
}
fn profile_of(c: &Cfg) -> ExecutionProfileHandle {
    let spec: Option<Arc<dyn SpeculativeExecutionPolicy>> = c.spec.map(|(max, iv)| {
        Arc::new(SimpleSpeculativeExecutionPolicy { max_retry_count: max, retry_interval: Duration::from_millis(iv) }) as Arc<dyn SpeculativeExecutionPolicy>
    });
    ExecutionProfile::builder()
        .request_timeout(None)
        .consistency(c.cl)
        .retry_policy(retry_policy(c.pol))
        .speculative_execution_policy(spec)
        .build()
        .into_handle()
}

macro_rules! configure {
    ($st:expr, $req:expr) => {{
        $st.set_is_idempotent($req.idem);
        if let Some(c) = &$req.profile {
            $st.set_execution_profile_handle(Some(profile_of(c)));
        }
        if let Some(p) = $req.stmt_pol {
            $st.set_retry_policy(Some(retry_policy(p)));
        }
        if let Some(c) = $req.stmt_cl {
            $st.set_consistency(c);
        }
        if let Some(t) = $req.timeout_ms {
            $st.set_request_timeout(Some(Duration::from_millis(t)));
        }
    }};
}

const CALL_LIMIT: Duration = Duration::from_secs(40);

async fn limited<T>(f: impl std::future::Future<Output = T>) -> Option<T> {
    tokio::time::timeout(CALL_LIMIT, f).await.ok()
}

async fn run_request(session: &Session, cluster: &MockCluster, prepared: &PreparedStatement, req: &Req, marker: u64) -> Vec<PageObs> {
    let now = || cluster.now_ns() / 1000;
    let mut obs = Vec::new();
    let text = format!("{}{}", Q_PREFIX, marker);
    let mval = marker.to_be_bytes().to_vec();
    match req.api {
        Api::QU => {
            let mut st = Statement::new(text);
            configure!(st, req);
            let t0 = now();
            let r = limited(session.query_unpaged(st, ())).await;
            let tret = now();
            let (res, co) = match r {
                None => ("hang".into(), None),
                Some(Ok(q)) => (res_of_query_result(&q), coordinator_node(cluster, q.request_coordinator())),
                Some(Err(e)) => (res_of_execution_error(&e), None),
            };
            obs.push(PageObs { page: 0, t0: Some(t0), tret, res, co });
        }
        Api::EU => {
            let mut st = prepared.clone();
            configure!(st, req);
            let t0 = now();
            let r = limited(session.execute_unpaged(&st, (mval,))).await;
            let tret = now();
            let (res, co) = match r {
                None => ("hang".into(), None),
                Some(Ok(q)) => (res_of_query_result(&q), coordinator_node(cluster, q.request_coordinator())),
                Some(Err(e)) => (res_of_execution_error(&e), None),
            };
            obs.push(PageObs { page: 0, t0: Some(t0), tret, res, co });
        }
        Api::B => {
            let mut b = Batch::new(if marker % 2 == 0 { BatchType::Logged } else { BatchType::Unlogged });
            configure!(b, req);
            b.append_statement(format!("{}{}, 0)", B_PREFIX, marker).as_str());
            let t0 = now();
            let r = limited(session.batch(&b, ((),))).await;
            let tret = now();
            let (res, co) = match r {
                None => ("hang".into(), None),
                Some(Ok(q)) => (res_of_query_result(&q), coordinator_node(cluster, q.request_coordinator())),
                Some(Err(e)) => (res_of_execution_error(&e), None),
            };
            obs.push(PageObs { page: 0, t0: Some(t0), tret, res, co });
        }
        Api::QS | Api::ES => {
            let mut state = PagingState::start();
            let mut qst = Statement::new(text);
            configure!(qst, req);
            let mut pst = prepared.clone();
            configure!(pst, req);
            for page in 0..req.pages.len() + 1 {
                let t0 = now();
                let r = if req.api == Api::QS {
                    limited(session.query_single_page(qst.clone(), (), state.clone())).await
                } else {
                    limited(session.execute_single_page(&pst, (mval.clone(),), state.clone())).await
                };
                let tret = now();
                match r {
                    None => {
                        obs.push(PageObs { page, t0: Some(t0), tret, res: "hang".into(), co: None });
                        break;
                    }
                    Some(Err(e)) => {
                        obs.push(PageObs { page, t0: Some(t0), tret, res: res_of_execution_error(&e), co: None });
                        break;
                    }
                    Some(Ok((q, psr))) => {
                        let co = coordinator_node(cluster, q.request_coordinator());
                        obs.push(PageObs { page, t0: Some(t0), tret, res: res_of_query_result(&q), co });
                        match psr {
                            PagingStateResponse::HasMorePages { state: s } => state = s,
                            PagingStateResponse::NoMorePages => break,
                        }
                    }
                }
            }
        }
        Api::QI | Api::EI => {
            let t0 = now();
            let r = if req.api == Api::QI {
                let mut st = Statement::new(text);
                configure!(st, req);
                limited(session.query_iter(st, ())).await
            } else {
                let mut st = prepared.clone();
                configure!(st, req);
                limited(session.execute_iter(st, (mval,))).await
            };
            match r {
                None => obs.push(PageObs { page: 0, t0: Some(t0), tret: now(), res: "hang".into(), co: None }),
                Some(Err(PagerExecutionError::NextPageError(e))) => obs.push(PageObs { page: 0, t0: Some(t0), tret: now(), res: res_of_page_error(&e), co: None }),
                Some(Err(e)) => obs.push(PageObs { page: 0, t0: Some(t0), tret: now(), res: format!("other:{}", clean(format!("{:?}", e))), co: None }),
                Some(Ok(pager)) => match pager.rows_stream::<scylla::value::Row>() {
                    Err(e) => obs.push(PageObs { page: 0, t0: Some(t0), tret: now(), res: format!("other:{}", clean(format!("{:?}", e))), co: None }),
                    Ok(mut stream) => {
                        let mut seen = 0usize;
                        loop {
                            let item = limited(stream.next()).await;
                            let tret = now();
                            let t0p = if seen == 0 { Some(t0) } else { None };
                            match item {
                                None => {
                                    obs.push(PageObs { page: seen, t0: t0p, tret, res: "hang".into(), co: None });
                                    break;
                                }
                                Some(None) => {
                                    // the stream ended: a page that was requested but never delivered is
                                    // added by the trace processing as `end`
                                    obs.push(PageObs { page: seen, t0: t0p, tret, res: "end".into(), co: None });
                                    break;
                                }
                                Some(Some(Ok(row))) => {
                                    let k = match row.columns.first() {
                                        Some(Some(scylla::value::CqlValue::Int(k))) => *k as i64,
                                        _ => -1,
                                    };
                                    let res = if k == seen as i64 { "rows".to_string() } else { format!("other:row_{}_on_page_{}", k, seen) };
                                    // the stream pulls the next page only when this one is used up: the last
                                    // coordinator it has recorded is this page's
                                    let co = stream.request_coordinators().last().and_then(|c| coordinator_node(cluster, c));
                                    obs.push(PageObs { page: seen, t0: t0p, tret, res, co });
                                    seen += 1;
                                }
                                Some(Some(Err(NextRowError::NextPageError(e)))) => {
                                    obs.push(PageObs { page: seen, t0: t0p, tret, res: res_of_page_error(&e), co: None });
                                    break;
                                }
                                Some(Some(Err(e))) => {
                                    obs.push(PageObs { page: seen, t0: t0p, tret, res: format!("other:{}", clean(format!("{:?}", e))), co: None });
                                    break;
                                }
                            }
                        }
                    }
                },
            }
        }
    }
    obs
}

struct TrFrame {
    shard: u16,
    conn: u64,
    idx: usize,
    node: usize,
    cl: u16,
    a: u64,
    b: Option<u64>,
    ans: String,
}

pub async fn run_scenario(mix: Mix, sseed: u64, thorough: bool) -> String {
    let sc = gen_scenario(mix, sseed, thorough);
    let debug = std::env::var("E2E_DEBUG").is_ok();
    let spec = ClusterSpec::uniform("e2e", &[("dc1", sc.nnodes)], 1, 4, sc.shards).with_keyspace(KeyspaceDef::simple("ks", 1));
    let cluster = match MockCluster::start(spec).await {
        Ok(c) => Arc::new(c),
        // no free loopback addresses / ports for the mock: environment, not the driver
        Err(e) => return format!("skip-env mock-start {}", clean(format!("{:?}", e))),
    };
    let hst = Arc::new(Mutex::new(HState::default()));
    cluster.set_handler(Some(handler(hst.clone())));
    let builder = SessionBuilder::new()
        .known_node_addr(cluster.contact_point(0))
        .local_ip_address(Some(cluster.client_ip()))
        .connection_timeout(Duration::from_secs(10))
        .pool_size(if sc.shards == 0 { PoolSize::PerHost(NonZeroUsize::new(1).unwrap()) } else { PoolSize::PerShard(NonZeroUsize::new(1).unwrap()) })
        .keepalive_interval(Duration::from_secs(3000))
        .keepalive_timeout(Duration::from_secs(3000))
        .cluster_metadata_refresh_interval(Duration::from_secs(3600))
        .default_execution_profile_handle(profile_of(&sc.default));
    let mut attempt = 0;
    let session = loop {
        attempt += 1;
        match tokio::time::timeout(Duration::from_secs(30), builder.clone().build()).await {
            Ok(Ok(s)) => break s,
            Ok(Err(e)) => {
                // The mock is healthy and local: a session that cannot be built is an environment
                // failure (ports, a stalled machine).  It is reported as not-run; checks/c06.py caps the
                // number of not-run scenarios, so a driver that cannot connect at all still fails the check.
                let msg = format!("{:?}", e);
                if (msg.contains("AddrInUse") || msg.contains("AddrNotAvailable")) && attempt < 4 {
                    tokio::time::sleep(Duration::from_millis(700 * attempt)).await;
                    continue;
                }
                cluster.shutdown();
                return format!("skip-env session-build {}", clean(msg));
            }
            Err(_) => {
                cluster.shutdown();
                return "skip-env session-build-timeout".into();
            }
        }
    };
    // every node's pool connected (one connection per node + the control connection), the prepared
    // statement known to every node
    // Every (node, shard) must have its pool connection before the first request (on sharded nodes the
    // first connection goes to the plain port and lands on an arbitrary shard, the pool then opens the
    // missing ones and closes surplus ones): wait until the mock sees a non-control connection on every
    // shard of every node AND the set of connections has not changed for 200 ms; then let the driver's
    // tasks run so that what the mock has acknowledged is registered in the pools.
    let t = Instant::now();
    let covered = |cluster: &MockCluster| -> bool {
        (0..sc.nnodes).all(|n| {
            let cs = cluster.connections(Some(n));
            (0..sc.shards.max(1)).all(|sh| cs.iter().any(|c| c.registered.is_empty() && (sc.shards == 0 || c.shard == sh)))
        })
    };
    let ids = |cluster: &MockCluster| -> Vec<u64> {
        let mut v: Vec<u64> = cluster.connections(None).iter().map(|c| c.conn_id).collect();
        v.sort();
        v
    };
    let mut settled = false;
    while t.elapsed() < Duration::from_secs(20) {
        if covered(&cluster) {
            let before = ids(&cluster);
            tokio::time::sleep(Duration::from_millis(200)).await;
            if covered(&cluster) && ids(&cluster) == before {
                settled = true;
                break;
            }
        } else {
            tokio::time::sleep(Duration::from_millis(2)).await;
        }
    }
    if !settled {
        // pools still filling after 20 s: requests would go out on whatever connection exists
        cluster.shutdown();
        return "skip-env pools-not-settled-in-20s".into();
    }
    for _ in 0..100 {
        tokio::task::yield_now().await;
    }
    let prepared = {
        let t = Instant::now();
        loop {
            match tokio::time::timeout(Duration::from_secs(30), session.prepare(P_TEXT)).await {
                Ok(Ok(p)) => {
                    if (0..sc.nnodes).all(|n| cluster.prepared_on(n).iter().any(|(_, t)| t == P_TEXT)) {
                        break p;
                    }
                }
                Ok(Err(e)) => {
                    cluster.shutdown();
                    return format!("skip-env prepare {}", clean(format!("{:?}", e)));
                }
                Err(_) => {
                    cluster.shutdown();
                    return "skip-env prepare-timeout".into();
                }
            }
            if t.elapsed() > Duration::from_secs(20) {
                cluster.shutdown();
                return "skip-env statement-not-prepared-on-every-node".into();
            }
            tokio::time::sleep(Duration::from_millis(10)).await;
        }
    };

    // scheduling-stall watchdog: how much later than asked a 2 ms sleep returns
    let jitter = Arc::new(AtomicU64::new(0));
    let watchdog = {
        let j = jitter.clone();
        tokio::spawn(async move {
            loop {
                let t = Instant::now();
                tokio::time::sleep(Duration::from_millis(2)).await;
                let over = t.elapsed().saturating_sub(Duration::from_millis(2)).as_micros() as u64;
                j.fetch_max(over, Ordering::Relaxed);
            }
        })
    };

    let mut robs: Vec<ReqObs> = Vec::new();
    for (i, req) in sc.reqs.iter().enumerate() {
        let marker = 1000 + i as u64;
        hst.lock().unwrap().scripts.insert(marker, Script { pages: req.pages.clone(), arrivals: vec![0; req.pages.len()] });
        let prof = req.profile.clone().unwrap_or_else(|| sc.default.clone());
        let cfg = Cfg { pol: req.stmt_pol.unwrap_or(prof.pol), spec: prof.spec, cl: req.stmt_cl.unwrap_or(prof.cl) };
        jitter.store(0, Ordering::Relaxed);
        let pages = run_request(&session, &cluster, &prepared, req, marker).await;
        let t_end = cluster.now_ns() / 1000;
        // let a stall that is happening right now show up in the watchdog
        tokio::time::sleep(Duration::from_millis(3)).await;
        let jit = jitter.load(Ordering::Relaxed);
        robs.push(ReqObs { marker, cfg, pages, jitter_us: jit, t_end });
        // after a cut connection: give the pool the time to come back (it stays in `down` anyway)
        let cut_nodes: Vec<usize> = {
            let g = hst.lock().unwrap();
            g.frames.iter().filter(|f| f.marker == marker && f.reply == Reply::Drop).map(|f| f.node).collect()
        };
        for n in cut_nodes {
            let t = Instant::now();
            while cluster.connections(Some(n)).iter().all(|c| !c.registered.is_empty()) && t.elapsed() < Duration::from_secs(3) {
                tokio::time::sleep(Duration::from_millis(5)).await;
            }
            tokio::time::sleep(Duration::from_millis(30)).await;
        }
    }
    watchdog.abort();
    // frames written just before a call returned may still be on their way to the mock
    tokio::time::sleep(Duration::from_millis(40)).await;
    let trace = cluster.trace_snapshot();
    cluster.set_handler(None);
    cluster.shutdown();
    drop(session);

    // ---- per-frame arrival / answer times from the trace (times made monotone in trace order) ----
    let mut tmono: Vec<u64> = Vec::with_capacity(trace.len());
    let mut last = 0u64;
    for e in &trace {
        last = last.max(e.t_ns / 1000);
        tmono.push(last);
    }
    let g = hst.lock().unwrap();
    let mut ins: Vec<(usize, u64, i16, u64, usize)> = Vec::new(); // trace index, conn, stream, marker, page
    for (i, e) in trace.iter().enumerate() {
        if let Ev::In { opcode, body, stream, .. } = &e.ev {
            if let Some((m, p, _)) = frame_key(*opcode, body) {
                if g.scripts.contains_key(&m) {
                    ins.push((i, e.conn_id, *stream, m, p));
                }
            }
        }
    }
    if ins.len() != g.frames.len() {
        return format!("error trace-mismatch in={} handled={}", ins.len(), g.frames.len());
    }
    // The pools must not have been changing while requests were measured: a connection accepted after
    // the first marked request, on a node the mock has not cut before, means the driver was still
    // (re)filling a pool -- requests may then have gone out on a connection of another shard.
    if let Some(first) = ins.first().map(|x| x.0) {
        let mut cut_nodes: Vec<usize> = Vec::new();
        for (i, e) in trace.iter().enumerate() {
            match &e.ev {
                Ev::Close { by: CloseBy::MockRst | CloseBy::MockFin } => cut_nodes.push(e.node),
                Ev::Open { .. } if i > first && !cut_nodes.contains(&e.node) => {
                    return "skip-env pool-changed-during-the-scenario".into();
                }
                _ => {}
            }
        }
    }
    let mut cuts: Vec<(u64, usize)> = Vec::new(); // (time, node) of connections cut by the mock
    for (i, e) in trace.iter().enumerate() {
        if let Ev::Close { by: CloseBy::MockRst | CloseBy::MockFin } = &e.ev {
            cuts.push((tmono[i], e.node));
        }
    }
    let mut frames: HashMap<(u64, usize), Vec<TrFrame>> = HashMap::new();
    for (k, fr) in g.frames.iter().enumerate() {
        let (i, conn, stream, m, p) = ins[k];
        if conn != fr.conn_id || stream != fr.stream || m != fr.marker || p != fr.page {
            return format!("error trace-mismatch frame {}", k);
        }
        let mut b = None;
        let mut ans = "-".to_string();
        for (j, e) in trace.iter().enumerate().skip(i + 1) {
            if e.conn_id != conn {
                continue;
            }
            match &e.ev {
                Ev::Out { stream: s, opcode, .. } if *s == stream => {
                    b = Some(tmono[j]);
                    ans = match (&fr.reply, *opcode) {
                        (Reply::Ok, op::RESULT) => "ok".into(),
                        (Reply::Err(t), op::ERROR) => format!("X{}", t),
                        (Reply::Unprepared, op::ERROR) => "XDb.Unprepared".into(),
                        (Reply::BadError, op::ERROR) => "XE.CqlErrorParseError".into(),
                        _ => "?".into(),
                    };
                    break;
                }
                Ev::Close { by } => {
                    if matches!(by, CloseBy::MockRst | CloseBy::MockFin) {
                        b = Some(tmono[j]);
                        ans = "drop".into();
                    }
                    break;
                }
                _ => {}
            }
        }
        frames.entry((m, p)).or_default().push(TrFrame { shard: trace[i].shard, conn, idx: i, node: fr.node, cl: fr.cl, a: tmono[i], b, ans });
    }
    drop(g);
    // EXECUTE -> UNPREPARED -> PREPARE -> EXECUTE on the same connection is ONE attempt of the driver
    // (Connection::execute re-prepares and repeats inside the attempt): merge the two frames
    let mut reprepares = 0usize;
    for v in frames.values_mut() {
        let mut k = 0;
        while k < v.len() {
            // the next frame of this (marker, page) on the same connection (frames of other fibers may
            // lie in between)
            let next = (k + 1..v.len()).find(|&j| v[j].conn == v[k].conn);
            let merged = match next {
                Some(j) if v[k].ans == "XDb.Unprepared"
                    && v[k].b.is_some_and(|b| b <= v[j].a)
                    && trace[v[k].idx..v[j].idx].iter().any(|e| e.conn_id == v[k].conn && e.is_in(op::PREPARE)) =>
                {
                    let second = v.remove(j);
                    v[k].b = second.b;
                    v[k].ans = second.ans;
                    v[k].cl = second.cl;
                    v[k].shard = second.shard;
                    reprepares += 1;
                    true
                }
                _ => false,
            };
            if !merged {
                k += 1;
            }
        }
    }
    let mut out: Vec<String> = vec![format!("env:{}:rp{}:sh{}", sc.nnodes, reprepares, sc.shards)];
    for (i, ro) in robs.iter().enumerate() {
        let req = &sc.reqs[i];
        let mut pages: Vec<(usize, Option<u64>, u64, String, Option<usize>)> = ro.pages.iter().map(|p| (p.page, p.t0, p.tret, p.res.clone(), p.co)).collect();
        // pager: the stream ended.  If the page it ended on was requested (frames exist) the page's
        // result is `end` (nothing delivered); otherwise that entry is only the end of the stream.
        if let Some(lastp) = pages.last() {
            if lastp.3 == "end" && !frames.contains_key(&(ro.marker, lastp.0)) {
                pages.pop();
            }
        }
        for (page, t0, tret, res, co) in pages {
            let fr = frames.remove(&(ro.marker, page)).unwrap_or_default();
            // pages after the first one of a pager start after the previous page's first success answer
            let t0 = match t0 {
                Some(t) => t,
                None => {
                    let prev = out.last().map(|s| s.as_str()).unwrap_or("");
                    prev_first_ok(prev).unwrap_or(0)
                }
            };
            let down: Vec<String> = {
                let mut d: Vec<usize> = cuts.iter().filter(|c| c.0 <= tret).map(|c| c.1).collect();
                d.sort();
                d.dedup();
                d.iter().map(|n| format!("{:x}", n)).collect()
            };
            let frs: Vec<String> = fr
                .iter()
                .map(|f| {
                    format!(
                        "{:x}/{}/{:x}/{}/{}/{:x}",
                        f.node,
                        cl_name_of_code(f.cl),
                        f.a,
                        f.b.map(|b| format!("{:x}", b)).unwrap_or("-".into()),
                        f.ans,
                        f.shard
                    )
                })
                .collect();
            out.push(format!(
                "R;api={};idem={};pol={};spec={};cl={};n={:x};down={};pg={:x};t0={:x};tr={:x};mg={:x};sm={:x};to={};res={};co={};fr={}",
                req.api.tag(),
                req.idem as u8,
                POLICIES[ro.cfg.pol],
                ro.cfg.spec.map(|(m, iv)| format!("{:x}:{:x}", m, iv)).unwrap_or("-".into()),
                cl_name(ro.cfg.cl),
                sc.nnodes,
                if down.is_empty() { "-".to_string() } else { down.join(",") },
                page,
                t0,
                tret,
                MARGIN_US + 3 * ro.jitter_us,
                SMALL_MARGIN_US + 3 * ro.jitter_us,
                req.timeout_ms.map(|t| format!("{:x}", t)).unwrap_or("-".into()),
                res,
                co.map(|n| format!("{:x}", n)).unwrap_or("-".into()),
                if frs.is_empty() { "-".to_string() } else { frs.join(",") }
            ));
        }
        // frames of pages the caller never got a result for (e.g. a page fetched in the background
        // after the consumer stopped) would be dropped silently: report them
        let leftover: Vec<usize> = frames.keys().filter(|k| k.0 == ro.marker).map(|k| k.1).collect();
        if !leftover.is_empty() {
            return format!("error frames-without-result marker={} pages={:?}", ro.marker, leftover).replace(' ', "_");
        }
    }
    if debug {
        eprintln!("scenario {:x}: {}", sseed, out.join("\n   "));
    }
    out.join(" ")
}

/// earliest success answer time among the frames of a record line
fn prev_first_ok(rec: &str) -> Option<u64> {
    let fr = rec.split(';').find_map(|f| f.strip_prefix("fr="))?;
    fr.split(',')
        .filter_map(|f| {
            let p: Vec<&str> = f.split('/').collect();
            if p.len() >= 5 && p[4] == "ok" { u64::from_str_radix(p[3], 16).ok() } else { None }
        })
        .min()
}

/// Runs the scenarios on `par` threads, each scenario on its own single-threaded runtime (mock and
/// driver share the thread, so a descheduled thread stalls both and the watchdog sees it).
fn run_many(mix: Mix, seeds: Vec<u64>, thorough: bool, out: &mut Out) {
    let par: usize = std::env::var("E2E_PAR").ok().and_then(|s| s.parse().ok()).unwrap_or(4);
    let n = seeds.len();
    let seeds = Arc::new(seeds);
    let next = Arc::new(AtomicUsize::new(0));
    let results: Arc<Mutex<Vec<Option<String>>>> = Arc::new(Mutex::new(vec![None; n]));
    let mut hs = Vec::new();
    for _ in 0..par.min(n.max(1)) {
        let (seeds, next, results) = (seeds.clone(), next.clone(), results.clone());
        hs.push(std::thread::spawn(move || {
            loop {
                let i = next.fetch_add(1, Ordering::SeqCst);
                if i >= seeds.len() {
                    break;
                }
                let s = seeds[i];
                let o = std::panic::catch_unwind(|| {
                    let rt = tokio::runtime::Builder::new_current_thread().enable_all().build().unwrap();
                    let o = rt.block_on(run_scenario(mix, s, thorough));
                    rt.shutdown_timeout(Duration::from_millis(200));
                    o
                })
                .unwrap_or_else(|_| "error panic".into());
                results.lock().unwrap()[i] = Some(o);
            }
        }));
    }
    for h in hs {
        let _ = h.join();
    }
    let tag = if thorough { "t" } else { "q" };
    let res = results.lock().unwrap();
    for (i, s) in seeds.iter().enumerate() {
        out.case(&format!("{} {:x} {}", mix.kind(), s, tag), res[i].as_deref().unwrap_or("error no-result"));
    }
}

/// `n` scenarios: the fixed shapes first, then seeded ones.
pub fn run(mix: Mix, seed: u64, n: u64, tier: &str, out: &mut Out) {
    let mut r = Rng::new(seed.wrapping_mul(0x9E37_79B9) ^ 0xE2E6_13);
    let mut seeds: Vec<u64> = (0..SHAPES.min(n)).collect();
    while (seeds.len() as u64) < n {
        seeds.push(SHAPES + (r.u64() >> 20));
    }
    run_many(mix, seeds, tier == "thorough", out);
}

pub fn is_e2e_case(case: &str) -> bool {
    case.starts_with("E6 ") || case.starts_with("E13 ")
}

pub fn replay_case(case: &str, out: &mut Out) {
    let f: Vec<&str> = case.split_whitespace().collect();
    if f.len() == 3 {
        let mix = match f[0] {
            "E6" => Some(Mix::C06),
            "E13" => Some(Mix::C13),
            _ => None,
        };
        if let (Some(mix), Ok(s)) = (mix, u64::from_str_radix(f[1], 16)) {
            run_many(mix, vec![s], f[2] == "t", out);
            return;
        }
    }
    out.case(case, "error unknown-case");
}
