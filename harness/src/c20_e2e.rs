//! C20 end-to-end part (stub while the scenario driver is being written).
use vh::Out;
pub fn run(_seed: u64, _n: u64, _tier: &str, _out: &mut Out) {}
pub fn replay_case(_case: &str, _out: &mut Out) {}
