//! C20 end-to-end part: a real `Session` against `vh::mocknode`.
//!
//! One case = one scenario, fully determined by its seed and tier:  `E <scenario seed> <q|t>`.
//! A scenario interleaves `Session::use_keyspace` calls (valid / unknown / invalid names, with
//! delayed, refused, unanswered or connection-cutting USE answers) with bursts of marked requests,
//! forced connection loss (pool refill + keyspace setup on the new connections), and node addition.
//! The mock's handler records, in ONE global order shared with the client side, for every marked
//! request frame the keyspace the server had acknowledged on that connection at arrival, and every
//! USE statement text it received.
//!
//! observation (after '|'):  <k0> <events> <calls> <texts> <stats>
//!   events  C:<u>:<name>:<cs> ; R:<u>:<0|1> ; S:<q> ; F:<q>:<acked|none>      ('-' if none)
//!   calls   <name>:<cs>;..     every (name, flag) handed to use_keyspace         ('-' if none)
//!   texts   <text>;..          distinct USE statement texts seen by the mock    ('-' if none)
//!   stats   ok=<successful uses>,fr=<frames>,strict=<frames after a successful use>,cn=<connections>,nd=<nodes>,
//!           slow=<requests abandoned after 3 s>,op=<connections the mock accepted during the scenario>
//! or, when the session could not be built because the machine is out of loopback ports:  skip-env <reason>
use crate::{dec_name, enc_name};
use scylla::client::PoolSize;
use scylla::client::session::Session;
use scylla::client::session_builder::SessionBuilder;
use std::collections::BTreeSet;
use std::num::NonZeroUsize;
use std::sync::atomic::{AtomicU64, Ordering};
use std::sync::{Arc, Mutex};
use std::time::Duration;
use vh::mocknode::*;
use vh::{Out, Rng};

#[derive(Clone, Copy, Debug, PartialEq)]
enum UseFault {
    None,
    /// every USE answer is delayed by 0..=ms
    Delay(u64),
    /// the next `n` USE statements are refused (Invalid)
    Refuse(u32),
    /// the next `n` USE statements are never answered
    Silent(u32),
    /// the next `n` USE statements cut their connection
    Cut(u32),
}

struct Shared {
    events: Mutex<Vec<String>>,
    texts: Mutex<BTreeSet<String>>,
    fault: Mutex<(UseFault, Rng)>,
    frames: AtomicU64,
}

fn marker(q: u64) -> String {
    format!("SELECT v FROM t WHERE q = {}", q)
}
fn parse_marker(text: &str) -> Option<u64> {
    text.strip_prefix("SELECT v FROM t WHERE q = ")?.trim().parse().ok()
}

fn handler(sh: Arc<Shared>) -> Handler {
    Arc::new(move |ctx: &ReqCtx| {
        if ctx.opcode != op::QUERY {
            return None;
        }
        let text = ctx.text.as_deref()?;
        if text.len() >= 4 && text[..4].eq_ignore_ascii_case("USE ") {
            sh.texts.lock().unwrap().insert(text.to_string());
            let mut f = sh.fault.lock().unwrap();
            let (fault, rng) = &mut *f;
            return match *fault {
                UseFault::None => None,
                UseFault::Delay(ms) => Some(vec![Action::Delay(rng.range(0, ms)), Action::Default]),
                UseFault::Refuse(n) => {
                    *fault = if n > 1 { UseFault::Refuse(n - 1) } else { UseFault::None };
                    Some(vec![Action::Error(ErrorSpec::new(DbErr::Invalid, "scripted refusal"))])
                }
                UseFault::Silent(n) => {
                    *fault = if n > 1 { UseFault::Silent(n - 1) } else { UseFault::None };
                    Some(vec![Action::NoReply])
                }
                UseFault::Cut(n) => {
                    *fault = if n > 1 { UseFault::Cut(n - 1) } else { UseFault::None };
                    Some(vec![Action::Close(CutKind::Rst)])
                }
            };
        }
        if let Some(q) = parse_marker(text) {
            let acked = match &ctx.keyspace {
                Some(k) => enc_name(k),
                None => "none".to_string(),
            };
            sh.events.lock().unwrap().push(format!("F:{:x}:{}", q, acked));
            sh.frames.fetch_add(1, Ordering::Relaxed);
        }
        None
    })
}

#[derive(Clone, Debug)]
enum Op {
    /// use_keyspace(name, cs) with a fault mode, `reqs` marked requests racing with it, and optionally
    /// a connection kill racing with it
    Use { name: String, cs: bool, fault: UseFault, reqs: u32, kill: Option<usize> },
    /// two use_keyspace calls at the same time (same name: supported; different names: documented as
    /// unsupported, the acceptor then only demands one of the two)
    Use2 { a: (String, bool), b: (String, bool) },
    Reqs { n: u32, concurrent: bool },
    Kill { node: usize, rst: bool },
    CloseOne,
    AddNode,
    Sleep(u64),
}

const KEYSPACES: [&str; 4] = ["ks_a", "ks_b", "Ks_C", "k9"];

fn gen_name(r: &mut Rng) -> (String, bool) {
    match r.below(20) {
        0..=3 => ("ks_a".into(), false),
        4 | 5 => ("ks_b".into(), r.bool()),
        6 => ("KS_A".into(), false),          // unquoted: the server lower-cases
        7 | 8 => ("Ks_C".into(), true),       // needs the quotes
        9 => ("k9".into(), r.bool()),
        10 => ("Ks_C".into(), false),         // lower-cased to ks_c, which does not exist
        11 => ("KS_A".into(), true),          // quoted: no such keyspace
        12 => ("nope".into(), r.bool()),
        13 => (String::new(), false),
        14 => ("ks_a;drop".into(), false),
        15 => ("\"ks_a\"".into(), r.bool()),
        16 => ("k".repeat(49), false),
        17 => ("ks a".into(), true),
        _ => ("ks_b".into(), false),
    }
}
fn gen_fault(r: &mut Rng) -> UseFault {
    match r.below(12) {
        0..=5 => UseFault::None,
        6 | 7 => UseFault::Delay(r.range(1, 25)),
        8 => UseFault::Refuse(r.range(1, 2) as u32),
        9 => UseFault::Silent(1),
        _ => UseFault::Cut(r.range(1, 2) as u32),
    }
}
fn gen_ops(r: &mut Rng, nodes: usize, thorough: bool) -> Vec<Op> {
    let len = r.range(5, if thorough { 16 } else { 11 });
    let mut ops = Vec::new();
    if r.chance(1, 3) {
        ops.push(Op::Reqs { n: r.range(2, 8) as u32, concurrent: r.bool() });
    }
    for _ in 0..len {
        let op = match r.below(16) {
            0..=4 => {
                let (name, cs) = gen_name(r);
                Op::Use {
                    name,
                    cs,
                    fault: gen_fault(r),
                    reqs: if r.bool() { r.range(2, 10) as u32 } else { 0 },
                    kill: if r.chance(1, 4) { Some(r.below(nodes as u64) as usize) } else { None },
                }
            }
            5 => {
                let a = gen_name(r);
                let b = if r.bool() { a.clone() } else { gen_name(r) };
                Op::Use2 { a, b }
            }
            6..=9 => Op::Reqs { n: r.range(4, 24) as u32, concurrent: r.bool() },
            10 | 11 => Op::Kill { node: r.below(nodes as u64) as usize, rst: r.bool() },
            12 => Op::CloseOne,
            13 => Op::AddNode,
            _ => Op::Sleep(r.range(1, 90)),
        };
        ops.push(op);
    }
    // always end with: a clean use, racing requests, a refill, and requests afterwards
    ops.push(Op::Use { name: (*r.pick(&["ks_a", "ks_b", "k9"])).into(), cs: false, fault: UseFault::None, reqs: 4, kill: None });
    ops.push(Op::Kill { node: r.below(nodes as u64) as usize, rst: true });
    ops.push(Op::Reqs { n: 12, concurrent: true });
    ops.push(Op::Sleep(70));
    ops.push(Op::Reqs { n: 16, concurrent: r.bool() });
    ops
}

struct Ctx {
    sh: Arc<Shared>,
    session: Arc<Session>,
    next_q: AtomicU64,
    next_u: AtomicU64,
    calls: Mutex<Vec<(String, bool)>>,
    ok_uses: AtomicU64,
    slow: AtomicU64,
    hang: Mutex<Option<String>>,
}

impl Ctx {
    async fn request(self: &Arc<Self>) {
        let q = self.next_q.fetch_add(1, Ordering::Relaxed);
        self.sh.events.lock().unwrap().push(format!("S:{:x}", q));
        // A request that does not come back within the cap is abandoned and counted (`slow=`): whether
        // requests caught by a dying connection fail promptly is property C10, not C20.
        let lim: u64 = std::env::var("C20_REQ_LIMIT_MS").ok().and_then(|s| s.parse().ok()).unwrap_or(3000);
        if tokio::time::timeout(Duration::from_millis(lim), self.session.query_unpaged(marker(q), ())).await.is_err() {
            self.slow.fetch_add(1, Ordering::Relaxed);
            if std::env::var("C20_DEBUG").is_ok() {
                eprintln!("SLOW request {} abandoned", q);
            }
        }
    }
    async fn requests(self: &Arc<Self>, n: u32, concurrent: bool) {
        if concurrent {
            let hs: Vec<_> = (0..n)
                .map(|_| {
                    let me = self.clone();
                    tokio::spawn(async move { me.request().await })
                })
                .collect();
            for h in hs {
                let _ = h.await;
            }
        } else {
            for _ in 0..n {
                self.request().await;
            }
        }
    }
    async fn use_keyspace(self: &Arc<Self>, name: &str, cs: bool) {
        self.calls.lock().unwrap().push((name.to_string(), cs));
        // the call is an event of the trace only when the name is valid (otherwise nothing may be
        // sent at all: that is checked through `texts`)
        let valid = !name.is_empty() && name.chars().count() <= 48 && name.chars().all(|c| c.is_ascii_alphanumeric() || c == '_');
        let u = self.next_u.fetch_add(1, Ordering::Relaxed);
        if valid {
            self.sh.events.lock().unwrap().push(format!("C:{:x}:{}:{}", u, enc_name(name), cs as u8));
        }
        let res = tokio::time::timeout(Duration::from_secs(20), self.session.use_keyspace(name.to_string(), cs)).await;
        let ok = match res {
            Ok(r) => r.is_ok(),
            Err(_) => {
                *self.hang.lock().unwrap() = Some(format!("use_keyspace {:?} did not return", name));
                false
            }
        };
        if valid {
            self.sh.events.lock().unwrap().push(format!("R:{:x}:{}", u, ok as u8));
            if ok {
                self.ok_uses.fetch_add(1, Ordering::Relaxed);
            }
        } else if ok {
            *self.hang.lock().unwrap() = Some(format!("use_keyspace accepted the invalid name {:?}", name));
        }
    }
}

pub async fn run_scenario(sseed: u64, thorough: bool) -> String {
    let mut r = Rng::new(sseed ^ 0xC20C_20C2_0C20);
    let nodes0 = r.range(1, 3) as usize;
    let shards: u16 = *r.pick(&[0u16, 1, 2, 3]);
    let per: usize = r.range(1, 2) as usize;
    let pool = if r.bool() { PoolSize::PerShard(NonZeroUsize::new(per).unwrap()) } else { PoolSize::PerHost(NonZeroUsize::new(per + 1).unwrap()) };
    let mut spec = ClusterSpec::uniform("c20", &[("dc1", nodes0)], 1, 4, shards);
    for k in KEYSPACES {
        spec = spec.with_keyspace(KeyspaceDef::simple(k, 1));
    }
    let cluster = match MockCluster::start(spec).await {
        Ok(c) => Arc::new(c),
        Err(e) => return format!("error mock-start {:?}", e),
    };
    let sh = Arc::new(Shared {
        events: Mutex::new(Vec::new()),
        texts: Mutex::new(BTreeSet::new()),
        fault: Mutex::new((UseFault::None, Rng::new(sseed.wrapping_mul(31) + 7))),
        frames: AtomicU64::new(0),
    });
    cluster.set_handler(Some(handler(sh.clone())));
    let mut b = SessionBuilder::new()
        .known_node_addr(cluster.contact_point(0))
        .connection_timeout(Duration::from_millis(400))
        .pool_size(pool);
    if r.chance(1, 4) {
        b = b.disallow_shard_aware_port(true);
    }
    // sometimes the keyspace is given to the builder: Session::connect then calls use_keyspace itself
    let builder_ks = if r.chance(1, 5) { Some(*r.pick(&["ks_a", "ks_b"])) } else { None };
    if let Some(k) = builder_ks {
        // the builder's call is not bracketed by our events; to keep the trace sound it is recorded
        // as a call that started before everything and returned when build() returned
        sh.events.lock().unwrap().push(format!("C:{:x}:{}:0", 0xffffu64, enc_name(k)));
        b = b.use_keyspace(k, false);
    }
    // The scenario can only be judged if the session comes up. Building it may fail for a reason that
    // has nothing to do with the driver: the machine ran out of ephemeral ports on 127.0.0.1 (EADDRINUSE,
    // os error 98; thousands of short-lived loopback connections in TIME-WAIT). That case - and only that
    // case - is reported as `skip-env` (counted and capped by checks/c20.py), after three retries.
    let mut attempt = 0;
    let session = loop {
        attempt += 1;
        match tokio::time::timeout(Duration::from_secs(20), b.clone().build()).await {
            Ok(Ok(s)) => break Arc::new(s),
            Ok(Err(e)) => {
                let msg = format!("{:?}", e);
                if msg.contains("AddrInUse") {
                    if attempt < 4 {
                        tokio::time::sleep(Duration::from_millis(700 * attempt)).await;
                        continue;
                    }
                    cluster.shutdown();
                    return "skip-env session-build-EADDRINUSE".into();
                }
                cluster.shutdown();
                return format!("error session {}", msg).replace(' ', "_");
            }
            Err(_) => {
                cluster.shutdown();
                return "error session-timeout".into();
            }
        }
    };
    if builder_ks.is_some() {
        sh.events.lock().unwrap().push(format!("R:{:x}:1", 0xffffu64));
    }
    let cx = Arc::new(Ctx {
        sh: sh.clone(),
        session,
        next_q: AtomicU64::new(0),
        next_u: AtomicU64::new(0),
        calls: Mutex::new(builder_ks.map(|k| (k.to_string(), false)).into_iter().collect()),
        ok_uses: AtomicU64::new(builder_ks.is_some() as u64),
        slow: AtomicU64::new(0),
        hang: Mutex::new(None),
    });
    let mut nodes = nodes0;
    let ops = gen_ops(&mut r, nodes0, thorough);
    for op in ops {
        match op {
            Op::Use { name, cs, fault, reqs, kill } => {
                sh.fault.lock().unwrap().0 = fault;
                let racing = {
                    let me = cx.clone();
                    tokio::spawn(async move {
                        if reqs > 0 {
                            me.requests(reqs, true).await
                        }
                    })
                };
                let killer = {
                    let c = cluster.clone();
                    let d = r.range(0, 3);
                    tokio::spawn(async move {
                        if let Some(n) = kill {
                            tokio::time::sleep(Duration::from_millis(d)).await;
                            c.kill_connections(n, CutKind::Rst);
                        }
                    })
                };
                cx.use_keyspace(&name, cs).await;
                let _ = racing.await;
                let _ = killer.await;
                sh.fault.lock().unwrap().0 = UseFault::None;
            }
            Op::Use2 { a, b } => {
                let (m1, m2) = (cx.clone(), cx.clone());
                let h1 = tokio::spawn(async move { m1.use_keyspace(&a.0, a.1).await });
                let h2 = tokio::spawn(async move { m2.use_keyspace(&b.0, b.1).await });
                let _ = h1.await;
                let _ = h2.await;
            }
            Op::Reqs { n, concurrent } => cx.requests(n, concurrent).await,
            Op::Kill { node, rst } => {
                cluster.kill_connections(node.min(nodes - 1), if rst { CutKind::Rst } else { CutKind::Fin });
            }
            Op::CloseOne => {
                let cs: Vec<ConnInfo> = cluster.connections(None).into_iter().filter(|c| c.registered.is_empty()).collect();
                if !cs.is_empty() {
                    let c = &cs[r.below(cs.len() as u64) as usize];
                    cluster.close_connection(c.node, c.conn_id, CutKind::Rst);
                }
            }
            Op::AddNode => {
                if nodes < 5 {
                    let idx = nodes;
                    let tokens: Vec<i64> = (0..4).map(|t| (idx as i64) * 1_000_003 + t * 7_919_000_000_007).collect();
                    if cluster.add_node(NodeSpec::new(idx, "dc1", "r1", tokens, shards)).await.is_ok() {
                        nodes += 1;
                        let _ = tokio::time::timeout(Duration::from_secs(20), cx.session.refresh_metadata()).await;
                    }
                }
            }
            Op::Sleep(ms) => tokio::time::sleep(Duration::from_millis(ms)).await,
        }
        if cx.hang.lock().unwrap().is_some() {
            break;
        }
    }
    let conns = cluster.connections(None).len();
    let opened = cluster.trace_snapshot().iter().filter(|e| matches!(e.ev, Ev::Open { .. })).count();
    let hang = cx.hang.lock().unwrap().clone();
    if hang.is_some() && std::env::var("C20_DEBUG").is_ok() {
        eprintln!("=== scenario {:x}: {:?}", sseed, hang);
        eprintln!("live connections: {:?}", cluster.connections(None));
        for e in cluster.trace_snapshot() {
            match &e.ev {
                Ev::In { stream, opcode, body, .. } => {
                    let t = if *opcode == op::QUERY { wire::decode_query(body).map(|q| q.text).unwrap_or_default() } else { String::new() };
                    eprintln!("{:>10} n{} c{} IN  s{} {} {}", e.t_ns / 1000, e.node, e.conn_id, stream, op::name(*opcode), t)
                }
                Ev::Out { stream, opcode, written, .. } => eprintln!("{:>10} n{} c{} OUT s{} {} w{}", e.t_ns / 1000, e.node, e.conn_id, stream, op::name(*opcode), written),
                other => eprintln!("{:>10} n{} c{} {:?}", e.t_ns / 1000, e.node, e.conn_id, other),
            }
        }
        eprintln!("events: {:?}", sh.events.lock().unwrap());
    }
    let events = sh.events.lock().unwrap().clone();
    let texts: Vec<String> = sh.texts.lock().unwrap().iter().cloned().collect();
    let calls = cx.calls.lock().unwrap().clone();
    let ok_uses = cx.ok_uses.load(Ordering::Relaxed);
    let slow = cx.slow.load(Ordering::Relaxed);
    cluster.set_handler(None);
    drop(cx);
    cluster.shutdown();
    if let Some(h) = hang {
        return format!("error {}", h.replace(' ', "_"));
    }
    // strict frames: frames of requests started after a successful return with no call since
    let mut strict = 0u64;
    {
        let mut clean_ok = false;
        let mut started_clean: BTreeSet<String> = BTreeSet::new();
        for e in &events {
            let f: Vec<&str> = e.split(':').collect();
            match f[0] {
                "C" => {
                    clean_ok = false;
                    started_clean.clear();
                }
                "R" => clean_ok = f[2] == "1",
                "S" if clean_ok => {
                    started_clean.insert(f[1].to_string());
                }
                "F" if started_clean.contains(f[1]) => strict += 1,
                _ => {}
            }
        }
    }
    let join = |v: Vec<String>| if v.is_empty() { "-".to_string() } else { v.join(";") };
    format!(
        "none {} {} {} ok={},fr={},strict={},cn={},nd={},slow={},op={}",
        join(events),
        join(calls.iter().map(|(n, c)| format!("{}:{}", enc_name(n), *c as u8)).collect()),
        join(texts.iter().map(|t| enc_name(t)).collect()),
        ok_uses,
        sh.frames.load(Ordering::Relaxed),
        strict,
        conns,
        nodes,
        slow,
        opened
    )
}

fn run_many(seeds: Vec<u64>, thorough: bool, out: &mut Out) {
    let tag = if thorough { "t" } else { "q" };
    // Loopback ports are a shared, slowly replenished resource (TIME-WAIT 60 s, ~28 k ephemeral ports,
    // every client connection leaves from 127.0.0.1): keep the connection rate modest.
    let par: usize = std::env::var("C20_PAR").ok().and_then(|s| s.parse().ok()).unwrap_or(if thorough { 4 } else { 8 });
    let rt = tokio::runtime::Builder::new_multi_thread().worker_threads(8).enable_all().build().unwrap();
    let results: Vec<(u64, String)> = rt.block_on(async move {
        use futures::stream::{self, StreamExt};
        stream::iter(seeds.into_iter().map(|s| async move {
            let h = tokio::spawn(run_scenario(s, thorough));
            let o = match h.await {
                Ok(o) => o,
                Err(e) => format!("error panic {}", e).replace(' ', "_"),
            };
            (s, o)
        }))
        .buffered(par)
        .collect()
        .await
    });
    for (s, o) in results {
        out.case(&format!("E {:x} {}", s, tag), &o);
    }
}

pub fn run(seed: u64, n: u64, tier: &str, out: &mut Out) {
    let mut r = Rng::new(seed.wrapping_mul(0x9E37_79B9) ^ 0xE2E);
    let seeds: Vec<u64> = (0..n).map(|_| r.u64() >> 16).collect();
    run_many(seeds, tier == "thorough", out);
}

pub fn replay_case(case: &str, out: &mut Out) {
    let f: Vec<&str> = case.split_whitespace().collect();
    if f.len() == 3 && f[0] == "E" {
        if let Ok(s) = u64::from_str_radix(f[1], 16) {
            run_many(vec![s], f[2] == "t", out);
            return;
        }
    }
    out.case(case, "error unknown-case");
}

#[allow(dead_code)]
fn _unused() {
    let _ = dec_name("-");
}
