//! C20 end-to-end part: a real `Session` against `vh::mocknode`.
//!
//! One case = one scenario, fully determined by its seed and tier:  `E <scenario seed> <q|t>`.
//! A scenario interleaves `Session::use_keyspace` calls (valid / unknown / invalid names, with
//! delayed, refused, unanswered or connection-cutting USE answers) with bursts of marked requests,
//! forced connection loss (pool refill + keyspace setup on the new connections), and node addition.
//! The mock's handler records, in ONE global order shared with the client side, for every marked
//! request frame the keyspace the server had acknowledged on that connection at arrival, and every
//! USE statement text it received.
//!
//! observation (after '|'):  <k0> <events> <calls> <texts> <stats>
//!   events  C:<u>:<name>:<cs> ; R:<u>:<0|1>:<highest live connection id> ; S:<q> ;
//!           F:<q>:<acked|none>:<connection id>                                  ('-' if none)
//!           "acked" = mocknode's record (ReqCtx.keyspace): keyspace of the last SetKeyspace answer completely
//!           WRITTEN on that connection when the frame is handled; a request overtaking a delayed
//!           acknowledgement is seen in the old keyspace. The handler's own record (delayed answer applied when
//!           its delay elapsed) is kept as a cross-check (xck=)
//!   calls   <name>:<cs>;..     every (name, flag) handed to use_keyspace         ('-' if none)
//!   texts   <text>;..          distinct USE statement texts seen by the mock    ('-' if none)
//!   stats   ok=<successful uses>,fr=<frames>,strict=<frames of requests started while a keyspace was established
//!           by an undisturbed successful call>,late=<those on connections the mock registered after that call returned>,
//!           pre=<prepared-statement frames>,bat=<BATCH frames>,pag=<paged QUERY frames>,rst=<node stop+start that came back>,rsh=<reshards>,dly=<USE answers delayed>,early=<frames that overtook a delayed answer>,
//!           cn=,nd=,slow=<requests abandoned after 3 s>,op=<connections accepted>,xck=<frames where the handler's
//!           record and mocknode's disagree>
//! other observations:  not-run <reason> (environment: no session, mock did not start, use_keyspace exceeded the
//! harness cap, or the mock wrote two SetKeyspace answers of one connection in another order than the USEs arrived -
//! nothing is judged; counted and capped by checks/c20.py);  invalid-accepted <name>
use crate::{dec_name, enc_name};
use scylla::client::PoolSize;
use scylla::client::session::Session;
use scylla::client::session_builder::SessionBuilder;
use std::collections::{BTreeSet, HashMap};
use std::num::NonZeroUsize;
use std::sync::atomic::{AtomicU64, Ordering};
use std::sync::{Arc, Mutex};
use std::time::{Duration, Instant};
use vh::mocknode::*;
use vh::{Out, Rng};

#[derive(Clone, Copy, Debug, PartialEq)]
enum UseFault {
    None,
    /// every USE answer is delayed by 0..=ms
    Delay(u64),
    /// the next `n` USE statements are refused (Invalid)
    Refuse(u32),
    /// the next `n` USE statements are never answered
    Silent(u32),
    /// the next `n` USE statements cut their connection
    Cut(u32),
}

#[derive(Default)]
struct ConnAck {
    cur: Option<String>,
    /// delayed SetKeyspace answers: (instant the answer is written, keyspace)
    pending: Vec<(Instant, String)>,
    /// USE statements seen on this connection (debugging aid)
    hist: Vec<String>,
    /// some request was already handled on this connection
    seen: bool,
    /// deadline of the delayed answer applied last
    last_applied: Option<Instant>,
}
impl ConnAck {
    fn apply_due(&mut self, now: Instant) {
        self.pending.sort_by_key(|p| p.0);
        while !self.pending.is_empty() && self.pending[0].0 <= now {
            let (t, k) = self.pending.remove(0);
            self.cur = Some(k);
            self.last_applied = Some(t);
        }
    }
}

struct Shared {
    events: Mutex<Vec<String>>,
    texts: Mutex<BTreeSet<String>>,
    fault: Mutex<(UseFault, Rng)>,
    acks: Mutex<HashMap<u64, ConnAck>>,
    frames: AtomicU64,
    prepared_frames: AtomicU64,
    batch_frames: AtomicU64,
    paged_frames: AtomicU64,
    delayed: AtomicU64,
    early: AtomicU64,
    xck: AtomicU64,
}

const PREP_TEXT: &str = "SELECT v FROM t WHERE p = ?";

/// the keyspace a `USE` statement selects on the mock (None: the mock refuses it)
fn use_target(text: &str) -> Option<String> {
    let raw = text[4..].trim().trim_end_matches(';').trim();
    let ks = if raw.len() >= 2 && raw.starts_with('"') && raw.ends_with('"') { raw[1..raw.len() - 1].to_string() } else { raw.to_ascii_lowercase() };
    if KEYSPACES.contains(&ks.as_str()) || ks == "system" || ks == "system_schema" { Some(ks) } else { None }
}

fn marker(q: u64) -> String {
    format!("SELECT v FROM t WHERE q = {}", q)
}
fn parse_marker(text: &str) -> Option<u64> {
    text.strip_prefix("SELECT v FROM t WHERE q = ")?.trim().parse().ok()
}

fn handler(sh: Arc<Shared>) -> Handler {
    Arc::new(move |ctx: &ReqCtx| {
        let text = ctx.text.as_deref().unwrap_or("");
        if ctx.opcode == op::QUERY && text.len() >= 4 && text[..4].eq_ignore_ascii_case("USE ") {
            sh.texts.lock().unwrap().insert(text.to_string());
            let target = use_target(text);
            let now = Instant::now();
            let mut f = sh.fault.lock().unwrap();
            let (fault, rng) = &mut *f;
            let mut acks = sh.acks.lock().unwrap();
            let a = acks.entry(ctx.conn_id).or_default();
            a.apply_due(now);
            // A USE that is the first request on its connection is the keyspace SETUP of a new connection
            // (start_setting_keyspace_for_connection, which has no timeout). Never answering it would not
            // only stall that pool's refill for ever: if it is the first connection of a NEW node, the
            // cluster worker waits for that pool inside its metadata arm and no later use_keyspace is served
            // (driver liveness, reported separately; not what C20 states). So `Silent` spares setup USEs.
            let setup = a.hist.is_empty() && !a.seen;
            a.seen = true;
            a.hist.push(format!("{:?}@{:?}:{}", *fault, now, text));
            if setup && matches!(*fault, UseFault::Silent(_)) {
                if let Some(k) = target {
                    a.cur = Some(k);   // first request on the connection: nothing can be pending
                }
                return None;
            }
            // The model assumes that the USE statements of one connection are answered in submission order
            // (one TCP stream, a server that handles them in order). mocknode serves later frames while a
            // delayed reply sleeps, so a USE arriving behind a still-delayed SetKeyspace answer is delayed
            // behind it as well: answers are written in arrival order.
            let mut behind = a.pending.iter().map(|p| p.0).max().map(|t| t.saturating_duration_since(now).as_millis() as u64 + 2);
            // the handler's clock says every delayed answer is due, but mocknode has not written the last
            // one yet (its record lags ours): an immediate answer could overtake it - delay this one a little.
            // (Only a mitigation: whether answers WERE written out of order is decided after the scenario
            // from the mock's trace, see `use_answers_reordered`.)
            if behind.is_none() && a.cur != ctx.keyspace && a.cur.is_some() && a.last_applied.is_some() {
                behind = Some(5);
            }
            return match *fault {
                UseFault::None => match behind {
                    None => {
                        if let Some(k) = target {
                            a.cur = Some(k);
                        }
                        None
                    }
                    Some(b) => {
                        if let Some(k) = target {
                            a.pending.push((now + Duration::from_millis(b), k));
                        }
                        Some(vec![Action::Delay(b), Action::Default])
                    }
                },
                UseFault::Delay(ms) => {
                    let d = rng.range(1, ms.max(1)).max(behind.unwrap_or(0));
                    if let Some(k) = target {
                        a.pending.push((now + Duration::from_millis(d), k));
                        sh.delayed.fetch_add(1, Ordering::Relaxed);
                    }
                    Some(vec![Action::Delay(d), Action::Default])
                }
                UseFault::Refuse(n) => {
                    *fault = if n > 1 { UseFault::Refuse(n - 1) } else { UseFault::None };
                    Some(vec![Action::Error(ErrorSpec::new(DbErr::Invalid, "scripted refusal"))])
                }
                UseFault::Silent(n) => {
                    *fault = if n > 1 { UseFault::Silent(n - 1) } else { UseFault::None };
                    Some(vec![Action::NoReply])
                }
                UseFault::Cut(n) => {
                    *fault = if n > 1 { UseFault::Cut(n - 1) } else { UseFault::None };
                    Some(vec![Action::Close(CutKind::Rst)])
                }
            };
        }
        // marked requests: unprepared QUERY with the marker in the text, or EXECUTE of PREP_TEXT with
        // the marker as its bound bigint
        let q = if ctx.opcode == op::QUERY {
            parse_marker(text)
        } else if ctx.opcode == op::BATCH {
            ctx.batch.as_ref().and_then(|b| b.statements.first()).and_then(|st| match st {
                BatchStmt::Query { text, .. } => parse_marker(text),
                _ => None,
            })
        } else if ctx.opcode == op::EXECUTE && text == PREP_TEXT {
            ctx.params.as_ref().and_then(|p| p.values.first()).and_then(|v| v.as_bytes()).and_then(|b| <[u8; 8]>::try_from(b).ok()).map(u64::from_be_bytes)
        } else {
            None
        };
        if let Some(q) = q {
            let now = Instant::now();
            let mut acks = sh.acks.lock().unwrap();
            let a = acks.entry(ctx.conn_id).or_default();
            a.seen = true;
            a.apply_due(now);
            if !a.pending.is_empty() {
                sh.early.fetch_add(1, Ordering::Relaxed);
            } else if a.cur != ctx.keyspace {
                sh.xck.fetch_add(1, Ordering::Relaxed);
                if std::env::var("C20_DEBUG").is_ok() {
                    eprintln!("XCK conn {} mine {:?} mock {:?} now {:?} hist {:?}", ctx.conn_id, a.cur, ctx.keyspace, now, a.hist);
                }
            }
            // the observation is mocknode's own record (keyspace of the last SetKeyspace answer completely
            // written on this connection); the handler's record above is only a cross-check
            let acked = match &ctx.keyspace {
                Some(k) => enc_name(k),
                None => "none".to_string(),
            };
            sh.events.lock().unwrap().push(format!("F:{:x}:{}:{:x}", q, acked, ctx.conn_id));
            sh.frames.fetch_add(1, Ordering::Relaxed);
            if ctx.opcode == op::EXECUTE {
                sh.prepared_frames.fetch_add(1, Ordering::Relaxed);
            } else if ctx.opcode == op::BATCH {
                sh.batch_frames.fetch_add(1, Ordering::Relaxed);
            } else if ctx.params.as_ref().is_some_and(|p| p.page_size.is_some()) {
                sh.paged_frames.fetch_add(1, Ordering::Relaxed);
            }
        }
        None
    })
}

/// what races with a use_keyspace call
#[derive(Clone, Copy, Debug, PartialEq)]
enum Side {
    None,
    /// all connections of a node are reset
    Kill(usize),
    /// the node stops listening and cuts its connections, then comes back
    Restart(usize),
    /// a node is added and the metadata refreshed (the worker applies it while the fan-out is in progress)
    AddNode,
    /// the node changes its shard count and drops its connections: the pool is rebuilt (maybe_reshard)
    Reshard(usize),
}

#[derive(Clone, Debug)]
enum Op {
    /// use_keyspace(name, cs) with a fault mode, `reqs` marked requests racing with it, and optionally
    /// a connection kill racing with it
    Use { name: String, cs: bool, fault: UseFault, reqs: u32, side: Side },
    /// two use_keyspace calls at the same time (same name: supported; different names: documented as
    /// unsupported, the acceptor then only demands one of the two)
    Use2 { a: (String, bool), b: (String, bool) },
    /// `USE <name>` executed as an ordinary statement: Session::handle_set_keyspace_response then calls
    /// use_keyspace(<name sent by the server>, true) itself
    UseStmt { name: String },
    Reqs { n: u32, concurrent: bool },
    Kill { node: usize, rst: bool },
    Restart { node: usize },
    Reshard { node: usize },
    CloseOne,
    AddNode,
    Sleep(u64),
}

const KEYSPACES: [&str; 4] = ["ks_a", "ks_b", "Ks_C", "k9"];

fn gen_name(r: &mut Rng) -> (String, bool) {
    match r.below(20) {
        0..=3 => ("ks_a".into(), false),
        4 | 5 => ("ks_b".into(), r.bool()),
        6 => ("KS_A".into(), false),          // unquoted: the server lower-cases
        7 | 8 => ("Ks_C".into(), true),       // needs the quotes
        9 => ("k9".into(), r.bool()),
        10 => ("Ks_C".into(), false),         // lower-cased to ks_c, which does not exist
        11 => ("KS_A".into(), true),          // quoted: no such keyspace
        12 => ("nope".into(), r.bool()),
        13 => (String::new(), false),
        14 => ("ks_a;drop".into(), false),
        15 => ("\"ks_a\"".into(), r.bool()),
        16 => ("k".repeat(49), false),
        17 => ("ks a".into(), true),
        _ => ("ks_b".into(), false),
    }
}
fn gen_fault(r: &mut Rng) -> UseFault {
    match r.below(12) {
        0..=3 => UseFault::None,
        4..=7 => UseFault::Delay(r.range(2, 40)),
        8 => UseFault::Refuse(r.range(1, 2) as u32),
        9 => UseFault::Silent(1),
        _ => UseFault::Cut(r.range(1, 2) as u32),
    }
}
fn gen_ops(r: &mut Rng, nodes: usize, thorough: bool) -> Vec<Op> {
    let len = r.range(5, if thorough { 16 } else { 11 });
    let mut ops = Vec::new();
    if r.chance(1, 3) {
        ops.push(Op::Reqs { n: r.range(2, 8) as u32, concurrent: r.bool() });
    }
    for _ in 0..len {
        let op = match r.below(16) {
            0..=4 => {
                let (name, cs) = gen_name(r);
                let fault = gen_fault(r);
                Op::Use {
                    name,
                    cs,
                    fault,
                    // a delayed acknowledgement is only interesting with requests racing against it
                    reqs: if matches!(fault, UseFault::Delay(_)) || r.bool() { r.range(3, 12) as u32 } else { 0 },
                    side: match r.below(10) {
                        0 | 1 => Side::Kill(r.below(nodes as u64) as usize),
                        2 => Side::Restart(r.below(nodes as u64) as usize),
                        3 => Side::AddNode,
                        4 => Side::Reshard(r.below(nodes as u64) as usize),
                        _ => Side::None,
                    },
                }
            }
            5 => {
                let a = gen_name(r);
                let b = if r.bool() { a.clone() } else { gen_name(r) };
                Op::Use2 { a, b }
            }
            6..=8 => Op::Reqs { n: r.range(4, 24) as u32, concurrent: r.bool() },
            9 => Op::UseStmt { name: (*r.pick(&["ks_a", "ks_b", "k9", "KS_A", "nope"])).into() },
            10 => Op::Kill { node: r.below(nodes as u64) as usize, rst: r.bool() },
            11 => if r.bool() { Op::Restart { node: r.below(nodes as u64) as usize } } else { Op::Reshard { node: r.below(nodes as u64) as usize } },
            12 => Op::CloseOne,
            13 => Op::AddNode,
            _ => Op::Sleep(r.range(1, 90)),
        };
        ops.push(op);
    }
    // always end with: a clean use, racing requests, a refill, and requests afterwards
    ops.push(Op::Use { name: (*r.pick(&["ks_a", "ks_b", "k9"])).into(), cs: false, fault: UseFault::None, reqs: 4, side: Side::None });
    ops.push(Op::Kill { node: r.below(nodes as u64) as usize, rst: true });
    ops.push(Op::Reqs { n: 12, concurrent: true });
    ops.push(Op::Sleep(70));
    ops.push(Op::Reqs { n: 16, concurrent: r.bool() });
    ops
}

struct Ctx {
    sh: Arc<Shared>,
    session: Arc<Session>,
    next_q: AtomicU64,
    next_u: AtomicU64,
    calls: Mutex<Vec<(String, bool)>>,
    ok_uses: AtomicU64,
    slow: AtomicU64,
    restarts: AtomicU64,
    /// `not-run <reason>`: the harness gave up (environment / cap), nothing is judged
    hang: Mutex<Option<String>>,
    /// an invalid name that use_keyspace accepted (a violation of the second sentence)
    invalid_accepted: Mutex<Option<String>>,
    cluster: Arc<MockCluster>,
    prepared: Mutex<Option<scylla::statement::prepared::PreparedStatement>>,
    use_prepared: bool,
}

impl Ctx {
    fn max_live_conn(&self) -> u64 {
        self.cluster.connections(None).iter().map(|c| c.conn_id).max().unwrap_or(0)
    }
    async fn request(self: &Arc<Self>) {
        let q = self.next_q.fetch_add(1, Ordering::Relaxed);
        self.sh.events.lock().unwrap().push(format!("S:{:x}", q));
        let lim0: u64 = std::env::var("C20_REQ_LIMIT_MS").ok().and_then(|s| s.parse().ok()).unwrap_or(3000);
        // the "later requests" come in every shape: q mod 6 = 1 a BATCH, 4 a paged QUERY (one page),
        // 2 and 5 EXECUTE of a prepared statement (if preparing worked), otherwise an unpaged QUERY
        if q % 6 == 1 {
            let mut b = scylla::statement::batch::Batch::default();
            b.append_statement(scylla::statement::unprepared::Statement::new(marker(q)));
            if tokio::time::timeout(Duration::from_millis(lim0), self.session.batch(&b, ((),))).await.is_err() {
                self.slow.fetch_add(1, Ordering::Relaxed);
            }
            return;
        }
        if q % 6 == 4 {
            let mut st = scylla::statement::unprepared::Statement::new(marker(q));
            st.set_page_size(7);
            let fut = self.session.query_single_page(st, (), scylla::response::PagingState::start());
            if tokio::time::timeout(Duration::from_millis(lim0), fut).await.is_err() {
                self.slow.fetch_add(1, Ordering::Relaxed);
            }
            return;
        }
        let prep = if self.use_prepared && q % 3 == 2 { self.prepared.lock().unwrap().clone() } else { None };
        if let Some(ps) = prep {
            let lim: u64 = std::env::var("C20_REQ_LIMIT_MS").ok().and_then(|s| s.parse().ok()).unwrap_or(3000);
            if tokio::time::timeout(Duration::from_millis(lim), self.session.execute_unpaged(&ps, (q as i64,))).await.is_err() {
                self.slow.fetch_add(1, Ordering::Relaxed);
            }
            return;
        }
        // A request that does not come back within the cap is abandoned and counted (`slow=`): whether
        // requests caught by a dying connection fail promptly is property C10, not C20.
        let lim: u64 = std::env::var("C20_REQ_LIMIT_MS").ok().and_then(|s| s.parse().ok()).unwrap_or(3000);
        if tokio::time::timeout(Duration::from_millis(lim), self.session.query_unpaged(marker(q), ())).await.is_err() {
            self.slow.fetch_add(1, Ordering::Relaxed);
            if std::env::var("C20_DEBUG").is_ok() {
                eprintln!("SLOW request {} abandoned", q);
            }
        }
    }
    async fn requests(self: &Arc<Self>, n: u32, concurrent: bool) {
        if concurrent {
            let hs: Vec<_> = (0..n)
                .map(|_| {
                    let me = self.clone();
                    tokio::spawn(async move { me.request().await })
                })
                .collect();
            for h in hs {
                let _ = h.await;
            }
        } else {
            for _ in 0..n {
                self.request().await;
            }
        }
    }
    async fn use_keyspace(self: &Arc<Self>, name: &str, cs: bool) {
        self.calls.lock().unwrap().push((name.to_string(), cs));
        // the call is an event of the trace only when the name is valid (otherwise nothing may be
        // sent at all: that is checked through `texts`)
        let valid = !name.is_empty() && name.chars().count() <= 48 && name.chars().all(|c| c.is_ascii_alphanumeric() || c == '_');
        let u = self.next_u.fetch_add(1, Ordering::Relaxed);
        if valid {
            self.sh.events.lock().unwrap().push(format!("C:{:x}:{}:{}", u, enc_name(name), cs as u8));
        }
        let res = tokio::time::timeout(Duration::from_secs(20), self.session.use_keyspace(name.to_string(), cs)).await;
        let ok = match res {
            Ok(r) => r.is_ok(),
            Err(_) => {
                // liveness of use_keyspace is not what C20 states; the harness cap is an environment limit
                *self.hang.lock().unwrap() = Some("use-keyspace-exceeded-20s".into());
                false
            }
        };
        if valid {
            self.sh.events.lock().unwrap().push(format!("R:{:x}:{}:{:x}", u, ok as u8, self.max_live_conn()));
            if ok {
                self.ok_uses.fetch_add(1, Ordering::Relaxed);
            }
        } else if ok {
            *self.invalid_accepted.lock().unwrap() = Some(name.to_string());
        }
    }
    /// `USE <name>` as an ordinary statement; the driver then calls use_keyspace(<server name>, true)
    async fn use_statement(self: &Arc<Self>, name: &str) {
        let server_name = name.to_ascii_lowercase();
        {
            let mut c = self.calls.lock().unwrap();
            c.push((name.to_string(), false));
            c.push((server_name.clone(), true));
        }
        let u = self.next_u.fetch_add(1, Ordering::Relaxed);
        self.sh.events.lock().unwrap().push(format!("C:{:x}:{}:1", u, enc_name(&server_name)));
        let res = tokio::time::timeout(Duration::from_secs(20), self.session.query_unpaged(format!("USE {}", name), ())).await;
        let ok = match res {
            Ok(r) => r.is_ok(),
            Err(_) => {
                *self.hang.lock().unwrap() = Some("use-statement-exceeded-20s".into());
                false
            }
        };
        self.sh.events.lock().unwrap().push(format!("R:{:x}:{}:{:x}", u, ok as u8, self.max_live_conn()));
        if ok {
            self.ok_uses.fetch_add(1, Ordering::Relaxed);
        }
    }
}

/// The model assumes that the USE statements of one connection are answered in arrival order; mocknode serves
/// later frames while a delayed answer sleeps. Decided from the mock's own trace (frames are logged in the order
/// they are read / written, under the trace lock - no clock involved): true iff on some connection two USE
/// statements that were both answered with a completely written RESULT/SetKeyspace were answered in another
/// order than they arrived. Such a scenario is outside the model's declared assumption and is not judged.
fn use_answers_reordered(trace: &[TraceEvent]) -> bool {
    // per connection: outstanding USEs (stream, arrival number), arrival number of the last USE acknowledged
    let mut outstanding: HashMap<u64, Vec<(i16, u64)>> = HashMap::new();
    let mut last_acked: HashMap<u64, u64> = HashMap::new();
    let mut arrival = 0u64;
    for e in trace {
        match &e.ev {
            Ev::In { stream, opcode, body, .. } if *opcode == op::QUERY => {
                if let Ok(q) = wire::decode_query(body) {
                    if q.text.len() >= 4 && q.text[..4].eq_ignore_ascii_case("USE ") {
                        arrival += 1;
                        outstanding.entry(e.conn_id).or_default().push((*stream, arrival));
                    }
                }
            }
            Ev::Out { stream, opcode, body, written, .. } => {
                let list = outstanding.entry(e.conn_id).or_default();
                if let Some(i) = list.iter().position(|(s, _)| s == stream) {
                    let (_, arr) = list.remove(i);
                    let set_keyspace = *opcode == op::RESULT && body.len() >= 4 && body[..4] == [0, 0, 0, 3] && *written == 9 + body.len();
                    if set_keyspace {
                        let last = last_acked.entry(e.conn_id).or_insert(0);
                        if arr < *last {
                            return true;
                        }
                        *last = arr;
                    }
                }
            }
            _ => {}
        }
    }
    false
}

/// a shard count different from the scenario's initial one (0 = node without sharding information)
fn reshard_to(r: &mut Rng, shards: u16) -> u16 {
    let c: Vec<u16> = [1u16, 2, 3, 4].into_iter().filter(|x| *x != shards).collect();
    *r.pick(&c)
}

async fn add_node(cluster: &Arc<MockCluster>, cx: &Arc<Ctx>, idx: usize, shards: u16) -> bool {
    let tokens: Vec<i64> = (0..4).map(|t| (idx as i64) * 1_000_003 + t * 7_919_000_000_007).collect();
    if cluster.add_node(NodeSpec::new(idx, "dc1", "r1", tokens, shards)).await.is_ok() {
        let _ = tokio::time::timeout(Duration::from_secs(20), cx.session.refresh_metadata()).await;
        true
    } else {
        false
    }
}

pub async fn run_scenario(sseed: u64, thorough: bool) -> String {
    let mut r = Rng::new(sseed ^ 0xC20C_20C2_0C20);
    let nodes0 = r.range(1, 3) as usize;
    let shards: u16 = *r.pick(&[0u16, 1, 2, 3]);
    let per: usize = r.range(1, 2) as usize;
    let pool = if r.bool() { PoolSize::PerShard(NonZeroUsize::new(per).unwrap()) } else { PoolSize::PerHost(NonZeroUsize::new(per + 1).unwrap()) };
    let mut spec = ClusterSpec::uniform("c20", &[("dc1", nodes0)], 1, 4, shards);
    for k in KEYSPACES {
        spec = spec.with_keyspace(KeyspaceDef::simple(k, 1));
    }
    let cluster = match MockCluster::start(spec).await {
        Ok(c) => Arc::new(c),
        Err(e) => return format!("not-run mock-start-{:?}", e.kind()).replace(' ', "_"),
    };
    let sh = Arc::new(Shared {
        events: Mutex::new(Vec::new()),
        texts: Mutex::new(BTreeSet::new()),
        fault: Mutex::new((UseFault::None, Rng::new(sseed.wrapping_mul(31) + 7))),
        acks: Mutex::new(HashMap::new()),
        frames: AtomicU64::new(0),
        prepared_frames: AtomicU64::new(0),
        batch_frames: AtomicU64::new(0),
        paged_frames: AtomicU64::new(0),
        delayed: AtomicU64::new(0),
        early: AtomicU64::new(0),
        xck: AtomicU64::new(0),
    });
    cluster.on_prepare(
        PREP_TEXT,
        PreparedSpec {
            id: vec![],
            result_metadata_id: vec![],
            bind_columns: vec![ColSpec::new("ks_a", "t", "p", CqlType::BigInt)],
            pk_indexes: vec![],
            result_columns: vec![],
            lwt: false,
        },
    );
    cluster.set_handler(Some(handler(sh.clone())));
    let mut b = SessionBuilder::new()
        .known_node_addr(cluster.contact_point(0))
        // own loopback source address: own ephemeral port space (no EADDRINUSE from TIME-WAIT on 127.0.0.1)
        .local_ip_address(Some(cluster.client_ip()))
        // handshake timeout AND the pool-level USE timeout. 2 s (not the 400 ms of earlier versions): under
        // heavy load a shorter value made clean calls time out and pools miss their refill, which thinned the
        // strict / late coverage below the floors although nothing was wrong. A `Silent` fault costs 2 s.
        .connection_timeout(Duration::from_millis(2000))
        .pool_size(pool);
    if r.chance(1, 4) {
        b = b.disallow_shard_aware_port(true);
    }
    // sometimes the keyspace is given to the builder: Session::connect then calls use_keyspace itself
    let builder_ks = if r.chance(1, 5) { Some(*r.pick(&["ks_a", "ks_b"])) } else { None };
    if let Some(k) = builder_ks {
        // the builder's call is not bracketed by our events; to keep the trace sound it is recorded
        // as a call that started before everything and returned when build() returned
        sh.events.lock().unwrap().push(format!("C:{:x}:{}:0", 0xffffu64, enc_name(k)));
        b = b.use_keyspace(k, false);
    }
    // The scenario can only be judged if the session comes up. A build failure (no ports, a 400 ms
    // handshake missed on a loaded machine) says nothing about C20: retried, then reported as `not-run`
    // (counted and capped by checks/c20.py).
    let mut attempt = 0;
    let session = loop {
        attempt += 1;
        match tokio::time::timeout(Duration::from_secs(20), b.clone().build()).await {
            Ok(Ok(s)) => break Arc::new(s),
            Ok(Err(_)) | Err(_) if attempt < 4 => {
                tokio::time::sleep(Duration::from_millis(300 * attempt)).await;
            }
            Ok(Err(e)) => {
                cluster.shutdown();
                let msg = format!("{:?}", e);
                return format!("not-run session-build-{}", if msg.contains("AddrInUse") { "EADDRINUSE" } else { "failed" });
            }
            Err(_) => {
                cluster.shutdown();
                return "not-run session-build-timeout".into();
            }
        }
    };
    if builder_ks.is_some() {
        let m = cluster.connections(None).iter().map(|c| c.conn_id).max().unwrap_or(0);
        sh.events.lock().unwrap().push(format!("R:{:x}:1:{:x}", 0xffffu64, m));
    }
    let use_prepared = r.chance(2, 3);
    let prepared = if use_prepared { tokio::time::timeout(Duration::from_secs(10), session.prepare(PREP_TEXT)).await.ok().and_then(|r| r.ok()) } else { None };
    let cx = Arc::new(Ctx {
        sh: sh.clone(),
        session,
        next_q: AtomicU64::new(0),
        next_u: AtomicU64::new(0),
        calls: Mutex::new(builder_ks.map(|k| (k.to_string(), false)).into_iter().collect()),
        ok_uses: AtomicU64::new(builder_ks.is_some() as u64),
        slow: AtomicU64::new(0),
        restarts: AtomicU64::new(0),
        hang: Mutex::new(None),
        invalid_accepted: Mutex::new(None),
        cluster: cluster.clone(),
        prepared: Mutex::new(prepared),
        use_prepared,
    });
    let mut nodes = nodes0;
    let mut reshards = 0u64;
    let ops = gen_ops(&mut r, nodes0, thorough);
    for op in ops {
        if std::env::var("C20_DEBUG").is_ok() {
            eprintln!("[{:x}] op {:?}", sseed, op);
        }
        match op {
            Op::Use { name, cs, fault, reqs, side } => {
                sh.fault.lock().unwrap().0 = fault;
                let racing = {
                    let me = cx.clone();
                    tokio::spawn(async move {
                        if reqs > 0 {
                            me.requests(reqs, true).await
                        }
                    })
                };
                let sider = {
                    let c = cluster.clone();
                    let me = cx.clone();
                    let d = r.range(0, 3);
                    let idx = nodes;
                    let new_shards = reshard_to(&mut r, shards);
                    tokio::spawn(async move {
                        tokio::time::sleep(Duration::from_millis(d)).await;
                        match side {
                            Side::None => false,
                            Side::Kill(n) => {
                                c.kill_connections(n, CutKind::Rst);
                                false
                            }
                            Side::Restart(n) => {
                                c.stop_node(n, CutKind::Rst);
                                tokio::time::sleep(Duration::from_millis(d + 1)).await;
                                if c.start_node(n).await.is_ok() {
                                    me.restarts.fetch_add(1, Ordering::Relaxed);
                                }
                                false
                            }
                            Side::Reshard(n) => {
                                c.update_spec(|sp| sp.nodes[n].nr_shards = new_shards);
                                c.kill_connections(n, CutKind::Rst);
                                false
                            }
                            Side::AddNode => idx < 5 && add_node(&c, &me, idx, new_shards).await,
                        }
                    })
                };
                cx.use_keyspace(&name, cs).await;
                let _ = racing.await;
                if let Ok(true) = sider.await {
                    nodes += 1;
                }
                if let Side::Reshard(_) = side {
                    reshards += 1;
                }
                sh.fault.lock().unwrap().0 = UseFault::None;
            }
            Op::Use2 { a, b } => {
                let (m1, m2) = (cx.clone(), cx.clone());
                let h1 = tokio::spawn(async move { m1.use_keyspace(&a.0, a.1).await });
                let h2 = tokio::spawn(async move { m2.use_keyspace(&b.0, b.1).await });
                let _ = h1.await;
                let _ = h2.await;
            }
            Op::UseStmt { name } => cx.use_statement(&name).await,
            Op::Reqs { n, concurrent } => cx.requests(n, concurrent).await,
            Op::Kill { node, rst } => {
                cluster.kill_connections(node.min(nodes - 1), if rst { CutKind::Rst } else { CutKind::Fin });
            }
            Op::CloseOne => {
                let cs: Vec<ConnInfo> = cluster.connections(None).into_iter().filter(|c| c.registered.is_empty()).collect();
                if !cs.is_empty() {
                    let c = &cs[r.below(cs.len() as u64) as usize];
                    cluster.close_connection(c.node, c.conn_id, CutKind::Rst);
                }
            }
            Op::Restart { node } => {
                let n = node.min(nodes - 1);
                cluster.stop_node(n, CutKind::Rst);
                tokio::time::sleep(Duration::from_millis(r.range(1, 30))).await;
                if cluster.start_node(n).await.is_ok() {
                    cx.restarts.fetch_add(1, Ordering::Relaxed);
                }
            }
            Op::Reshard { node } => {
                let n = node.min(nodes - 1);
                let ns = reshard_to(&mut r, shards);
                cluster.update_spec(|sp| sp.nodes[n].nr_shards = ns);
                cluster.kill_connections(n, CutKind::Rst);
                reshards += 1;
            }
            Op::AddNode => {
                if nodes < 5 && add_node(&cluster, &cx, nodes, shards).await {
                    nodes += 1;
                }
            }
            Op::Sleep(ms) => tokio::time::sleep(Duration::from_millis(ms)).await,
        }
        if cx.hang.lock().unwrap().is_some() || cx.invalid_accepted.lock().unwrap().is_some() {
            break;
        }
    }
    let conns = cluster.connections(None).len();
    let mock_trace = cluster.trace_snapshot();
    let opened = mock_trace.iter().filter(|e| matches!(e.ev, Ev::Open { .. })).count();
    let reordered = use_answers_reordered(&mock_trace);
    let hang = cx.hang.lock().unwrap().clone();
    if hang.is_some() && std::env::var("C20_DEBUG").is_ok() {
        eprintln!("=== scenario {:x}: {:?}", sseed, hang);
        eprintln!("live connections: {:?}", cluster.connections(None));
        for e in cluster.trace_snapshot() {
            match &e.ev {
                Ev::In { stream, opcode, body, .. } => {
                    let t = if *opcode == op::QUERY { wire::decode_query(body).map(|q| q.text).unwrap_or_default() } else { String::new() };
                    eprintln!("{:>10} n{} c{} IN  s{} {} {}", e.t_ns / 1000, e.node, e.conn_id, stream, op::name(*opcode), t)
                }
                Ev::Out { stream, opcode, written, .. } => eprintln!("{:>10} n{} c{} OUT s{} {} w{}", e.t_ns / 1000, e.node, e.conn_id, stream, op::name(*opcode), written),
                other => eprintln!("{:>10} n{} c{} {:?}", e.t_ns / 1000, e.node, e.conn_id, other),
            }
        }
        eprintln!("events: {:?}", sh.events.lock().unwrap());
    }
    let events = sh.events.lock().unwrap().clone();
    let texts: Vec<String> = sh.texts.lock().unwrap().iter().cloned().collect();
    let calls = cx.calls.lock().unwrap().clone();
    let ok_uses = cx.ok_uses.load(Ordering::Relaxed);
    let slow = cx.slow.load(Ordering::Relaxed);
    let restarts = cx.restarts.load(Ordering::Relaxed);
    let invalid_accepted = cx.invalid_accepted.lock().unwrap().clone();
    cluster.set_handler(None);
    drop(cx);
    cluster.shutdown();
    if let Some(n) = invalid_accepted {
        return format!("invalid-accepted {}", enc_name(&n));
    }
    if let Some(h) = hang {
        return format!("not-run {}", h.replace(' ', "_"));
    }
    if reordered {
        return "not-run mock-reordered-use".into();
    }
    // strict frames: frames of requests that STARTED while a keyspace was established by a call that
    // began with no call in flight, was not overlapped and returned Ok, no call having started since
    // (the same bookkeeping as the extracted property predicate prop_violb); late = those of them that
    // arrived on a connection accepted after that call returned
    let (mut strict, mut late) = (0u64, 0u64);
    {
        let mut pend: Vec<String> = Vec::new();
        let mut cand: Option<String> = None;
        let mut est: Option<u64> = None; // highest live connection id when the call returned
        let mut open: HashMap<String, u64> = HashMap::new();
        for e in &events {
            let f: Vec<&str> = e.split(':').collect();
            match f[0] {
                "C" => {
                    cand = if pend.is_empty() { Some(f[1].to_string()) } else { None };
                    pend.push(f[1].to_string());
                    est = None;
                    open.clear();
                }
                "R" => {
                    pend.retain(|u| u != f[1]);
                    if cand.as_deref() == Some(f[1]) {
                        cand = None;
                        est = if f[2] == "1" { Some(u64::from_str_radix(f[3], 16).unwrap_or(u64::MAX)) } else { None };
                    }
                }
                "S" => {
                    open.remove(f[1]);
                    if let Some(m) = est {
                        open.insert(f[1].to_string(), m);
                    }
                }
                "F" => {
                    if let Some(m) = open.get(f[1]) {
                        strict += 1;
                        if u64::from_str_radix(f[3], 16).unwrap_or(0) > *m {
                            late += 1;
                        }
                    }
                }
                _ => {}
            }
        }
    }
    let join = |v: Vec<String>| if v.is_empty() { "-".to_string() } else { v.join(";") };
    format!(
        "none {} {} {} ok={},fr={},strict={},late={},pre={},bat={},pag={},dly={},early={},cn={},nd={},slow={},op={},xck={},rst={},rsh={}",
        join(events),
        join(calls.iter().map(|(n, c)| format!("{}:{}", enc_name(n), *c as u8)).collect()),
        join(texts.iter().map(|t| enc_name(t)).collect()),
        ok_uses,
        sh.frames.load(Ordering::Relaxed),
        strict,
        late,
        sh.prepared_frames.load(Ordering::Relaxed),
        sh.batch_frames.load(Ordering::Relaxed),
        sh.paged_frames.load(Ordering::Relaxed),
        sh.delayed.load(Ordering::Relaxed),
        sh.early.load(Ordering::Relaxed),
        conns,
        nodes,
        slow,
        opened,
        sh.xck.load(Ordering::Relaxed),
        restarts,
        reshards
    )
}

fn run_many(seeds: Vec<u64>, thorough: bool, out: &mut Out) {
    let tag = if thorough { "t" } else { "q" };
    // every scenario has its own client source address (MockCluster::client_ip); still keep the rate modest
    let par: usize = std::env::var("C20_PAR").ok().and_then(|s| s.parse().ok()).unwrap_or(if thorough { 4 } else { 8 });
    let rt = tokio::runtime::Builder::new_multi_thread().worker_threads(8).enable_all().build().unwrap();
    let results: Vec<(u64, String)> = rt.block_on(async move {
        use futures::stream::{self, StreamExt};
        stream::iter(seeds.into_iter().map(|s| async move {
            let h = tokio::spawn(run_scenario(s, thorough));
            let o = match h.await {
                Ok(o) => o,
                Err(e) => format!("error panic {}", e).replace(' ', "_"),
            };
            (s, o)
        }))
        .buffered(par)
        .collect()
        .await
    });
    for (s, o) in results {
        out.case(&format!("E {:x} {}", s, tag), &o);
    }
}

pub fn run(seed: u64, n: u64, tier: &str, out: &mut Out) {
    let mut r = Rng::new(seed.wrapping_mul(0x9E37_79B9) ^ 0xE2E);
    let seeds: Vec<u64> = (0..n).map(|_| r.u64() >> 16).collect();
    run_many(seeds, tier == "thorough", out);
}

pub fn replay_case(case: &str, out: &mut Out) {
    let f: Vec<&str> = case.split_whitespace().collect();
    if f.len() == 3 && f[0] == "E" {
        if let Ok(s) = u64::from_str_radix(f[1], 16) {
            run_many(vec![s], f[2] == "t", out);
            return;
        }
    }
    out.case(case, "error unknown-case");
}

#[allow(dead_code)]
fn _unused() {
    let _ = dec_name("-");
}

/// Reproducer of the liveness observation in docs/C20.md ("worker blocked by an unanswered setup USE").
/// Not part of the check.  `c20 --probe-blocked-worker` prints, for a server that (a) answers keepalives but
/// never the keyspace-setup USE of a new node's first connection, (b) goes completely silent on that
/// connection, how long `refresh_metadata()` and the next `use_keyspace()` take (cap 8 s each), with
/// keepalive_interval = keepalive_timeout = 300 ms.
pub fn probe_blocked_worker() {
    let rt = tokio::runtime::Builder::new_multi_thread().worker_threads(4).enable_all().build().unwrap();
    for (label, silent_conn) in [("setup USE unanswered, keepalives answered", false), ("connection silent after the setup USE", true)] {
        let line = rt.block_on(async move {
            let mut spec = ClusterSpec::uniform("c20probe", &[("dc1", 1)], 1, 4, 1);
            for k in KEYSPACES {
                spec = spec.with_keyspace(KeyspaceDef::simple(k, 1));
            }
            let cluster = Arc::new(MockCluster::start(spec).await.expect("mock"));
            let session = SessionBuilder::new()
                .known_node_addr(cluster.contact_point(0))
                .local_ip_address(Some(cluster.client_ip()))
                .connection_timeout(Duration::from_millis(400))
                .keepalive_interval(Duration::from_millis(300))
                .keepalive_timeout(Duration::from_millis(300))
                .build()
                .await
                .expect("session");
            session.use_keyspace("ks_a", false).await.expect("first use");
            let armed = Arc::new(std::sync::atomic::AtomicBool::new(true));
            let a2 = armed.clone();
            cluster.set_handler(Some(Arc::new(move |ctx: &ReqCtx| {
                let text = ctx.text.as_deref().unwrap_or("");
                if ctx.opcode == op::QUERY && text.starts_with("USE ") && a2.swap(false, Ordering::SeqCst) {
                    return Some(vec![if silent_conn { Action::Stall } else { Action::NoReply }]);
                }
                None
            })));
            let tokens: Vec<i64> = (0..4).map(|t| 1_000_003 + t * 7_919_000_000_007).collect();
            cluster.add_node(NodeSpec::new(1, "dc1", "r1", tokens, 1)).await.expect("add node");
            let t0 = Instant::now();
            let r1 = tokio::time::timeout(Duration::from_secs(8), session.refresh_metadata()).await;
            let d1 = t0.elapsed();
            let t1 = Instant::now();
            let r2 = tokio::time::timeout(Duration::from_secs(8), session.use_keyspace("ks_b", false)).await;
            let d2 = t1.elapsed();
            let consumed = !armed.load(Ordering::SeqCst);
            cluster.shutdown();
            format!(
                "setup USE intercepted: {}; refresh_metadata: {} after {:?}; use_keyspace: {} after {:?}",
                consumed,
                match r1 { Ok(Ok(_)) => "Ok", Ok(Err(_)) => "Err", Err(_) => "NO RETURN (8 s cap)" },
                d1,
                match r2 { Ok(Ok(_)) => "Ok", Ok(Err(_)) => "Err", Err(_) => "NO RETURN (8 s cap)" },
                d2
            )
        });
        println!("{}: {}", label, line);
    }
}
