//! C11 end-to-end part: the only production caller of the source-port iterator
//! (`open_connection_to_shard_aware_port`, connection.rs) driven by a real `Session` against
//! `vh::mocknode`.
//!
//! One case = one scenario:  `E <sseed> <nr_shards> <nodes> <per_shard> <lo> <hi> <planned pre-bound ports|->`
//! (all hex).  The session is built with `shard_aware_local_port_range(lo..=hi)`,
//! `local_ip_address(cluster.client_ip())` and `PoolSize::PerShard(per_shard)`; BEFORE it is built the
//! harness binds (without SO_REUSEADDR, never connecting) the planned local ports on that client
//! address, so the driver's `bind` of such a port fails with EADDRINUSE and the loop must move on.
//! The scenario waits until the mock sees at least `per_shard` pool connections on every shard of
//! every node, sends requests, and reports every connection the mock accepted on its shard-aware
//! port during the whole life of the session.
//!
//! observation (after '|'):
//!   sa=<node.port.shard,..|->   every connection accepted on the shard-aware port: node, client source
//!                               port, shard the node assigned (= reported in SUPPORTED)
//!   pl=<node.shard,..|->        pool connections (not the control connection) accepted on the plain port
//!   pre=<ports|->               the ports the harness really holds bound (a planned port it could not bind
//!                               is not in the list: nothing is claimed about it)
//!   busy=<ports|->              ports of the range the harness does not hold but could not bind either when the
//!                               scenario started (TIME_WAIT of an earlier scenario on the same client address, foreign
//!                               wildcard bind): busy for the driver as well, for an unknown part of the scenario
//!   rq=<ok>.<sent>              requests sent while the pool was filling and after it was full
//!   st=starved:<k>,some:<k>,mv:<k>,op:<k>,cc:<k>,ms:<k>
//!       starved = (node, shard) pairs whose every port of the range is pre-bound or which have none;
//!       some = pairs with at least one pre-bound and one free port; mv = those of them that got a
//!       shard-aware connection (the loop met the bound port or drew a pivot behind it);
//!       op = connections accepted in total; cc = shard-aware connections closed by the client;
//!       ms = wall time until the pool was full
//! other observations: `not-run <reason>` (environment: mock / session did not start, the pool did not
//! fill or a request did not return within the harness cap, a port of the range that was free and unused
//! is not bindable at the end; counted and capped by checks/c11.py).
use scylla::client::PoolSize;
use scylla::client::execution_profile::ExecutionProfile;
use scylla::client::session_builder::SessionBuilder;
use scylla::routing::ShardAwarePortRange;
use std::collections::BTreeSet;
use std::net::SocketAddr;
use std::num::NonZeroUsize;
use std::time::{Duration, Instant};
use vh::mocknode::*;
use vh::{Out, Rng, hex_list, hex_u};

#[derive(Clone, Debug)]
pub struct Scn {
    pub sseed: u64,
    pub n: u16,
    pub nodes: usize,
    pub per: usize,
    pub lo: u16,
    pub hi: u16,
    pub pre: Vec<u16>,
}

impl Scn {
    pub fn line(&self) -> String {
        format!(
            "E {:x} {:x} {:x} {:x} {:x} {:x} {}",
            self.sseed, self.n, self.nodes, self.per, self.lo, self.hi, hex_list(&self.pre)
        )
    }
    pub fn parse(case: &str) -> Option<Scn> {
        let f: Vec<&str> = case.split_whitespace().collect();
        if f.len() != 8 || f[0] != "E" {
            return None;
        }
        let h = |s: &str| u64::from_str_radix(s, 16).ok();
        let pre = if f[7] == "-" { vec![] } else { f[7].split(',').map(|x| h(x).map(|v| v as u16)).collect::<Option<Vec<u16>>>()? };
        let s = Scn { sseed: h(f[1])?, n: h(f[2])? as u16, nodes: h(f[3])? as usize, per: h(f[4])? as usize, lo: h(f[5])? as u16, hi: h(f[6])? as u16, pre };
        if s.n == 0 || s.n > 64 || s.nodes == 0 || s.nodes > 4 || s.per == 0 || s.per > 4 || s.lo < 1024 || s.lo > s.hi {
            return None;
        }
        Some(s)
    }
}

/// the local port range the kernel draws ephemeral ports from (plain-port connections of the same
/// client address use it): the scenario's range is placed outside, so that only the harness'
/// pre-bound sockets make ports of the range unavailable
fn ephemeral_range() -> (u16, u16) {
    std::fs::read_to_string("/proc/sys/net/ipv4/ip_local_port_range")
        .ok()
        .and_then(|s| {
            let v: Vec<u16> = s.split_whitespace().filter_map(|x| x.parse().ok()).collect();
            if v.len() == 2 && v[0] <= v[1] { Some((v[0], v[1])) } else { None }
        })
        .unwrap_or((32768, 60999))
}

/// Scenario derived from its seed.  The place of the range depends on the seed (a rerun with another
/// seed uses other local ports; one with the same seed gets another client address, see docs/C11.md).
pub fn gen_scn(sseed: u64) -> Scn {
    let mut r = Rng::new(sseed ^ 0xC11C_11C1_1E2E);
    let n = r.range(2, 6) as u16;
    let nodes = if r.chance(1, 3) { 2 } else { 1 };
    let per = if r.chance(1, 4) { 2 } else { 1 };
    let (elo, ehi) = ephemeral_range();
    // the length of the range
    let kind = r.below(8);
    let len: u16 = match kind {
        0 | 1 => n * r.range(1, 3) as u16 + r.below(n as u64) as u16, // a few ports per shard
        2 | 3 => n * r.range(1, 3) as u16 + r.below(n as u64) as u16, // ... ending at 65535 (below)
        4 | 5 => r.range(1, n as u64 - 1) as u16,                      // shorter than nr_shards
        6 => 1,                                                         // a single port
        _ => n * 2,
    };
    let (lo, hi) = if kind == 2 || kind == 3 || (kind == 5 && r.bool()) {
        (65535 - (len - 1), 65535)
    } else {
        // somewhere above or below the ephemeral range
        let above = ehi < 65535 - 200 && r.chance(3, 4);
        let (a, b) = if above { (ehi as u64 + 1, 65535 - len as u64) } else { (1024, (elo as u64 - 1).saturating_sub(len as u64).max(1024)) };
        let lo = r.range(a, b.max(a)) as u16;
        (lo, lo + (len - 1))
    };
    let ports: Vec<u16> = (lo..=hi).collect();
    let of_shard = |s: u16| -> Vec<u16> { ports.iter().copied().filter(|p| p % n == s).collect() };
    let mut pre: BTreeSet<u16> = BTreeSet::new();
    match r.below(10) {
        0 => {}
        1 | 2 => {
            for p in &ports {
                if r.bool() {
                    pre.insert(*p);
                }
            }
        }
        3 | 4 | 5 => {
            // starve one or two shards completely, some others partly
            for _ in 0..r.range(1, 2) {
                let s = r.below(n as u64) as u16;
                pre.extend(of_shard(s));
            }
            for p in &ports {
                if r.chance(1, 4) {
                    pre.insert(*p);
                }
            }
        }
        6 | 7 | 8 => {
            // all but one port of every shard: the loop has to move on (unless the pivot is lucky)
            for s in 0..n {
                let mut v = of_shard(s);
                if v.len() >= 2 {
                    let keep = r.below(v.len() as u64) as usize;
                    v.remove(keep);
                    pre.extend(v);
                }
            }
        }
        _ => pre.extend(ports.iter().copied()), // everything: every shard is starved
    }
    Scn { sseed, n, nodes, per, lo, hi, pre: pre.into_iter().collect() }
}

fn join<T: ToString>(v: &[T]) -> String {
    if v.is_empty() { "-".into() } else { v.iter().map(|x| x.to_string()).collect::<Vec<_>>().join(",") }
}

pub async fn run_scenario(c: Scn) -> String {
    let spec = ClusterSpec::uniform("c11", &[("dc1", c.nodes)], 1, 4, c.n).with_keyspace(KeyspaceDef::simple("ks", 1));
    let cluster = match MockCluster::start(spec).await {
        Ok(cl) => cl,
        Err(_) => return "not-run mock-start".into(),
    };
    let client_ip = cluster.client_ip();
    // pre-bind: plain bound sockets (no SO_REUSEADDR, never connected, never listening) held until the end
    let mut held = Vec::new();
    let mut pre: Vec<u16> = Vec::new();
    for p in &c.pre {
        if let Ok(sock) = tokio::net::TcpSocket::new_v4() {
            if sock.bind(SocketAddr::new(client_ip, *p)).is_ok() {
                held.push(sock);
                pre.push(*p);
            }
        }
    }
    // probe: every other port of the range must be bindable now (bound and released at once: no
    // connection, no TIME_WAIT).  One that is not (TIME_WAIT left by an earlier scenario on the same
    // client address, a foreign wildcard bind) is reported as busy=: the driver's attempts from it fail
    // too, for an unknown part of the scenario.
    let probe = |p: u16| -> bool { tokio::net::TcpSocket::new_v4().is_ok_and(|s| s.bind(SocketAddr::new(client_ip, p)).is_ok()) };
    let busy: Vec<u16> = (c.lo..=c.hi).filter(|p| !pre.contains(p) && !probe(*p)).collect();
    let range = match ShardAwarePortRange::new(c.lo..=c.hi) {
        Ok(r) => r,
        Err(_) => {
            cluster.shutdown();
            return "not-run bad-range".into();
        }
    };
    let profile = ExecutionProfile::builder().request_timeout(None).build();
    let b = SessionBuilder::new()
        .known_node_addr(cluster.contact_point(0))
        .local_ip_address(Some(client_ip))
        .shard_aware_local_port_range(range)
        .pool_size(PoolSize::PerShard(NonZeroUsize::new(c.per).unwrap()))
        .connection_timeout(Duration::from_secs(20))
        .cluster_metadata_refresh_interval(Duration::from_secs(600))
        .default_execution_profile_handle(profile.into_handle());
    let session = match tokio::time::timeout(Duration::from_secs(30), b.build()).await {
        Ok(Ok(s)) => s,
        Ok(Err(_)) => {
            cluster.shutdown();
            return "not-run session-build-failed".into();
        }
        Err(_) => {
            cluster.shutdown();
            return "not-run session-build-timeout".into();
        }
    };
    let t0 = Instant::now();
    let (mut rq_ok, mut rq_sent) = (0u32, 0u32);
    let mut slow = false;
    // a request while the pools are (possibly) still being filled, then wait until every shard of
    // every node has `per` pool connections (through whichever port)
    let full = |cluster: &MockCluster| -> bool {
        let cs = cluster.connections(None);
        (0..c.nodes).all(|nd| (0..c.n).all(|s| cs.iter().filter(|x| x.node == nd && x.shard == s && x.registered.is_empty()).count() >= c.per))
    };
    let mut is_full = false;
    let mut q = 0u32;
    while t0.elapsed() < Duration::from_secs(20) {
        if q < 4 {
            rq_sent += 1;
            match tokio::time::timeout(Duration::from_secs(20), session.query_unpaged(format!("SELECT v FROM ks.t WHERE q = {}", q), ())).await {
                Ok(Ok(_)) => rq_ok += 1,
                Ok(Err(_)) => {}
                Err(_) => slow = true,
            }
            q += 1;
        }
        if full(&cluster) {
            is_full = true;
            break;
        }
        tokio::time::sleep(Duration::from_millis(10)).await;
    }
    let ms = t0.elapsed().as_millis();
    if is_full {
        // excess connections are cleared and no further refill is due once the pool is full; wait until
        // the mock has not accepted anything for 120 ms (attempts that were still on their way)
        let opens = |cl: &MockCluster| cl.trace_snapshot().iter().filter(|e| matches!(e.ev, Ev::Open { .. })).count();
        let (mut last, mut still) = (opens(&cluster), 0);
        let tq = Instant::now();
        while still < 2 && tq.elapsed() < Duration::from_secs(5) {
            tokio::time::sleep(Duration::from_millis(60)).await;
            let now = opens(&cluster);
            if now == last { still += 1 } else { still = 0 }
            last = now;
        }
        for i in 0..(2 * c.n as u32 * c.nodes as u32) {
            rq_sent += 1;
            match tokio::time::timeout(Duration::from_secs(20), session.query_unpaged(format!("SELECT v FROM ks.t WHERE q = {}", 100 + i), ())).await {
                Ok(Ok(_)) => rq_ok += 1,
                Ok(Err(_)) => {}
                Err(_) => slow = true,
            }
        }
    }
    // everything the mock accepted
    let trace = cluster.trace_snapshot();
    let mut control: BTreeSet<u64> = BTreeSet::new();
    let mut client_closed: BTreeSet<u64> = BTreeSet::new();
    for e in &trace {
        match &e.ev {
            Ev::In { opcode, .. } if *opcode == op::REGISTER => {
                control.insert(e.conn_id);
            }
            Ev::Close { by: CloseBy::Client } => {
                client_closed.insert(e.conn_id);
            }
            _ => {}
        }
    }
    let mut sa: Vec<String> = Vec::new();
    let mut sa_pairs: BTreeSet<(usize, u16)> = BTreeSet::new();
    let mut pl: Vec<String> = Vec::new();
    let (mut opened, mut cc) = (0u32, 0u32);
    for e in &trace {
        if let Ev::Open { peer_port, shard_aware_port } = &e.ev {
            opened += 1;
            if *shard_aware_port {
                sa.push(format!("{:x}.{:x}.{:x}", e.node, peer_port, e.shard));
                sa_pairs.insert((e.node, e.shard));
                if client_closed.contains(&e.conn_id) {
                    cc += 1;
                }
            } else if !control.contains(&e.conn_id) {
                pl.push(format!("{:x}.{:x}", e.node, e.shard));
            }
        }
    }
    // end probe: a port of the range that was free at the start and carried no shard-aware connection must
    // still be free; otherwise something outside the scenario took it meanwhile (nothing is judged)
    let sa_ports: BTreeSet<u16> = trace.iter().filter_map(|e| match &e.ev { Ev::Open { peer_port, shard_aware_port: true } => Some(*peer_port), _ => None }).collect();
    let changed = (c.lo..=c.hi).any(|p| !pre.contains(&p) && !busy.contains(&p) && !sa_ports.contains(&p) && !probe(p));
    // end: the mock resets every connection first (no TIME_WAIT on the client's ports), then the session goes
    cluster.shutdown();
    let t1 = Instant::now();
    while !cluster.connections(None).is_empty() && t1.elapsed() < Duration::from_secs(2) {
        tokio::time::sleep(Duration::from_millis(5)).await;
    }
    drop(session);
    drop(held);
    if slow {
        return "not-run request-exceeded-20s".into();
    }
    if !is_full {
        return format!("not-run pool-not-full-after-{}ms", ms);
    }
    if changed {
        return "not-run port-of-the-range-taken-from-outside".into();
    }
    // coverage statistics (recomputed by the driver with the extracted model: starved)
    let (mut starved, mut some, mut mv) = (0u32, 0u32, 0u32);
    for nd in 0..c.nodes {
        for s in 0..c.n {
            let set: Vec<u16> = (c.lo..=c.hi).filter(|p| p % c.n == s).collect();
            let bound = set.iter().filter(|p| pre.contains(p)).count();
            if bound == set.len() {
                starved += 1;
            } else if bound > 0 {
                some += 1;
                if sa_pairs.contains(&(nd, s)) {
                    mv += 1;
                }
            }
        }
    }
    format!(
        "sa={} pl={} pre={} busy={} rq={:x}.{:x} st=starved:{},some:{},mv:{},op:{},cc:{},ms:{}",
        join(&sa),
        join(&pl),
        if pre.is_empty() { "-".to_string() } else { pre.iter().map(|p| hex_u(*p as u128)).collect::<Vec<_>>().join(",") },
        hex_list(&busy),
        rq_ok,
        rq_sent,
        starved,
        some,
        mv,
        opened,
        cc,
        ms
    )
}

fn run_many(cases: Vec<Scn>, par: usize, out: &mut Out) {
    let rt = tokio::runtime::Builder::new_multi_thread().worker_threads(6).enable_all().build().unwrap();
    let results: Vec<(String, String)> = rt.block_on(async move {
        use futures::stream::{self, StreamExt};
        stream::iter(cases.into_iter().map(|c| async move {
            let line = c.line();
            let h = tokio::spawn(run_scenario(c));
            let o = match h.await {
                Ok(o) => o,
                Err(e) => format!("error panic {}", e).replace(' ', "_"),
            };
            (line, o)
        }))
        .buffered(par)
        .collect()
        .await
    });
    for (l, o) in results {
        out.case(&l, &o);
    }
}

pub fn run(seed: u64, n: u64, out: &mut Out) {
    let mut r = Rng::new(seed.wrapping_mul(0x9E37_79B9) ^ 0xC11E);
    let cases: Vec<Scn> = (0..n).map(|_| gen_scn(r.u64() >> 16)).collect();
    let par: usize = std::env::var("C11_PAR").ok().and_then(|s| s.parse().ok()).unwrap_or(6);
    run_many(cases, par, out);
}

pub fn replay_case(case: &str, out: &mut Out) {
    match Scn::parse(case) {
        Some(c) => run_many(vec![c], 1, out),
        None => out.case(case, "error unknown-case"),
    }
}
