//! C19 runner: drives the REAL merge channel (hook H7: scylla::cluster::metadata::verif_merge_channel)
//! and writes what it observed, for the extracted model.
//!
//! Case kinds:
//!   X <script>   exhaustive part: every script over the alphabet below up to the tier's length
//!   Q <script>   seeded random long scripts (`--n` of them)
//!       | <obs>/<wakes>,<obs>/<wakes>,...        one token per operation of the script
//!     The script is executed on ONE thread by a hand-written poll loop: the recv future is
//!     created, polled (Future::poll with a counting waker), dropped exactly where the script
//!     says, so every interleaving of the two endpoints AT POLL GRANULARITY is reachable.
//!       M  tx.modify(|slot| slot.get_or_insert_default().push(tag))   tag = number of M's before it
//!       N  tx.modify(|_slot| {})                                      a closure that changes nothing
//!       K  tx.modify(|slot| *slot = None)                                 a closure that clears the slot (retracts)
//!       D  drop(tx)
//!       P  poll the recv future (created first if none is alive)
//!       C  drop the pending recv future (cancel)
//!       R  drop(rx)   (only when no recv future is alive)
//!       T  rx.try_recv()   (only when no recv future is alive; hook H7b runs the verbatim body of try_recv,
//!          checks/c19.py pins that the real method still has exactly that body)   obs: tn / t<tags>
//!     obs: k = Ok, e = Err(SendError), u = (), p = Poll::Pending, rn = Ready(None),
//!          r<t>.<t>... = Ready(Some(vec![t, ...])) (hex tags); wakes = cumulative number of
//!          Waker::wake calls seen by the counting waker (hex).
//!   Y <script>   the same scripts with the EAGER waker: the waker, called by the sender's notify_one, polls the
//!       parked recv future on the spot (as a consumer on another core could).  Such polls are reported as
//!       extra tokens "!<obs>/<wakes>" right after the operation that caused them; this makes the order of
//!       "store the flag" and "notify" inside Drop for Sender (and of merge / notify inside modify) observable.
//!   U <script>   the value that travels through the channel: the REAL MetadataUpdate::merge_* functions run
//!       against a real slot with real oneshot response channels (hook scylla::cluster::metadata::verif_metadata_update)
//!       f/F full fetch without/with a refresh response, g/G the same with a client-routes snapshot,
//!       c client-routes update, t topology update, u/v up hint for address 1/2, d/e down hint, k the consumer takes
//!       | <kind>:<metadata version>:<peers version>:<routes 0|1>:<partial routes>:<responses>:<hints>,... <statuses>
//!       one view of the slot per operation, then per response channel 0 pending / 1 answered / 2 dropped / 3 error
//!   F p<script> / F r<full><routes><topology>   the metadata worker's fetch scheduling (hook verif_fetch_plan):
//!       p: the REAL FetchPlan bookkeeping on a script over f (note_full_needed), t (note_topology), c (note_client_routes
//!          with a fresh pair): view after every operation  <F|P>:<routes ids>:<topology 0|1>
//!       r: one REAL poll of a PendingFetches whose slots hold scripted futures; each of the three digits is
//!          0 absent, 1 in flight and not complete, 2 complete (full != 0 builds the Full variant and ignores the
//!          other two digits: 9 + 2 = 11 distinct configurations):
//!          <outcome 0 pending 1 Full 2 ClientRoutes 3 Topology> <still in flight: full routes topology as 0|1>
//!   S <serial> <n> <mode>   multi-thread stress: a producer thread merges the tags 0..n-1 and drops
//!       the sender; the consumer (tokio current-thread runtime on another OS thread) receives until
//!       None.  mode 0 plain loop, 1 the recv future is cancelled and restarted all the time
//!       (select! against yield_now), 2 the producer pauses so that the consumer really parks,
//!       3 slow consumer + no-op closures in between.
//!       | <batch>;<batch>;... end|hang     batch = runs "start+len" joined by '.', maximal runs of
//!       consecutive tags (lossless run-length encoding of the received Vec).
//!   Z <serial> <rounds> <concurrent> <mode>   end-to-end (the channel inside the driver, between the metadata worker
//!       and the cluster worker): a real Session on a mocknode cluster; every round adds a node to the mock
//!       cluster and issues <concurrent> Session::refresh_metadata calls at once (mode 0 with >= 2 rounds: the last
//!       round removes the node added last instead - the published state must shrink).
//!       mode 1: the consumer (cluster worker) is kept busy by a slow address translator while four staged refreshes are
//!       served back to back, so that several full fetches with response channels are merged in the slot.
//!       mode 3: like mode 1, but Session::use_keyspace calls alternate with the refreshes (the select loop of the
//!       cluster worker: both request kinds queue up while an update is applied; each must be answered once).
//!       mode 2: the next 1..3 metadata reads fail (error reply, or the connection is cut inside the reply) while the
//!       refreshes are pending; afterwards one more refresh must succeed.
//!       | <asked>/<answered>/<ok>/<nodes the session's cluster state shows>/<nodes of the mock>/<answered together>/<final refresh ok (+2: faults left over)>,...
//!       (a scenario with an unexpected outcome is repeated once; set-up failures are reported as skip-env)
use scylla::client::session_builder::SessionBuilder;
use scylla::cluster::metadata::verif_merge_channel_b as hook;
use scylla::cluster::metadata::verif_fetch_plan as fhook;
use scylla::cluster::metadata::verif_metadata_update as uhook;
use vh::mocknode as mock;
use std::future::Future;
use std::pin::Pin;
use std::sync::atomic::{AtomicUsize, Ordering};
use std::sync::Arc;
use std::task::{Context, Poll, Wake, Waker};
use std::time::Duration;
use vh::*;

type RecvFut = Pin<Box<dyn Future<Output = Option<Vec<u64>>>>>;

/// what the waker can reach: the recv future currently alive and the observations of the polls it made
struct Exec {
    fut: Option<RecvFut>,
    nested: Vec<String>,
}

/// Counting waker.  In EAGER mode `wake()` also polls the parked recv future right away, i.e. at the very
/// moment the sender's `notify_one` calls the waker - as a consumer task on another core could.  A waker is
/// user code and may run anything; the channel must be correct for that timing too.  (With the flag stored
/// before notify_one in Drop for Sender, that poll already sees the flag.)
struct Counter {
    count: AtomicUsize,
    eager: bool,
    exec: *mut Exec,
}
// the harness is single-threaded; the raw pointer is only used on this thread
unsafe impl Send for Counter {}
unsafe impl Sync for Counter {}
impl Counter {
    fn woke(self: &Arc<Self>) {
        self.count.fetch_add(1, Ordering::SeqCst);
        if self.eager {
            // SAFETY: single thread; `exec` outlives every waker clone (see run_script)
            let e = unsafe { &mut *self.exec };
            if let Some(f) = e.fut.as_mut() {
                let w = Waker::from(self.clone());
                let mut cx = Context::from_waker(&w);
                let tok = match f.as_mut().poll(&mut cx) {
                    Poll::Pending => "p".to_string(),
                    Poll::Ready(v) => {
                        e.fut = None;
                        ready_tok(v)
                    }
                };
                e.nested.push(tok);
            }
        }
    }
}
impl Wake for Counter {
    fn wake(self: Arc<Self>) {
        self.woke();
    }
    fn wake_by_ref(self: &Arc<Self>) {
        self.woke();
    }
}

fn ready_tok(v: Option<Vec<u64>>) -> String {
    match v {
        None => "rn".into(),
        Some(l) => format!("r{}", l.iter().map(|t| format!("{:x}", t)).collect::<Vec<_>>().join(".")),
    }
}

fn run_script(script: &str, eager: bool) -> String {
    let (tx, rx) = hook::verif_merge_channel::<Vec<u64>>();
    let mut tx = Some(tx);
    // the receiver lives behind a raw pointer so that the recv future (which borrows it mutably)
    // can be kept across script steps; the future is always dropped before the receiver
    let rx_ptr: *mut hook::VerifReceiver<Vec<u64>> = Box::into_raw(Box::new(rx));
    let mut rx_alive = true;
    let exec: *mut Exec = Box::into_raw(Box::new(Exec { fut: None, nested: Vec::new() }));
    let counter = Arc::new(Counter { count: AtomicUsize::new(0), eager, exec });
    let waker = Waker::from(counter.clone());
    let mut cx = Context::from_waker(&waker);
    let mut next_tag: u64 = 0;
    let mut out = String::with_capacity(script.len() * 6);
    let mut err: Option<String> = None;
    // SAFETY (all uses of `exec` below): single thread, the Box is freed at the end of this function after
    // the future, the sender and the receiver (which may hold waker clones) are gone
    macro_rules! ex {
        () => {
            unsafe { &mut *exec }
        };
    }
    for (i, op) in script.chars().enumerate() {
        let tok: String = match op {
            'M' | 'N' | 'K' => match tx.as_mut() {
                Some(t) => {
                    let r = if op == 'M' {
                        let tag = next_tag;
                        next_tag += 1;
                        t.modify(|slot| slot.get_or_insert_default().push(tag))
                    } else if op == 'K' {
                        t.modify(|slot| *slot = None)
                    } else {
                        t.modify(|_slot| {})
                    };
                    if r.is_ok() { "k".into() } else { "e".into() }
                }
                None => {
                    err = Some(format!("error unavailable op {} at {}", op, i));
                    break;
                }
            },
            'D' => match tx.take() {
                Some(t) => {
                    drop(t);
                    "u".into()
                }
                None => {
                    err = Some(format!("error unavailable op D at {}", i));
                    break;
                }
            },
            'P' => {
                if !rx_alive {
                    err = Some(format!("error unavailable op P at {}", i));
                    break;
                }
                if ex!().fut.is_none() {
                    // SAFETY: rx_ptr is valid while rx_alive; at most one future borrows it at a time
                    // and it is dropped before the receiver is.
                    ex!().fut = Some(Box::pin(unsafe { (*rx_ptr).recv() }));
                }
                match ex!().fut.as_mut().unwrap().as_mut().poll(&mut cx) {
                    Poll::Pending => "p".into(),
                    Poll::Ready(v) => {
                        ex!().fut = None;
                        ready_tok(v)
                    }
                }
            }
            'C' => {
                if ex!().fut.is_none() {
                    err = Some(format!("error unavailable op C at {}", i));
                    break;
                }
                ex!().fut = None;
                "u".into()
            }
            'T' => {
                if ex!().fut.is_some() || !rx_alive {
                    err = Some(format!("error unavailable op T at {}", i));
                    break;
                }
                // SAFETY: no future borrows the receiver
                match unsafe { (*rx_ptr).try_recv() } {
                    None => "tn".into(),
                    Some(l) => format!("t{}", l.iter().map(|t| format!("{:x}", t)).collect::<Vec<_>>().join(".")),
                }
            }
            'R' => {
                if ex!().fut.is_some() || !rx_alive {
                    err = Some(format!("error unavailable op R at {}", i));
                    break;
                }
                // SAFETY: no future borrows the receiver
                drop(unsafe { Box::from_raw(rx_ptr) });
                rx_alive = false;
                "u".into()
            }
            _ => {
                err = Some(format!("error unknown op {} at {}", op, i));
                break;
            }
        };
        if i > 0 {
            out.push(',');
        }
        let wk = counter.count.load(Ordering::SeqCst);
        out.push_str(&tok);
        out.push('/');
        out.push_str(&format!("{:x}", wk));
        // polls made by the waker during this operation (eager mode): reported as "!<obs>/<wakes>"
        for n in ex!().nested.drain(..) {
            out.push_str(&format!(",!{}/{:x}", n, wk));
        }
    }
    ex!().fut = None;
    drop(tx);
    if rx_alive {
        drop(unsafe { Box::from_raw(rx_ptr) });
    }
    drop(cx);
    drop(waker);
    drop(unsafe { Box::from_raw(exec) });
    match err {
        Some(e) => e,
        None => {
            if out.is_empty() {
                "-".into()
            } else {
                out
            }
        }
    }
}

fn run_update_script(script: &str) -> String {
    let mut ops = Vec::with_capacity(script.len());
    for c in script.chars() {
        ops.push(match c {
            'f' => uhook::Op::Full { with_response: false, with_routes: false },
            'F' => uhook::Op::Full { with_response: true, with_routes: false },
            'g' => uhook::Op::Full { with_response: false, with_routes: true },
            'G' => uhook::Op::Full { with_response: true, with_routes: true },
            'c' => uhook::Op::ClientRoutes,
            't' => uhook::Op::Topology,
            'u' => uhook::Op::UpHint(1),
            'v' => uhook::Op::UpHint(2),
            'd' => uhook::Op::DownHint(1),
            'e' => uhook::Op::DownHint(2),
            'k' => uhook::Op::Take,
            _ => return "error unknown-op".into(),
        });
    }
    let (views, status) = match catch(move || uhook::run_script(&ops)) {
        Ok(r) => r,
        Err(e) => return format!("panic {}", e.replace(' ', "_")),
    };
    let list = |l: &[u64]| if l.is_empty() { "-".to_string() } else { l.iter().map(|x| format!("{:x}", x)).collect::<Vec<_>>().join(".") };
    let vs: Vec<String> = views
        .iter()
        .map(|v| {
            let hints = if v.hints.is_empty() {
                "-".to_string()
            } else {
                v.hints.iter().map(|(a, up)| format!("{:x}{}", a, if *up { '+' } else { '-' })).collect::<Vec<_>>().join(".")
            };
            format!(
                "{}:{:x}:{:x}:{}:{}:{:x}:{}",
                v.kind, v.metadata_version, v.peers_version, v.routes_configured as u8, list(&v.partial_routes), v.responses, hints
            )
        })
        .collect();
    let st: String = if status.is_empty() { "-".into() } else { status.iter().map(|x| char::from(b'0' + *x)).collect() };
    format!("{} {}", if vs.is_empty() { "-".to_string() } else { vs.join(",") }, st)
}

fn run_fetch_case(arg: &str) -> String {
    if let Some(script) = arg.strip_prefix('p') {
        let mut ops = Vec::new();
        for (i, c) in script.chars().enumerate() {
            ops.push(match c {
                'f' => fhook::PlanOp::Full,
                't' => fhook::PlanOp::Topology,
                'c' => fhook::PlanOp::Routes(i as u64 + 1),
                _ => return "error unknown-op".into(),
            });
        }
        let views = fhook::run_plan(&ops);
        let toks: Vec<String> = views
            .iter()
            .map(|(full, ids, topo)| {
                let l = if ids.is_empty() { "-".to_string() } else { ids.iter().map(|x| format!("{:x}", x)).collect::<Vec<_>>().join(".") };
                format!("{}:{}:{}", if *full { 'F' } else { 'P' }, l, *topo as u8)
            })
            .collect();
        if toks.is_empty() { "-".into() } else { toks.join(",") }
    } else if let Some(d) = arg.strip_prefix('r') {
        let d: Vec<char> = d.chars().collect();
        if d.len() != 3 {
            return "error bad-digits".into();
        }
        let slot = |c: char| match c {
            '0' => None,
            '1' => Some(false),
            _ => Some(true),
        };
        let (o, f, r, t) = fhook::poll_pending(slot(d[0]), slot(d[1]), slot(d[2]));
        format!("{} {}{}{}", o, f as u8, r as u8, t as u8)
    } else {
        "error unknown-case".into()
    }
}

/// run-length encoding of one received batch
fn enc_batch(o: &mut String, b: &[u64]) {
    let mut i = 0;
    let mut first = true;
    while i < b.len() {
        let mut j = i + 1;
        while j < b.len() && b[j] == b[j - 1].wrapping_add(1) {
            j += 1;
        }
        if !first {
            o.push('.');
        }
        first = false;
        o.push_str(&format!("{:x}+{:x}", b[i], j - i));
        i = j;
    }
    if first {
        o.push_str("0+0");
    }
}

/// One stress run; `None` = the consumer made no progress for 30 s after the producer had finished
/// (or 300 s in total).
fn run_stress_once(n: u64, mode: u64, seed: u64) -> Option<String> {
    let (mut tx, mut rx) = hook::verif_merge_channel::<Vec<u64>>();
    let (done_tx, done_rx) = std::sync::mpsc::channel::<String>();
    let progress = Arc::new(AtomicUsize::new(0));
    let producer_done = Arc::new(AtomicUsize::new(0));
    let (progress_c, producer_done_p) = (progress.clone(), producer_done.clone());
    let consumer = std::thread::spawn(move || {
        let progress = progress_c;
        let rt = tokio::runtime::Builder::new_current_thread().enable_time().build().unwrap();
        let s = rt.block_on(async move {
            let mut o = String::new();
            let mut first = true;
            let mut push = |o: &mut String, b: &[u64]| {
                if !first {
                    o.push(';');
                }
                first = false;
                enc_batch(o, b);
            };
            loop {
                let got = match mode {
                    1 => {
                        // cancel and restart the receive whenever it is not immediately ready
                        tokio::select! {
                            biased;
                            v = rx.recv() => Some(v),
                            _ = tokio::task::yield_now() => None,
                        }
                    }
                    _ => Some(rx.recv().await),
                };
                match got {
                    None => continue,
                    Some(None) => break,
                    Some(Some(b)) => {
                        push(&mut o, &b);
                        progress.fetch_add(1, Ordering::SeqCst);
                        if mode == 3 {
                            tokio::time::sleep(Duration::from_micros(20)).await;
                        }
                    }
                }
            }
            if first {
                o.push('-');
            }
            o
        });
        let _ = done_tx.send(s);
    });
    let producer = std::thread::spawn(move || {
        let mut r = Rng::new(seed);
        for i in 0..n {
            tx.modify(|slot| slot.get_or_insert_default().push(i)).expect("receiver alive");
            match mode {
                2 => {
                    if r.chance(1, 2000) {
                        std::thread::sleep(Duration::from_micros(50 + r.below(200)));
                    }
                }
                3 => {
                    if i % 7 == 3 {
                        tx.modify(|_slot| {}).expect("receiver alive");
                    }
                }
                _ => {}
            }
        }
        drop(tx);
        producer_done_p.store(1, Ordering::SeqCst);
    });
    let start = std::time::Instant::now();
    let mut last_progress = (progress.load(Ordering::SeqCst), std::time::Instant::now());
    loop {
        match done_rx.recv_timeout(Duration::from_secs(1)) {
            Ok(s) => {
                let _ = producer.join();
                let _ = consumer.join();
                return Some(format!("{} end", s));
            }
            Err(_) => {
                let p = progress.load(Ordering::SeqCst);
                if p != last_progress.0 || producer_done.load(Ordering::SeqCst) == 0 {
                    last_progress = (p, std::time::Instant::now());
                }
                if last_progress.1.elapsed() > Duration::from_secs(30) || start.elapsed() > Duration::from_secs(300) {
                    return None; // the stuck threads are leaked
                }
            }
        }
    }
}

/// A run that does not finish is repeated once with the same parameters: only a reproduced hang is
/// reported as such (`hang`); a single one is a starved machine (`skip-env`).
fn run_stress(n: u64, mode: u64, seed: u64) -> String {
    match run_stress_once(n, mode, seed) {
        Some(s) => s,
        None => match run_stress_once(n, mode, seed) {
            Some(_) => "skip-env the first attempt did not finish, the repetition did".into(),
            None => "- hang".into(),
        },
    }
}

/// An address translator (public API) that can be made slow: while `delay_ms` is non-zero every translation
/// sleeps that long.  Opening the connection pool of a newly discovered node translates its address, and the
/// cluster worker awaits the pools of a new ClusterState - so this keeps the CONSUMER of the merge channel busy
/// while the metadata worker (producer) keeps serving refresh requests.
struct SlowTranslator {
    delay_ms: std::sync::atomic::AtomicU64,
}
impl scylla::policies::address_translator::AddressTranslator for SlowTranslator {
    fn translate_address<'life0, 'life1, 'life2, 'async_trait>(
        &'life0 self,
        untranslated_peer: &'life1 scylla::policies::address_translator::UntranslatedPeer<'life2>,
    ) -> Pin<Box<dyn Future<Output = Result<std::net::SocketAddr, scylla::errors::TranslationError>> + Send + 'async_trait>>
    where
        'life0: 'async_trait,
        'life1: 'async_trait,
        Self: 'async_trait,
    {
        let addr = untranslated_peer.untranslated_address();
        Box::pin(async move {
            let d = self.delay_ms.load(Ordering::SeqCst);
            if d > 0 {
                tokio::time::sleep(Duration::from_millis(d)).await;
            }
            Ok(addr)
        })
    }
}

/// Err(reason) = the scenario could not be set up (environment); Ok(tokens) otherwise.
async fn run_e2e_once(serial: u64, rounds: usize, concurrent: usize, mode: u64) -> Result<(String, bool), String> {
    let spec = mock::ClusterSpec::uniform("c19", &[("dc1", 1)], 1, 4, 2)
        .with_keyspace(mock::KeyspaceDef::simple("ks", 1))
        .with_keyspace(mock::KeyspaceDef::simple("ks2", 1));
    let cluster = mock::MockCluster::start(spec).await.map_err(|e| format!("mock start: {e}"))?;
    let translator = Arc::new(SlowTranslator { delay_ms: std::sync::atomic::AtomicU64::new(0) });
    let session = Arc::new(
        SessionBuilder::new()
            .known_node_addr(cluster.contact_point(0))
            .connection_timeout(Duration::from_secs(5))
            .address_translator(translator.clone())
            .build()
            .await
            .map_err(|e| format!("session: {e}"))?,
    );
    let mut r = Rng::new(serial);
    let mut toks = Vec::new();
    let mut clean = true;
    let mut removed = 0usize;
    for round in 0..rounds {
        // mode 0: the last round REMOVES the node added last (it stops listening and disappears from system.peers)
        // instead of adding one: the published state must shrink
        let removal = mode == 0 && rounds >= 2 && round == rounds - 1;
        let idx = cluster.spec().nodes.len();
        if removal {
            cluster.remove_node(idx - 1, mock::CutKind::Fin);
            removed += 1;
        }
        let node = mock::NodeSpec {
            host_id: mock::host_id_for(idx),
            dc: "dc1".into(),
            rack: "r1".into(),
            tokens: (0..4).map(|_| r.i64()).collect(),
            nr_shards: 2,
            msb_ignore: 12,
            metadata_id_ext: None,
        };
        if !removal {
            cluster.add_node(node).await.map_err(|e| format!("add_node: {e}"))?;
        }
        let mut tasks = Vec::new();
        let fail_left = Arc::new(AtomicUsize::new(0));
        if mode == 2 {
            // failing fetch: the next 1..3 reads of system tables are answered with an error, or the (control)
            // connection is cut 5 bytes into the reply; every requested refresh must still be answered
            fail_left.store(r.range(1, 3) as usize, Ordering::SeqCst);
            let cut = r.bool();
            let left = fail_left.clone();
            cluster.set_handler(Some(Arc::new(move |ctx: &mock::ReqCtx| {
                if !ctx.is_system || !(ctx.opcode == mock::op::QUERY || ctx.opcode == mock::op::EXECUTE) {
                    return None;
                }
                if left.fetch_update(Ordering::SeqCst, Ordering::SeqCst, |v| v.checked_sub(1)).is_err() {
                    return None;
                }
                Some(if cut {
                    vec![mock::Action::CutAt(5, mock::CutKind::Rst), mock::Action::Default]
                } else {
                    vec![mock::Action::Error(mock::ErrorSpec::new(mock::DbErr::ServerError, "scripted metadata failure"))]
                })
            })));
        }
        if mode == 3 {
            // the select loop: use_keyspace requests and refresh requests interleaved while the cluster worker
            // is busy applying an update (slow translator); each request of either kind must be answered once
            translator.delay_ms.store(500, Ordering::SeqCst);
            for k in 0..concurrent.max(4) {
                let s = session.clone();
                if k % 2 == 0 {
                    tasks.push(tokio::spawn(async move {
                        let r = tokio::time::timeout(Duration::from_secs(40), s.refresh_metadata()).await;
                        (r, std::time::Instant::now())
                    }));
                } else {
                    let ks = if k % 4 == 1 { "ks" } else { "ks2" };
                    tasks.push(tokio::spawn(async move {
                        let r = tokio::time::timeout(Duration::from_secs(40), s.use_keyspace(ks, false)).await;
                        // same shape as a refresh outcome: answered? / ok?
                        (r.map(|x| x.map_err(|_| scylla::errors::MetadataError::ConnectionPoolError(scylla::errors::ConnectionPoolError::Initializing))), std::time::Instant::now())
                    }));
                }
                tokio::time::sleep(Duration::from_millis(if k == 0 { 120 } else { 30 })).await;
            }
        } else if mode == 1 {
            // busy consumer: the first refresh makes the cluster worker open the new node's pool, which now
            // takes >= 700 ms; while it waits, further refreshes are served back to back by the metadata
            // worker, so their full fetches (each with its own response channel) are MERGED in the slot.
            translator.delay_ms.store(700, Ordering::SeqCst);
            for k in 0..concurrent.max(3) {
                let s = session.clone();
                tasks.push(tokio::spawn(async move {
                    let r = tokio::time::timeout(Duration::from_secs(40), s.refresh_metadata()).await;
                    (r, std::time::Instant::now())
                }));
                tokio::time::sleep(Duration::from_millis(if k == 0 { 150 } else { 60 })).await;
            }
        } else {
            for _ in 0..concurrent {
                let s = session.clone();
                tasks.push(tokio::spawn(async move {
                    let r = tokio::time::timeout(Duration::from_secs(40), s.refresh_metadata()).await;
                    (r, std::time::Instant::now())
                }));
            }
        }
        let asked = tasks.len();
        let (mut completed, mut ok) = (0, 0);
        let mut finished = Vec::new();
        for t in tasks {
            // a panicking refresh_metadata (its response sender was dropped) is a JoinError: not answered
            if let Ok((Ok(res), at)) = t.await {
                completed += 1;
                finished.push(at);
                if res.is_ok() {
                    ok += 1;
                }
            }
        }
        // refreshes answered within 50 ms of each other (diagnostic only: close answers are what a merged update
        // produces, but unmerged ones can be close too)
        finished.sort();
        let together = finished.windows(2).filter(|w| w[1].duration_since(w[0]) < Duration::from_millis(50)).count();
        translator.delay_ms.store(0, Ordering::SeqCst);
        let mut final_ok = 1;
        if mode == 2 {
            // the faults are over: one more refresh must succeed and publish the latest topology
            let consumed = fail_left.load(Ordering::SeqCst) == 0;
            cluster.set_handler(None);
            match tokio::time::timeout(Duration::from_secs(40), session.refresh_metadata()).await {
                Ok(Ok(())) => {}
                _ => final_ok = 0,
            }
            if !consumed {
                final_ok += 2; // diagnostic: not every scripted fault was consumed
            }
        }
        let seen = session.get_cluster_state().get_nodes_info().len();
        let mock_nodes = cluster.spec().nodes.len() - removed;
        if completed != asked || (ok != asked && mode != 2) || seen != mock_nodes || final_ok & 1 == 0 {
            clean = false;
        }
        toks.push(format!("{:x}/{:x}/{:x}/{:x}/{:x}/{:x}/{:x}", asked, completed, ok, seen, mock_nodes, together, final_ok));
    }
    drop(session);
    cluster.shutdown();
    Ok((if toks.is_empty() { "-".into() } else { toks.join(",") }, clean))
}

/// A scenario with any unexpected outcome is repeated once (fresh cluster, same parameters); what is
/// reported is the repetition.  Set-up failures are `skip-env`.
async fn run_e2e(serial: u64, rounds: usize, concurrent: usize, mode: u64) -> String {
    let mut last = String::new();
    for _attempt in 0..2 {
        match run_e2e_once(serial, rounds, concurrent, mode).await {
            Err(e) => last = format!("skip-env {}", e.replace(' ', "_")),
            Ok((t, true)) => return t,
            Ok((t, false)) => last = t,
        }
    }
    last
}

fn run_case(case: &str) -> String {
    let f: Vec<&str> = case.split_whitespace().collect();
    match f[0] {
        "X" | "Q" if f.len() == 2 => run_script(f[1], false),
        "Y" if f.len() == 2 => run_script(f[1], true),
        "U" if f.len() == 2 => run_update_script(f[1]),
        "F" if f.len() == 2 => run_fetch_case(f[1]),
        "S" if f.len() == 4 => {
            let h = |s: &str| u64::from_str_radix(s, 16).unwrap();
            let (serial, n, mode) = (h(f[1]), h(f[2]), h(f[3]));
            if n > 100_000_000 {
                return "error bad-parameters".into();
            }
            run_stress(n, mode, serial)
        }
        "Z" if f.len() == 5 => {
            let h = |s: &str| u64::from_str_radix(s, 16).unwrap();
            let (serial, rounds, concurrent, mode) = (h(f[1]), h(f[2]) as usize, h(f[3]) as usize, h(f[4]));
            if rounds > 64 || concurrent > 256 {
                return "error bad-parameters".into();
            }
            let rt = tokio::runtime::Builder::new_multi_thread().worker_threads(4).enable_all().build().unwrap();
            rt.block_on(run_e2e(serial, rounds, concurrent, mode))
        }
        _ => "error unknown-case".into(),
    }
}

/// what the generator tracks to produce only scripts whose operations are available
/// (predicted with the specification: a poll is Ready iff something is pending or the sender is gone)
#[derive(Clone, Copy)]
struct Gen {
    sender: bool,
    receiver: bool,
    pending: bool,
    fut: bool,
    noops: u32,
    eager: bool,
    tries: u32,
    max_tries: u32,
    clears: u32,
    max_clears: u32,
}
impl Gen {
    fn new() -> Self {
        Gen { sender: true, receiver: true, pending: false, fut: false, noops: 0, eager: false, tries: 0, max_tries: 0, clears: 0, max_clears: 0 }
    }
    fn ops(&self, max_noops: u32) -> Vec<char> {
        let mut v = vec![];
        if self.sender {
            v.push('M');
            if self.noops < max_noops {
                v.push('N');
            }
            if self.clears < self.max_clears {
                v.push('K');
            }
            v.push('D');
        }
        if self.receiver {
            v.push('P');
            v.push(if self.fut { 'C' } else { 'R' });
            if !self.fut && self.tries < self.max_tries {
                v.push('T');
            }
        }
        v
    }
    fn apply(&mut self, op: char) {
        match op {
            'M' => {
                if self.receiver {
                    self.pending = true
                }
                if self.eager && self.fut {
                    // the waker polls the parked future at once: it takes the value
                    self.pending = false;
                    self.fut = false;
                }
            }
            'N' => self.noops += 1,
            'K' => {
                self.clears += 1;
                if self.receiver {
                    self.pending = false;
                }
            }
            'D' => {
                self.sender = false;
                if self.eager && self.fut {
                    self.fut = false;
                }
            }
            'P' => {
                if self.pending {
                    self.pending = false;
                    self.fut = false;
                } else {
                    self.fut = self.sender;
                }
            }
            'C' => self.fut = false,
            'R' => self.receiver = false,
            'T' => {
                self.tries += 1;
                self.pending = false;
            }
            _ => {}
        }
    }
}

fn enumerate(out: &mut Out, len: usize, max_noops: u32, min_noops: u32, min_len: usize) {
    enumerate_kind(out, "X", len, max_noops, min_noops, min_len)
}
fn enumerate_kind(out: &mut Out, kind: &str, len: usize, max_noops: u32, min_noops: u32, min_len: usize) {
    fn rec(out: &mut Out, kind: &str, g: Gen, s: &mut String, len: usize, max_noops: u32, min_noops: u32, min_len: usize) {
        let ops = g.ops(max_noops);
        if s.len() == len || ops.is_empty() {
            if g.noops >= min_noops && !s.is_empty() && s.len() >= min_len && (kind != "XT" || g.tries > 0) && (!kind.ends_with('K') || g.clears > 0) {
                let c = format!("{} {}", &kind[..1], s);
                let o = run_case(&c);
                out.case(&c, &o);
            }
            return;
        }
        for op in ops {
            let mut g2 = g;
            g2.apply(op);
            s.push(op);
            rec(out, kind, g2, s, len, max_noops, min_noops, min_len);
            s.pop();
        }
    }
    let mut s = String::new();
    let mut g = Gen::new();
    g.eager = kind == "Y";
    if kind == "XT" {
        g.max_tries = 3;
    }
    if kind == "XK" || kind == "YK" {
        g.max_clears = 2;
        g.eager = kind == "YK";
    }
    rec(out, kind, g, &mut s, len, max_noops, min_noops, min_len);
}

fn main() {
    let a = parse_args();
    let mut out = Out::create(&a.out);
    if let Some(p) = &a.replay {
        for c in read_cases(p) {
            let o = run_case(&c);
            out.case(&c, &o);
        }
        out.finish();
        return;
    }
    let thorough = a.tier == "thorough";
    // exhaustive part (only maximal scripts are written: the observations of every prefix are in them)
    if thorough {
        enumerate(&mut out, 14, 1, 0, 0); // every script up to length 14 with at most one no-op closure
        enumerate(&mut out, 11, 99, 2, 0); // plus up to length 11 with any number of no-op closures
    } else {
        enumerate(&mut out, 10, 99, 0, 0); // every script up to length 10
        enumerate(&mut out, 12, 0, 0, 11); // plus lengths 11 and 12 without the no-op closure
    }
    // scripts with try_recv (1..3 of them, at most one no-op closure) up to length 9 / 11
    enumerate_kind(&mut out, "XT", if thorough { 11 } else { 9 }, 1, 0, 0);
    // scripts with 1..2 clearing closures (at most one no-op) up to length 9 / 11, plain and eager waker
    enumerate_kind(&mut out, "XK", if thorough { 11 } else { 9 }, 1, 0, 0);
    enumerate_kind(&mut out, "YK", if thorough { 10 } else { 8 }, 1, 0, 0);
    // the same with the eager waker (every script up to length 9 / 12 with at most one no-op)
    if thorough {
        enumerate_kind(&mut out, "Y", 12, 1, 0, 0);
    } else {
        enumerate_kind(&mut out, "Y", 9, 99, 0, 0);
    }
    // the value that travels through the channel: every script of merge functions / takes up to length 5 (6)
    {
        let alphabet = ['f', 'F', 'g', 'G', 'c', 't', 'u', 'v', 'd', 'e', 'k'];
        let len = if thorough { 6 } else { 5 };
        let mut idx = vec![0usize; len];
        loop {
            let sc: String = idx.iter().map(|i| alphabet[*i]).collect();
            let c = format!("U {}", sc);
            let o = run_case(&c);
            out.case(&c, &o);
            let mut k = len;
            loop {
                if k == 0 {
                    break;
                }
                k -= 1;
                idx[k] += 1;
                if idx[k] < alphabet.len() {
                    break;
                }
                idx[k] = 0;
                if k == 0 {
                    k = usize::MAX;
                    break;
                }
            }
            if k == usize::MAX {
                break;
            }
        }
    }
    // the fetch plan: every script over {f, t, c} up to length 8 (10), and the 11 distinct slot configurations of a poll
    {
        let max = if thorough { 10 } else { 8 };
        let mut stack: Vec<String> = vec![String::new()];
        while let Some(sc) = stack.pop() {
            if sc.len() == max {
                let c = format!("F p{}", sc);
                let o = run_case(&c);
                out.case(&c, &o);
                continue;
            }
            for ch in ['f', 't', 'c'] {
                let mut n = sc.clone();
                n.push(ch);
                stack.push(n);
            }
        }
        // the 11 distinct configurations: 9 of the Partial variant, 2 of the Full variant (its other two digits are ignored)
        for c in ["000", "001", "002", "010", "011", "012", "020", "021", "022", "100", "200"] {
            let c = format!("F r{}", c);
            let o = run_case(&c);
            out.case(&c, &o);
        }
    }
    // seeded long scripts
    let mut r = Rng::new(a.seed);
    for _ in 0..a.n / 2 {
        let len = r.range(6, 40) as usize;
        // refresh-heavy: full fetches with responses and takes dominate
        let sc: String = (0..len)
            .map(|_| *r.pick(&['F', 'F', 'G', 'F', 'k', 'k', 'f', 'g', 'c', 't', 'u', 'v', 'd', 'e', 'F', 't']))
            .collect();
        let c = format!("U {}", sc);
        let o = run_case(&c);
        out.case(&c, &o);
    }
    for _ in 0..a.n {
        let len = r.range(15, 60) as usize;
        let mut g = Gen::new();
        g.max_tries = u32::MAX;
        g.max_clears = u32::MAX;
        let mut s = String::new();
        // per-script bias so that some scripts are producer-heavy, some consumer-heavy
        let bias = r.below(3);
        while s.len() < len {
            let ops = g.ops(u32::MAX);
            if ops.is_empty() {
                break;
            }
            let op = loop {
                let c = *r.pick(&ops);
                let keep = match (c, bias) {
                    ('D', _) | ('R', _) => r.chance(1, 12), // endpoints mostly stay alive
                    ('M', 1) | ('N', 1) => r.chance(1, 3),
                    ('P', 0) | ('C', 0) => r.chance(1, 3),
                    _ => true,
                };
                if keep {
                    break c;
                }
            };
            g.apply(op);
            s.push(op);
        }
        let c = format!("Q {}", s);
        let o = run_case(&c);
        out.case(&c, &o);
    }
    // multi-thread stress: 50 * n merges in total (quick 10^6, thorough 10^7)
    let total = a.n * 50;
    let cases: u64 = if thorough { 10 } else { 5 };
    let mut serial = a.seed.wrapping_mul(7919) & 0xffff_ffff;
    for k in 0..cases {
        serial += 1;
        let mode = k % 4;
        let n = total / cases;
        let c = format!("S {:x} {:x} {:x}", serial, n, mode);
        let o = run_case(&c);
        out.case(&c, &o);
    }
    // end-to-end: requested metadata refreshes are answered and the published state is the latest topology
    let z_cases: u64 = if thorough { 36 } else { 21 };
    for k in 0..z_cases {
        serial += 1;
        // k = 1 mod 3: busy-consumer scenario (mode 1) with four staged refreshes per round;
        // k = 2 mod 3: failing fetches (mode 2)
        let c = if k % 3 == 1 {
            format!("Z {:x} {:x} {:x} 1", serial, 1 + k % 2, 3 + k % 3)
        } else if k % 6 == 5 {
            format!("Z {:x} {:x} {:x} 3", serial, 1 + (k / 6) % 2, 4 + 2 * ((k / 6) % 3))
        } else if k % 3 == 2 {
            format!("Z {:x} {:x} {:x} 2", serial, 2 + k % 2, [1u64, 3, 6][((k / 3) % 3) as usize])
        } else {
            format!("Z {:x} {:x} {:x} 0", serial, 3 + k % 4, [1u64, 4, 16][((k / 3) % 3) as usize])
        };
        let o = run_case(&c);
        out.case(&c, &o);
    }
    out.finish();
}
