//! C19 runner: drives the REAL merge channel (hook H7: scylla::cluster::metadata::verif_merge_channel)
//! and writes what it observed, for the extracted model.
//!
//! Case kinds:
//!   X <script>   exhaustive part: every script over the alphabet below up to the tier's length
//!   Q <script>   seeded random long scripts (`--n` of them)
//!       | <obs>/<wakes>,<obs>/<wakes>,...        one token per operation of the script
//!     The script is executed on ONE thread by a hand-written poll loop: the recv future is
//!     created, polled (Future::poll with a counting waker), dropped exactly where the script
//!     says, so every interleaving of the two endpoints AT POLL GRANULARITY is reachable.
//!       M  tx.modify(|slot| slot.get_or_insert_default().push(tag))   tag = number of M's before it
//!       N  tx.modify(|_slot| {})                                      a closure that changes nothing
//!       D  drop(tx)
//!       P  poll the recv future (created first if none is alive)
//!       C  drop the pending recv future (cancel)
//!       R  drop(rx)   (only when no recv future is alive)
//!     obs: k = Ok, e = Err(SendError), u = (), p = Poll::Pending, rn = Ready(None),
//!          r<t>.<t>... = Ready(Some(vec![t, ...])) (hex tags); wakes = cumulative number of
//!          Waker::wake calls seen by the counting waker (hex).
//!   S <serial> <n> <mode>   multi-thread stress: a producer thread merges the tags 0..n-1 and drops
//!       the sender; the consumer (tokio current-thread runtime on another OS thread) receives until
//!       None.  mode 0 plain loop, 1 the recv future is cancelled and restarted all the time
//!       (select! against yield_now), 2 the producer pauses so that the consumer really parks,
//!       3 slow consumer + no-op closures in between.
//!       | <batch>;<batch>;... end|hang     batch = runs "start+len" joined by '.', maximal runs of
//!       consecutive tags (lossless run-length encoding of the received Vec).
//!   Z <serial> <rounds> <concurrent>   end-to-end (the channel inside the driver, between the metadata worker
//!       and the cluster worker): a real Session on a mocknode cluster; every round adds a node to the mock
//!       cluster and issues <concurrent> Session::refresh_metadata calls at once.
//!       | <completed>/<ok>/<nodes the session's cluster state shows>/<nodes of the mock>,...   one token per round
use scylla::client::session_builder::SessionBuilder;
use scylla::cluster::metadata::verif_merge_channel as hook;
use vh::mocknode as mock;
use std::future::Future;
use std::pin::Pin;
use std::sync::atomic::{AtomicUsize, Ordering};
use std::sync::Arc;
use std::task::{Context, Poll, Wake, Waker};
use std::time::Duration;
use vh::*;

struct Counter(AtomicUsize);
impl Wake for Counter {
    fn wake(self: Arc<Self>) {
        self.0.fetch_add(1, Ordering::SeqCst);
    }
    fn wake_by_ref(self: &Arc<Self>) {
        self.0.fetch_add(1, Ordering::SeqCst);
    }
}

type RecvFut = Pin<Box<dyn Future<Output = Option<Vec<u64>>>>>;

fn run_script(script: &str) -> String {
    let (tx, rx) = hook::verif_merge_channel::<Vec<u64>>();
    let mut tx = Some(tx);
    // the receiver lives behind a raw pointer so that the recv future (which borrows it mutably)
    // can be kept across script steps; the future is always dropped before the receiver
    let rx_ptr: *mut hook::VerifReceiver<Vec<u64>> = Box::into_raw(Box::new(rx));
    let mut rx_alive = true;
    let mut fut: Option<RecvFut> = None;
    let counter = Arc::new(Counter(AtomicUsize::new(0)));
    let waker = Waker::from(counter.clone());
    let mut cx = Context::from_waker(&waker);
    let mut next_tag: u64 = 0;
    let mut out = String::with_capacity(script.len() * 6);
    let mut err: Option<String> = None;
    for (i, op) in script.chars().enumerate() {
        let tok: String = match op {
            'M' | 'N' => match tx.as_mut() {
                Some(t) => {
                    let r = if op == 'M' {
                        let tag = next_tag;
                        next_tag += 1;
                        t.modify(|slot| slot.get_or_insert_default().push(tag))
                    } else {
                        t.modify(|_slot| {})
                    };
                    if r.is_ok() { "k".into() } else { "e".into() }
                }
                None => {
                    err = Some(format!("error unavailable op {} at {}", op, i));
                    break;
                }
            },
            'D' => match tx.take() {
                Some(t) => {
                    drop(t);
                    "u".into()
                }
                None => {
                    err = Some(format!("error unavailable op D at {}", i));
                    break;
                }
            },
            'P' => {
                if !rx_alive {
                    err = Some(format!("error unavailable op P at {}", i));
                    break;
                }
                if fut.is_none() {
                    // SAFETY: rx_ptr is valid while rx_alive; at most one future borrows it at a time
                    // and it is dropped before the receiver is.
                    fut = Some(Box::pin(unsafe { (*rx_ptr).recv() }));
                }
                match fut.as_mut().unwrap().as_mut().poll(&mut cx) {
                    Poll::Pending => "p".into(),
                    Poll::Ready(v) => {
                        fut = None;
                        match v {
                            None => "rn".into(),
                            Some(l) => format!("r{}", l.iter().map(|t| format!("{:x}", t)).collect::<Vec<_>>().join(".")),
                        }
                    }
                }
            }
            'C' => {
                if fut.is_none() {
                    err = Some(format!("error unavailable op C at {}", i));
                    break;
                }
                fut = None;
                "u".into()
            }
            'R' => {
                if fut.is_some() || !rx_alive {
                    err = Some(format!("error unavailable op R at {}", i));
                    break;
                }
                // SAFETY: no future borrows the receiver
                drop(unsafe { Box::from_raw(rx_ptr) });
                rx_alive = false;
                "u".into()
            }
            _ => {
                err = Some(format!("error unknown op {} at {}", op, i));
                break;
            }
        };
        if i > 0 {
            out.push(',');
        }
        out.push_str(&tok);
        out.push('/');
        out.push_str(&format!("{:x}", counter.0.load(Ordering::SeqCst)));
    }
    drop(fut);
    drop(tx);
    if rx_alive {
        drop(unsafe { Box::from_raw(rx_ptr) });
    }
    match err {
        Some(e) => e,
        None => {
            if out.is_empty() {
                "-".into()
            } else {
                out
            }
        }
    }
}

/// run-length encoding of one received batch
fn enc_batch(o: &mut String, b: &[u64]) {
    let mut i = 0;
    let mut first = true;
    while i < b.len() {
        let mut j = i + 1;
        while j < b.len() && b[j] == b[j - 1].wrapping_add(1) {
            j += 1;
        }
        if !first {
            o.push('.');
        }
        first = false;
        o.push_str(&format!("{:x}+{:x}", b[i], j - i));
        i = j;
    }
    if first {
        o.push_str("0+0");
    }
}

fn run_stress(n: u64, mode: u64, seed: u64) -> String {
    let (mut tx, mut rx) = hook::verif_merge_channel::<Vec<u64>>();
    let (done_tx, done_rx) = std::sync::mpsc::channel::<String>();
    let consumer = std::thread::spawn(move || {
        let rt = tokio::runtime::Builder::new_current_thread().enable_time().build().unwrap();
        let s = rt.block_on(async move {
            let mut o = String::new();
            let mut first = true;
            let mut push = |o: &mut String, b: &[u64]| {
                if !first {
                    o.push(';');
                }
                first = false;
                enc_batch(o, b);
            };
            loop {
                let got = match mode {
                    1 => {
                        // cancel and restart the receive whenever it is not immediately ready
                        tokio::select! {
                            biased;
                            v = rx.recv() => Some(v),
                            _ = tokio::task::yield_now() => None,
                        }
                    }
                    _ => Some(rx.recv().await),
                };
                match got {
                    None => continue,
                    Some(None) => break,
                    Some(Some(b)) => {
                        push(&mut o, &b);
                        if mode == 3 {
                            tokio::time::sleep(Duration::from_micros(20)).await;
                        }
                    }
                }
            }
            if first {
                o.push('-');
            }
            o
        });
        let _ = done_tx.send(s);
    });
    let producer = std::thread::spawn(move || {
        let mut r = Rng::new(seed);
        for i in 0..n {
            tx.modify(|slot| slot.get_or_insert_default().push(i)).expect("receiver alive");
            match mode {
                2 => {
                    if r.chance(1, 2000) {
                        std::thread::sleep(Duration::from_micros(50 + r.below(200)));
                    }
                }
                3 => {
                    if i % 7 == 3 {
                        tx.modify(|_slot| {}).expect("receiver alive");
                    }
                }
                _ => {}
            }
        }
        drop(tx);
    });
    match done_rx.recv_timeout(Duration::from_secs(180)) {
        Ok(s) => {
            let _ = producer.join();
            let _ = consumer.join();
            format!("{} end", s)
        }
        Err(_) => "- hang".into(),
    }
}

async fn run_e2e(serial: u64, rounds: usize, concurrent: usize) -> Result<String, String> {
    let spec = mock::ClusterSpec::uniform("c19", &[("dc1", 1)], 1, 4, 2).with_keyspace(mock::KeyspaceDef::simple("ks", 1));
    let cluster = mock::MockCluster::start(spec).await.map_err(|e| format!("mock start: {e}"))?;
    let session = Arc::new(
        SessionBuilder::new()
            .known_node_addr(cluster.contact_point(0))
            .connection_timeout(Duration::from_secs(5))
            .build()
            .await
            .map_err(|e| format!("session: {e}"))?,
    );
    let mut r = Rng::new(serial);
    let mut toks = Vec::new();
    for _ in 0..rounds {
        let idx = cluster.spec().nodes.len();
        let node = mock::NodeSpec {
            host_id: mock::host_id_for(idx),
            dc: "dc1".into(),
            rack: "r1".into(),
            tokens: (0..4).map(|_| r.i64()).collect(),
            nr_shards: 2,
            msb_ignore: 12,
            metadata_id_ext: None,
        };
        cluster.add_node(node).await.map_err(|e| format!("add_node: {e}"))?;
        let mut tasks = Vec::new();
        for _ in 0..concurrent {
            let s = session.clone();
            tasks.push(tokio::spawn(async move { tokio::time::timeout(Duration::from_secs(30), s.refresh_metadata()).await }));
        }
        let (mut completed, mut ok) = (0, 0);
        for t in tasks {
            if let Ok(Ok(res)) = t.await {
                completed += 1;
                if res.is_ok() {
                    ok += 1;
                }
            }
        }
        let seen = session.get_cluster_state().get_nodes_info().len();
        toks.push(format!("{:x}/{:x}/{:x}/{:x}", completed, ok, seen, cluster.spec().nodes.len()));
    }
    drop(session);
    cluster.shutdown();
    Ok(if toks.is_empty() { "-".into() } else { toks.join(",") })
}

fn run_case(case: &str) -> String {
    let f: Vec<&str> = case.split_whitespace().collect();
    match f[0] {
        "X" | "Q" if f.len() == 2 => run_script(f[1]),
        "S" if f.len() == 4 => {
            let h = |s: &str| u64::from_str_radix(s, 16).unwrap();
            let (serial, n, mode) = (h(f[1]), h(f[2]), h(f[3]));
            if n > 100_000_000 {
                return "error bad-parameters".into();
            }
            run_stress(n, mode, serial)
        }
        "Z" if f.len() == 4 => {
            let h = |s: &str| u64::from_str_radix(s, 16).unwrap();
            let (serial, rounds, concurrent) = (h(f[1]), h(f[2]) as usize, h(f[3]) as usize);
            if rounds > 64 || concurrent > 256 {
                return "error bad-parameters".into();
            }
            let rt = tokio::runtime::Builder::new_multi_thread().worker_threads(4).enable_all().build().unwrap();
            match rt.block_on(run_e2e(serial, rounds, concurrent)) {
                Ok(s) => s,
                Err(e) => format!("error e2e {}", e.replace(' ', "_")),
            }
        }
        _ => "error unknown-case".into(),
    }
}

/// what the generator tracks to produce only scripts whose operations are available
/// (predicted with the specification: a poll is Ready iff something is pending or the sender is gone)
#[derive(Clone, Copy)]
struct Gen {
    sender: bool,
    receiver: bool,
    pending: bool,
    fut: bool,
    noops: u32,
}
impl Gen {
    fn new() -> Self {
        Gen { sender: true, receiver: true, pending: false, fut: false, noops: 0 }
    }
    fn ops(&self, max_noops: u32) -> Vec<char> {
        let mut v = vec![];
        if self.sender {
            v.push('M');
            if self.noops < max_noops {
                v.push('N');
            }
            v.push('D');
        }
        if self.receiver {
            v.push('P');
            v.push(if self.fut { 'C' } else { 'R' });
        }
        v
    }
    fn apply(&mut self, op: char) {
        match op {
            'M' => {
                if self.receiver {
                    self.pending = true
                }
            }
            'N' => self.noops += 1,
            'D' => self.sender = false,
            'P' => {
                if self.pending {
                    self.pending = false;
                    self.fut = false;
                } else {
                    self.fut = self.sender;
                }
            }
            'C' => self.fut = false,
            'R' => self.receiver = false,
            _ => {}
        }
    }
}

fn enumerate(out: &mut Out, len: usize, max_noops: u32, min_noops: u32, min_len: usize) {
    fn rec(out: &mut Out, g: Gen, s: &mut String, len: usize, max_noops: u32, min_noops: u32, min_len: usize) {
        let ops = g.ops(max_noops);
        if s.len() == len || ops.is_empty() {
            if g.noops >= min_noops && !s.is_empty() && s.len() >= min_len {
                let c = format!("X {}", s);
                let o = run_case(&c);
                out.case(&c, &o);
            }
            return;
        }
        for op in ops {
            let mut g2 = g;
            g2.apply(op);
            s.push(op);
            rec(out, g2, s, len, max_noops, min_noops, min_len);
            s.pop();
        }
    }
    let mut s = String::new();
    rec(out, Gen::new(), &mut s, len, max_noops, min_noops, min_len);
}

fn main() {
    let a = parse_args();
    let mut out = Out::create(&a.out);
    if let Some(p) = &a.replay {
        for c in read_cases(p) {
            let o = run_case(&c);
            out.case(&c, &o);
        }
        out.finish();
        return;
    }
    let thorough = a.tier == "thorough";
    // exhaustive part (only maximal scripts are written: the observations of every prefix are in them)
    if thorough {
        enumerate(&mut out, 14, 1, 0, 0); // every script up to length 14 with at most one no-op closure
        enumerate(&mut out, 11, 99, 2, 0); // plus up to length 11 with any number of no-op closures
    } else {
        enumerate(&mut out, 10, 99, 0, 0); // every script up to length 10
        enumerate(&mut out, 12, 0, 0, 11); // plus lengths 11 and 12 without the no-op closure
    }
    // seeded long scripts
    let mut r = Rng::new(a.seed);
    for _ in 0..a.n {
        let len = r.range(15, 60) as usize;
        let mut g = Gen::new();
        let mut s = String::new();
        // per-script bias so that some scripts are producer-heavy, some consumer-heavy
        let bias = r.below(3);
        while s.len() < len {
            let ops = g.ops(u32::MAX);
            if ops.is_empty() {
                break;
            }
            let op = loop {
                let c = *r.pick(&ops);
                let keep = match (c, bias) {
                    ('D', _) | ('R', _) => r.chance(1, 12), // endpoints mostly stay alive
                    ('M', 1) | ('N', 1) => r.chance(1, 3),
                    ('P', 0) | ('C', 0) => r.chance(1, 3),
                    _ => true,
                };
                if keep {
                    break c;
                }
            };
            g.apply(op);
            s.push(op);
        }
        let c = format!("Q {}", s);
        let o = run_case(&c);
        out.case(&c, &o);
    }
    // multi-thread stress: 50 * n merges in total (quick 10^6, thorough 10^7)
    let total = a.n * 50;
    let cases: u64 = if thorough { 10 } else { 4 };
    let mut serial = a.seed.wrapping_mul(7919) & 0xffff_ffff;
    for k in 0..cases {
        serial += 1;
        let mode = k % 4;
        let n = total / cases;
        let c = format!("S {:x} {:x} {:x}", serial, n, mode);
        let o = run_case(&c);
        out.case(&c, &o);
    }
    // end-to-end: requested metadata refreshes are answered and the published state is the latest topology
    let z_cases: u64 = if thorough { 12 } else { 3 };
    for k in 0..z_cases {
        serial += 1;
        let c = format!("Z {:x} {:x} {:x}", serial, 3 + k % 4, [1u64, 4, 16][(k % 3) as usize]);
        let o = run_case(&c);
        out.case(&c, &o);
    }
    out.finish();
}
