//! C06 runner: feeds whole error histories to ONE real RetrySession (Default /
//! DowngradingConsistency / Fallthrough) through the `verif_retry::request_info` hook and
//! writes "<case> | <decisions>" lines for the extracted model.
//!
//! case  : `<kind> <policy> <step> <step> ...`      step = `<idem 0|1>/<consistency>/<error>`
//! error : `E.<RequestAttemptError variant>[:k]` | `Db.<DbError variant>[:field...]`
//!         (numbers signed hex; see `parse_err`)
//! output: one token per step: `S-` `S:<cl>` (RetrySameTarget) `N-` `N:<cl>` (RetryNextTarget)
//!         `D` (DontRetry) `I` (IgnoreWriteError)
use scylla::errors::{
    BrokenConnectionErrorKind, CqlErrorParseError, CqlRequestSerializationError, CqlResponseKind,
    CqlResultParseError, DbError, FrameBodyExtensionsParseError, OperationType,
    RequestAttemptError, SerializationError, WriteType,
};
use scylla::frame::frame_errors::{BatchSerializationError, LowLevelDeserializationError};
use scylla::policies::retry::verif_retry::request_info;
use scylla::policies::retry::{
    DefaultRetryPolicy, DowngradingConsistencyRetryPolicy, FallthroughRetryPolicy, RetryDecision,
    RetryPolicy, RetrySession,
};
use scylla::client::verif_execution as vx;
use scylla::errors::RequestError;
use scylla::policies::retry::RequestInfo;
use scylla::statement::Consistency;
use std::sync::{Arc, Mutex};
use vh::*;

#[path = "../e2e_attempts.rs"]
mod e2e;

const CLS: [(&str, Consistency); 11] = [
    ("Any", Consistency::Any),
    ("One", Consistency::One),
    ("Two", Consistency::Two),
    ("Three", Consistency::Three),
    ("Quorum", Consistency::Quorum),
    ("All", Consistency::All),
    ("LocalQuorum", Consistency::LocalQuorum),
    ("EachQuorum", Consistency::EachQuorum),
    ("LocalOne", Consistency::LocalOne),
    ("Serial", Consistency::Serial),
    ("LocalSerial", Consistency::LocalSerial),
];
const WTS: [&str; 9] = ["Simple", "Batch", "UnloggedBatch", "Counter", "BatchLog", "Cas", "View", "Cdc", "Other"];
const POLICIES: [&str; 3] = ["Default", "Downgrading", "Fallthrough"];

fn cl_of(s: &str) -> Consistency {
    CLS.iter().find(|(n, _)| *n == s).unwrap_or_else(|| panic!("bad consistency {s}")).1
}
fn cl_name(c: Consistency) -> &'static str {
    CLS.iter().find(|(_, v)| *v == c).unwrap().0
}
fn wt_of(s: &str) -> WriteType {
    match s {
        "Simple" => WriteType::Simple,
        "Batch" => WriteType::Batch,
        "UnloggedBatch" => WriteType::UnloggedBatch,
        "Counter" => WriteType::Counter,
        "BatchLog" => WriteType::BatchLog,
        "Cas" => WriteType::Cas,
        "View" => WriteType::View,
        "Cdc" => WriteType::Cdc,
        "Other" => WriteType::Other("SOMETHING_NEW".into()),
        _ => panic!("bad write type {s}"),
    }
}
fn num(s: &str) -> i32 {
    let v = if let Some(r) = s.strip_prefix('-') { -i64::from_str_radix(r, 16).unwrap() } else { i64::from_str_radix(s, 16).unwrap() };
    v as i32
}
fn lowlevel() -> LowLevelDeserializationError {
    LowLevelDeserializationError::TooFewBytesReceived { expected: 4, received: 1 }
}

/// Build the real error value from its token.
fn parse_err(tok: &str) -> RequestAttemptError {
    let f: Vec<&str> = tok.split(':').collect();
    let k = |i: usize| f.get(i).map(|s| num(s)).unwrap_or(0);
    match f[0] {
        "E.SerializationError" => RequestAttemptError::SerializationError(SerializationError::new(std::fmt::Error)),
        "E.CqlRequestSerialization" => RequestAttemptError::CqlRequestSerialization(
            CqlRequestSerializationError::BatchSerialization(BatchSerializationError::TooManyStatements(70000)),
        ),
        "E.UnableToAllocStreamId" => RequestAttemptError::UnableToAllocStreamId,
        "E.BrokenConnectionError" => RequestAttemptError::BrokenConnectionError(
            match k(1) {
                0 => BrokenConnectionErrorKind::ChannelError,
                1 => BrokenConnectionErrorKind::TooManyOrphanedStreamIds(5),
                2 => BrokenConnectionErrorKind::UnexpectedStreamId(7),
                3 => BrokenConnectionErrorKind::WriteError(std::io::Error::other("boom")),
                _ => BrokenConnectionErrorKind::KeepaliveTimeout("127.0.0.1".parse().unwrap()),
            }
            .into(),
        ),
        "E.BodyExtensionsParseError" => RequestAttemptError::BodyExtensionsParseError(if k(1) == 0 {
            FrameBodyExtensionsParseError::NoCompressionNegotiated
        } else {
            FrameBodyExtensionsParseError::TraceIdParse(lowlevel())
        }),
        "E.CqlResultParseError" => RequestAttemptError::CqlResultParseError(CqlResultParseError::UnknownResultId(k(1))),
        "E.CqlErrorParseError" => RequestAttemptError::CqlErrorParseError(CqlErrorParseError::ErrorCodeParseError(lowlevel())),
        "E.UnexpectedResponse" => RequestAttemptError::UnexpectedResponse(match k(1) {
            0 => CqlResponseKind::Ready,
            1 => CqlResponseKind::Supported,
            _ => CqlResponseKind::Event,
        }),
        "E.RepreparedIdChanged" => RequestAttemptError::RepreparedIdChanged {
            statement: "select 1".into(),
            expected_id: vec![1, 2],
            reprepared_id: vec![3],
        },
        "E.RepreparedIdMissingInBatch" => RequestAttemptError::RepreparedIdMissingInBatch,
        "E.NonfinishedPagingState" => RequestAttemptError::NonfinishedPagingState,
        db => {
            let e = match db {
                "Db.SyntaxError" => DbError::SyntaxError,
                "Db.Invalid" => DbError::Invalid,
                "Db.AlreadyExists" => DbError::AlreadyExists { keyspace: "ks".into(), table: "t".into() },
                "Db.FunctionFailure" => DbError::FunctionFailure { keyspace: "ks".into(), function: "f".into(), arg_types: vec!["int".into()] },
                "Db.AuthenticationError" => DbError::AuthenticationError,
                "Db.Unauthorized" => DbError::Unauthorized,
                "Db.ConfigError" => DbError::ConfigError,
                "Db.Unavailable" => DbError::Unavailable { consistency: cl_of(f[1]), required: k(2), alive: k(3) },
                "Db.Overloaded" => DbError::Overloaded,
                "Db.IsBootstrapping" => DbError::IsBootstrapping,
                "Db.TruncateError" => DbError::TruncateError,
                "Db.ReadTimeout" => DbError::ReadTimeout { consistency: cl_of(f[1]), received: k(2), required: k(3), data_present: k(4) != 0 },
                "Db.WriteTimeout" => DbError::WriteTimeout { consistency: cl_of(f[1]), received: k(2), required: k(3), write_type: wt_of(f[4]) },
                "Db.ReadFailure" => DbError::ReadFailure { consistency: cl_of(f[1]), received: k(2), required: k(3), numfailures: k(4), data_present: k(5) != 0 },
                "Db.WriteFailure" => DbError::WriteFailure { consistency: cl_of(f[1]), received: k(2), required: k(3), numfailures: k(4), write_type: wt_of(f[5]) },
                "Db.Unprepared" => DbError::Unprepared { statement_id: bytes::Bytes::from_static(b"deadbeef") },
                "Db.ServerError" => DbError::ServerError,
                "Db.ProtocolError" => DbError::ProtocolError,
                "Db.RateLimitReached" => DbError::RateLimitReached {
                    op_type: match k(1) { 0 => OperationType::Read, 1 => OperationType::Write, o => OperationType::Other(o as u8) },
                    rejected_by_coordinator: k(2) != 0,
                },
                "Db.Other" => DbError::Other(k(1)),
                _ => panic!("bad error token {tok}"),
            };
            RequestAttemptError::DbError(e, "reason".into())
        }
    }
}

fn dec_str(d: &RetryDecision) -> String {
    let c = |o: &Option<Consistency>| match o { None => "-".to_string(), Some(c) => format!(":{}", cl_name(*c)) };
    match d {
        RetryDecision::RetrySameTarget(o) => format!("S{}", c(o)),
        RetryDecision::RetryNextTarget(o) => format!("N{}", c(o)),
        RetryDecision::DontRetry => "D".into(),
        RetryDecision::IgnoreWriteError => "I".into(),
        _ => "?".into(),
    }
}

fn new_session(p: &str) -> Box<dyn RetrySession> {
    match p {
        "Default" => DefaultRetryPolicy::new().new_session(),
        "Downgrading" => DowngradingConsistencyRetryPolicy::new().new_session(),
        "Fallthrough" => FallthroughRetryPolicy::new().new_session(),
        _ => panic!("bad policy {p}"),
    }
}

// ---------------------------------------------------------------- the real execution loop
/// class (variant name) of a real error value, as the driver prints it for the model's errors
fn err_class(e: &RequestAttemptError) -> &'static str {
    match e {
        RequestAttemptError::SerializationError(_) => "E.SerializationError",
        RequestAttemptError::CqlRequestSerialization(_) => "E.CqlRequestSerialization",
        RequestAttemptError::UnableToAllocStreamId => "E.UnableToAllocStreamId",
        RequestAttemptError::BrokenConnectionError(_) => "E.BrokenConnectionError",
        RequestAttemptError::BodyExtensionsParseError(_) => "E.BodyExtensionsParseError",
        RequestAttemptError::CqlResultParseError(_) => "E.CqlResultParseError",
        RequestAttemptError::CqlErrorParseError(_) => "E.CqlErrorParseError",
        RequestAttemptError::UnexpectedResponse(_) => "E.UnexpectedResponse",
        RequestAttemptError::RepreparedIdChanged { .. } => "E.RepreparedIdChanged",
        RequestAttemptError::RepreparedIdMissingInBatch => "E.RepreparedIdMissingInBatch",
        RequestAttemptError::NonfinishedPagingState => "E.NonfinishedPagingState",
        RequestAttemptError::DbError(db, _) => match db {
            DbError::SyntaxError => "Db.SyntaxError",
            DbError::Invalid => "Db.Invalid",
            DbError::AlreadyExists { .. } => "Db.AlreadyExists",
            DbError::FunctionFailure { .. } => "Db.FunctionFailure",
            DbError::AuthenticationError => "Db.AuthenticationError",
            DbError::Unauthorized => "Db.Unauthorized",
            DbError::ConfigError => "Db.ConfigError",
            DbError::Unavailable { .. } => "Db.Unavailable",
            DbError::Overloaded => "Db.Overloaded",
            DbError::IsBootstrapping => "Db.IsBootstrapping",
            DbError::TruncateError => "Db.TruncateError",
            DbError::ReadTimeout { .. } => "Db.ReadTimeout",
            DbError::WriteTimeout { .. } => "Db.WriteTimeout",
            DbError::ReadFailure { .. } => "Db.ReadFailure",
            DbError::WriteFailure { .. } => "Db.WriteFailure",
            DbError::Unprepared { .. } => "Db.Unprepared",
            DbError::ServerError => "Db.ServerError",
            DbError::ProtocolError => "Db.ProtocolError",
            DbError::RateLimitReached { .. } => "Db.RateLimitReached",
            DbError::Other(_) => "Db.Other",
            _ => "Db.?",
        },
        _ => "E.?",
    }
}

/// (error class, idempotent, consistency) the loop put into RequestInfo, and the decision
type DecisionLog = Arc<Mutex<Vec<(&'static str, bool, Consistency, RetryDecision)>>>;

/// The real policy, with every decision of its sessions recorded.
#[derive(Debug)]
struct Recording {
    policy: &'static str,
    log: DecisionLog,
    sessions: Arc<Mutex<u32>>,
}
struct RecordingSession {
    inner: Box<dyn RetrySession>,
    log: DecisionLog,
}
impl RetryPolicy for Recording {
    fn new_session(&self) -> Box<dyn RetrySession> {
        *self.sessions.lock().unwrap() += 1;
        Box::new(RecordingSession { inner: new_session(self.policy), log: self.log.clone() })
    }
}
impl RetrySession for RecordingSession {
    fn decide_should_retry(&mut self, ri: RequestInfo) -> RetryDecision {
        let (class, idem, cl) = (err_class(ri.error), ri.is_idempotent, ri.consistency);
        let d = self.inner.decide_should_retry(ri);
        self.log.lock().unwrap().push((class, idem, cl, d.clone()));
        d
    }
    fn reset(&mut self) {
        self.inner.reset()
    }
}

struct LoopEnv {
    rt: tokio::runtime::Runtime,
    conn: vx::IdleConnection,
}
fn loop_env() -> LoopEnv {
    // a listener that accepts and keeps the sockets open without ever writing
    let listener = std::net::TcpListener::bind("127.0.0.1:0").expect("bind loopback");
    let addr = listener.local_addr().unwrap();
    std::thread::spawn(move || {
        let mut keep = Vec::new();
        for s in listener.incoming() {
            if let Ok(s) = s {
                keep.push(s);
            }
        }
    });
    let rt = tokio::runtime::Builder::new_current_thread().enable_all().build().unwrap();
    let conn = rt.block_on(vx::idle_connection(addr)).expect("idle connection");
    LoopEnv { rt, conn }
}

/// `F <policy> <idem> <cl0> <plan length> <outcome>...` ; outcome = `C` (get_connection fails) |
/// `K` (attempt succeeds) | `X/<error>` (attempt fails).  Runs the REAL
/// run_request_no_side_effects / run_request_speculative_fiber through the verif hook.
/// output: `c<t>` | `a<t>/<cl>/ok` | `a<t>/<cl>/<error class>/<decision>` ... `=>` result
fn run_fiber_case(env: &LoopEnv, case: &str) -> String {
    let f: Vec<&str> = case.split_whitespace().collect();
    let policy: &'static str = POLICIES.iter().find(|p| **p == f[1]).expect("bad policy");
    let idem = f[2] == "1";
    let cl0 = cl_of(f[3]);
    let nplan: usize = f[4].parse().unwrap();
    let outcomes: Vec<vx::Outcome> = f[5..]
        .iter()
        .map(|o| match *o {
            "C" => vx::Outcome::ConnFail,
            "K" => vx::Outcome::Success,
            x => vx::Outcome::Error(parse_err(x.strip_prefix("X/").expect("bad outcome"))),
        })
        .collect();
    let rec = Recording { policy, log: Default::default(), sessions: Default::default() };
    let _guard = env.rt.enter();
    let (events, result) = vx::run_scripted_request(&env.conn, &rec, idem, cl0, nplan, outcomes);
    let log = rec.log.lock().unwrap();
    let mut li = 0;
    let mut out: Vec<String> = Vec::new();
    for ev in &events {
        match ev {
            vx::Event::ConnFail(t) => out.push(format!("c{t:x}")),
            vx::Event::Attempt(t, cl, true) => out.push(format!("a{t:x}/{}/ok", cl_name(*cl))),
            vx::Event::Attempt(t, cl, false) => match log.get(li) {
                Some((class, ri_idem, ri_cl, d)) => {
                    li += 1;
                    let bad = if *ri_idem != idem || ri_cl != cl { "!ri" } else { "" };
                    out.push(format!("a{t:x}/{}/{class}/{}{bad}", cl_name(*cl), dec_str(d)));
                }
                None => out.push(format!("a{t:x}/{}/?/?", cl_name(*cl))),
            },
        }
    }
    if li != log.len() {
        out.push(format!("!decisions={}", log.len()));
    }
    if *rec.sessions.lock().unwrap() > 1 {
        out.push(format!("!sessions={}", rec.sessions.lock().unwrap()));
    }
    out.push("=>".into());
    out.push(match result {
        vx::FiberResult::Completed(t) => format!("completed:{t:x}"),
        vx::FiberResult::IgnoredWriteError(t) => format!("ignored:{t:x}"),
        vx::FiberResult::Pending => "pending".into(),
        vx::FiberResult::Failed(RequestError::EmptyPlan) => "emptyplan".into(),
        vx::FiberResult::Failed(RequestError::ConnectionPoolError(_)) => "failed:pool".into(),
        vx::FiberResult::Failed(RequestError::LastAttemptError(e)) => format!("failed:{}", err_class(&e)),
        vx::FiberResult::Failed(e) => format!("failed:?{e:?}").replace(' ', "_"),
    });
    out.join(" ")
}

fn run_any(env: &LoopEnv, case: &str) -> String {
    if case.starts_with("F ") {
        let (e, c) = (std::panic::AssertUnwindSafe(env), case.to_string());
        match catch(move || run_fiber_case(&e, &c)) {
            Ok(s) => s,
            Err(m) => format!("panic:{}", m.replace(' ', "_")),
        }
    } else {
        run_case(case)
    }
}

/// One history on one session.
fn run_case(case: &str) -> String {
    let case = case.to_string();
    match catch(move || {
        let f: Vec<&str> = case.split_whitespace().collect();
        let mut session = new_session(f[1]);
        let mut out = Vec::new();
        for step in &f[2..] {
            let mut it = step.splitn(3, '/');
            let idem = it.next().unwrap() == "1";
            let cl = cl_of(it.next().unwrap());
            let err = parse_err(it.next().unwrap());
            let d = session.decide_should_retry(request_info(&err, idem, cl));
            out.push(dec_str(&d));
        }
        out.join(" ")
    }) {
        Ok(s) => s,
        Err(_) => "panic".into(),
    }
}

// ---------------------------------------------------------------- error domains
const V: [i32; 8] = [i32::MIN, -1, 0, 1, 2, 3, 4, i32::MAX];
fn h(v: i32) -> String {
    hex_i(v as i128)
}

/// every variant x boundary field values x write types (the "abstract error domain")
fn dom_full() -> Vec<String> {
    let mut d: Vec<String> = Vec::new();
    for e in ["SerializationError", "CqlRequestSerialization", "UnableToAllocStreamId", "BodyExtensionsParseError:0",
        "BodyExtensionsParseError:1", "CqlResultParseError:7", "CqlErrorParseError", "UnexpectedResponse:0",
        "UnexpectedResponse:1", "UnexpectedResponse:2", "RepreparedIdChanged", "RepreparedIdMissingInBatch",
        "NonfinishedPagingState", "BrokenConnectionError:0", "BrokenConnectionError:1", "BrokenConnectionError:2",
        "BrokenConnectionError:3", "BrokenConnectionError:4"] {
        d.push(format!("E.{e}"));
    }
    for e in ["SyntaxError", "Invalid", "AlreadyExists", "FunctionFailure", "AuthenticationError", "Unauthorized",
        "ConfigError", "Overloaded", "IsBootstrapping", "TruncateError", "Unprepared", "ServerError", "ProtocolError",
        "RateLimitReached:0:0", "RateLimitReached:1:1", "RateLimitReached:7:0", "Other:0", "Other:1000", "Other:-1"] {
        d.push(format!("Db.{e}"));
    }
    for (i, a) in V.iter().enumerate() {
        for (j, b) in V.iter().enumerate() {
            let icl = CLS[(i + 3 * j) % 11].0;
            d.push(format!("Db.Unavailable:{icl}:{}:{}", h(*a), h(*b)));
            for dp in 0..2 {
                d.push(format!("Db.ReadTimeout:{icl}:{}:{}:{dp}", h(*a), h(*b)));
            }
        }
        for req in [0, 2, i32::MAX] {
            for wt in WTS {
                d.push(format!("Db.WriteTimeout:Quorum:{}:{}:{wt}", h(*a), h(req)));
            }
        }
        d.push(format!("Db.ReadFailure:Two:{}:2:1:{}", h(*a), i % 2));
        d.push(format!("Db.WriteFailure:Two:{}:2:1:{}", h(*a), WTS[i % 9]));
    }
    d
}

/// representatives that reach every branch and every session-state change
fn dom_small() -> Vec<String> {
    let mut d: Vec<String> = vec![
        "E.BrokenConnectionError:0".into(), "E.UnableToAllocStreamId".into(), "E.CqlResultParseError:1".into(),
        "Db.Overloaded".into(), "Db.ServerError".into(), "Db.TruncateError".into(), "Db.IsBootstrapping".into(),
        "Db.SyntaxError".into(), "Db.WriteFailure:Two:1:2:1:BatchLog".into(),
    ];
    for alive in 0..4 {
        d.push(format!("Db.Unavailable:Quorum:4:{alive}"));
    }
    for (recv, req, dp) in [(2, 2, 0), (2, 2, 1), (1, 2, 0), (0, 2, 1), (3, 4, 0), (2, 3, 1)] {
        d.push(format!("Db.ReadTimeout:Quorum:{recv}:{req}:{dp}"));
    }
    for wt in WTS {
        for recv in [0, 2] {
            d.push(format!("Db.WriteTimeout:Quorum:{recv}:3:{wt}"));
        }
    }
    d
}

fn gen_err(r: &mut Rng, small: &[String], full: &[String]) -> String {
    match r.below(10) {
        0..=5 => r.pick(small).clone(),
        6 | 7 => r.pick(full).clone(),
        _ => {
            let v = |r: &mut Rng| if r.chance(1, 3) { r.u64() as i32 } else { r.range(0, 5) as i32 - 1 };
            let icl = r.pick(&CLS).0;
            match r.below(3) {
                0 => format!("Db.Unavailable:{icl}:{}:{}", h(v(r)), h(v(r))),
                1 => format!("Db.ReadTimeout:{icl}:{}:{}:{}", h(v(r)), h(v(r)), r.below(2)),
                _ => format!("Db.WriteTimeout:{icl}:{}:{}:{}", h(v(r)), h(v(r)), r.pick(&WTS)),
            }
        }
    }
}

/// random history: consistency constant / following the carried consistency like the
/// execution loop does / random per step; idempotence mostly constant
fn gen_history(r: &mut Rng, small: &[String], full: &[String]) -> String {
    let np = if r.chance(1, 12) { 3 } else { 2 };
    let p = *r.pick(&POLICIES[..np]);
    let len = r.range(1, 8);
    let mode = r.below(10);
    let idem0 = r.bool();
    let idem_const = !r.chance(1, 10);
    let mut cl = if r.chance(1, 6) { *r.pick(&[Consistency::Serial, Consistency::LocalSerial]) } else { r.pick(&CLS).1 };
    let mut session = new_session(p);
    let mut steps = Vec::new();
    for _ in 0..len {
        let idem = if idem_const { idem0 } else { r.bool() };
        if mode >= 9 {
            cl = r.pick(&CLS).1;
        }
        let e = gen_err(r, small, full);
        steps.push(format!("{}/{}/{}", idem as u8, cl_name(cl), e));
        if (6..9).contains(&mode) {
            // follow the loop: `current_consistency = new_cl.unwrap_or(current_consistency)`
            let err = parse_err(&e);
            match session.decide_should_retry(request_info(&err, idem, cl)) {
                RetryDecision::RetrySameTarget(Some(c)) | RetryDecision::RetryNextTarget(Some(c)) => cl = c,
                _ => {}
            }
        }
    }
    format!("R {p} {}", steps.join(" "))
}

/// random outcome stream for the real loop: plan 0..5 targets, up to plan + 4 outcomes; half of
/// the streams are biased towards errors that make the policy retry, so that long runs occur
fn gen_fiber(r: &mut Rng, small: &[String], full: &[String]) -> String {
    const RETRYING: [&str; 9] = ["Db.Unavailable:Quorum:3:2", "Db.Unavailable:EachQuorum:3:0", "Db.ReadTimeout:Quorum:2:2:0",
        "Db.ReadTimeout:All:1:3:1", "Db.WriteTimeout:Quorum:1:2:BatchLog", "Db.WriteTimeout:Quorum:2:3:UnloggedBatch",
        "Db.Overloaded", "Db.IsBootstrapping", "E.UnableToAllocStreamId"];
    let np = if r.chance(1, 10) { 3 } else { 2 };
    let p = *r.pick(&POLICIES[..np]);
    let heavy = r.bool();
    let nplan = if heavy { r.range(2, 5) } else { r.below(6) };
    let len = if heavy { r.range(nplan, nplan + 4) } else { r.range(0, nplan + 4) };
    let pser = if heavy { 12 } else { 6 };
    let cl = if r.chance(1, pser) { *r.pick(&["Serial", "LocalSerial"]) } else { r.pick(&CLS).0 };
    let idem = if heavy { (!r.chance(1, 4)) as u64 } else { r.below(2) };
    let pkmax = if heavy { 1 } else { 3 };
    let pk = r.range(0, pkmax); // probability of a success, in tenths
    let pc = r.range(0, 3); // ... of a failed connection acquisition
    let mut outs = Vec::new();
    for _ in 0..len {
        let x = r.below(10);
        outs.push(if x < pk {
            "K".to_string()
        } else if x < pk + pc {
            "C".to_string()
        } else if heavy && !r.chance(1, 12) {
            format!("X/{}", r.pick(&RETRYING))
        } else {
            format!("X/{}", gen_err(r, small, full))
        });
    }
    format!("F {p} {idem} {cl} {nplan} {}", outs.join(" ")).trim_end().to_string()
}

fn main() {
    let a = parse_args();
    quiet_panics();
    let mut out = Out::create(&a.out);
    let env = loop_env();
    if let Some(p) = &a.replay {
        for c in read_cases(p) {
            if e2e::is_e2e_case(&c) {
                e2e::replay_case(&c, &mut out);
                continue;
            }
            let o = run_any(&env, &c);
            out.case(&c, &o);
        }
        out.finish();
        return;
    }
    // E6: end-to-end scenarios (real Session against the mock cluster), see e2e_attempts.rs
    let e2e_n: u64 = std::env::var("E2E_N").ok().and_then(|s| s.parse().ok()).unwrap_or(if a.tier != "thorough" {
        260
    } else if a.n >= 6_000_000 {
        2500
    } else {
        600 // the orchestrator's search rounds
    });
    e2e::run(e2e::Mix::C06, a.seed, e2e_n, &a.tier, &mut out);
    if std::env::var("E2E_ONLY").is_ok() {
        out.finish();
        return;
    }
    let full = dom_full();
    let small = dom_small();
    let thorough = a.tier == "thorough";
    // X1: exhaustive over the abstract error domain x consistency x idempotence x policy, fresh session
    for p in POLICIES {
        for e in &full {
            for (cn, _) in CLS {
                for idem in 0..2 {
                    let c = format!("X1 {p} {idem}/{cn}/{e}");
                    let o = run_case(&c);
                    out.case(&c, &o);
                }
            }
        }
    }
    // X2: every pair of representatives on one session x consistency x idempotence
    for p in &POLICIES[..2] {
        for e1 in &small {
            for e2 in &small {
                for (cn, _) in CLS {
                    for idem in 0..2 {
                        let c = format!("X2 {p} {idem}/{cn}/{e1} {idem}/{cn}/{e2}");
                        let o = run_case(&c);
                        out.case(&c, &o);
                    }
                }
            }
        }
    }
    // X3: every triple of representatives at four (quick) / all (thorough) consistencies
    {
        let x3_cls: Vec<&str> = if thorough { CLS.iter().map(|c| c.0).collect() } else { vec!["One", "Quorum", "EachQuorum", "Serial"] };
        for p in &POLICIES[..2] {
            for e1 in &small {
                for e2 in &small {
                    for e3 in &small {
                        for cn in &x3_cls {
                            for idem in 0..2 {
                                let c = format!("X3 {p} {idem}/{cn}/{e1} {idem}/{cn}/{e2} {idem}/{cn}/{e3}");
                                let o = run_case(&c);
                                out.case(&c, &o);
                            }
                        }
                    }
                }
            }
        }
    }
    // F: the real loop, exhaustively over short outcome streams ...
    let alphabet: Vec<String> = ["C", "K", "X/Db.Unavailable:Quorum:2:1", "X/Db.ReadTimeout:Quorum:2:2:0",
        "X/Db.WriteTimeout:Quorum:1:2:BatchLog", "X/Db.WriteTimeout:Quorum:1:2:Simple", "X/Db.Overloaded",
        "X/Db.IsBootstrapping", "X/E.BrokenConnectionError:0", "X/Db.SyntaxError"]
        .iter().map(|s| s.to_string()).collect();
    let max_len = if thorough { 4 } else { 3 };
    let mut seqs: Vec<Vec<&str>> = vec![vec![]];
    let mut frontier: Vec<Vec<&str>> = vec![vec![]];
    for _ in 0..max_len {
        let mut next = Vec::new();
        for s in &frontier {
            for x in &alphabet {
                let mut t = s.clone();
                t.push(x.as_str());
                next.push(t);
            }
        }
        seqs.extend(next.iter().cloned());
        frontier = next;
    }
    for p in POLICIES {
        for idem in 0..2 {
            for cn in ["One", "Quorum", "EachQuorum", "Serial"] {
                for nplan in 0..=3 {
                    for s in &seqs {
                        let c = format!("F {p} {idem} {cn} {nplan} {}", s.join(" "));
                        let o = run_any(&env, c.trim_end());
                        out.case(c.trim_end(), &o);
                    }
                }
            }
        }
    }
    // ... every stream of length 5 over the letters that make a policy go on, plan of 3 targets: the
    // tight runs of C06_bound (3 targets + 2 same-target retries = 5 attempts) are reached
    // deterministically
    {
        let letters = ["C", "X/Db.Unavailable:Quorum:2:1", "X/Db.ReadTimeout:Quorum:2:2:0", "X/Db.WriteTimeout:Quorum:1:2:BatchLog",
            "X/Db.Overloaded", "X/Db.IsBootstrapping", "X/E.BrokenConnectionError:0"];
        let n = letters.len();
        for code in 0..n.pow(5) {
            let mut c = code;
            let mut sq = Vec::new();
            for _ in 0..5 {
                sq.push(letters[c % n]);
                c /= n;
            }
            for p in &POLICIES[..2] {
                for idem in 0..2 {
                    for cn in ["Quorum", "EachQuorum"] {
                        let c = format!("F {p} {idem} {cn} 3 {}", sq.join(" "));
                        let o = run_any(&env, &c);
                        out.case(&c, &o);
                    }
                }
            }
        }
    }
    // ... and seeded random histories / outcome streams
    let mut r = Rng::new(a.seed);
    for _ in 0..a.n {
        let c = if r.chance(1, 3) { gen_fiber(&mut r, &small, &full) } else { gen_history(&mut r, &small, &full) };
        let o = run_any(&env, &c);
        out.case(&c, &o);
    }
    out.finish();
}
