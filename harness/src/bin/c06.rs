//! C06 runner: feeds whole error histories to ONE real RetrySession (Default /
//! DowngradingConsistency / Fallthrough) through the `verif_retry::request_info` hook and
//! writes "<case> | <decisions>" lines for the extracted model.
//!
//! case  : `<kind> <policy> <step> <step> ...`      step = `<idem 0|1>/<consistency>/<error>`
//! error : `E.<RequestAttemptError variant>[:k]` | `Db.<DbError variant>[:field...]`
//!         (numbers signed hex; see `parse_err`)
//! output: one token per step: `S-` `S:<cl>` (RetrySameTarget) `N-` `N:<cl>` (RetryNextTarget)
//!         `D` (DontRetry) `I` (IgnoreWriteError)
use scylla::errors::{
    BrokenConnectionErrorKind, CqlErrorParseError, CqlRequestSerializationError, CqlResponseKind,
    CqlResultParseError, DbError, FrameBodyExtensionsParseError, OperationType,
    RequestAttemptError, SerializationError, WriteType,
};
use scylla::frame::frame_errors::{BatchSerializationError, LowLevelDeserializationError};
use scylla::policies::retry::verif_retry::request_info;
use scylla::policies::retry::{
    DefaultRetryPolicy, DowngradingConsistencyRetryPolicy, FallthroughRetryPolicy, RetryDecision,
    RetryPolicy, RetrySession,
};
use scylla::statement::Consistency;
use vh::*;

const CLS: [(&str, Consistency); 11] = [
    ("Any", Consistency::Any),
    ("One", Consistency::One),
    ("Two", Consistency::Two),
    ("Three", Consistency::Three),
    ("Quorum", Consistency::Quorum),
    ("All", Consistency::All),
    ("LocalQuorum", Consistency::LocalQuorum),
    ("EachQuorum", Consistency::EachQuorum),
    ("LocalOne", Consistency::LocalOne),
    ("Serial", Consistency::Serial),
    ("LocalSerial", Consistency::LocalSerial),
];
const WTS: [&str; 9] = ["Simple", "Batch", "UnloggedBatch", "Counter", "BatchLog", "Cas", "View", "Cdc", "Other"];
const POLICIES: [&str; 3] = ["Default", "Downgrading", "Fallthrough"];

fn cl_of(s: &str) -> Consistency {
    CLS.iter().find(|(n, _)| *n == s).unwrap_or_else(|| panic!("bad consistency {s}")).1
}
fn cl_name(c: Consistency) -> &'static str {
    CLS.iter().find(|(_, v)| *v == c).unwrap().0
}
fn wt_of(s: &str) -> WriteType {
    match s {
        "Simple" => WriteType::Simple,
        "Batch" => WriteType::Batch,
        "UnloggedBatch" => WriteType::UnloggedBatch,
        "Counter" => WriteType::Counter,
        "BatchLog" => WriteType::BatchLog,
        "Cas" => WriteType::Cas,
        "View" => WriteType::View,
        "Cdc" => WriteType::Cdc,
        "Other" => WriteType::Other("SOMETHING_NEW".into()),
        _ => panic!("bad write type {s}"),
    }
}
fn num(s: &str) -> i32 {
    let v = if let Some(r) = s.strip_prefix('-') { -i64::from_str_radix(r, 16).unwrap() } else { i64::from_str_radix(s, 16).unwrap() };
    v as i32
}
fn lowlevel() -> LowLevelDeserializationError {
    LowLevelDeserializationError::TooFewBytesReceived { expected: 4, received: 1 }
}

/// Build the real error value from its token.
fn parse_err(tok: &str) -> RequestAttemptError {
    let f: Vec<&str> = tok.split(':').collect();
    let k = |i: usize| f.get(i).map(|s| num(s)).unwrap_or(0);
    match f[0] {
        "E.SerializationError" => RequestAttemptError::SerializationError(SerializationError::new(std::fmt::Error)),
        "E.CqlRequestSerialization" => RequestAttemptError::CqlRequestSerialization(
            CqlRequestSerializationError::BatchSerialization(BatchSerializationError::TooManyStatements(70000)),
        ),
        "E.UnableToAllocStreamId" => RequestAttemptError::UnableToAllocStreamId,
        "E.BrokenConnectionError" => RequestAttemptError::BrokenConnectionError(
            match k(1) {
                0 => BrokenConnectionErrorKind::ChannelError,
                1 => BrokenConnectionErrorKind::TooManyOrphanedStreamIds(5),
                2 => BrokenConnectionErrorKind::UnexpectedStreamId(7),
                3 => BrokenConnectionErrorKind::WriteError(std::io::Error::other("boom")),
                _ => BrokenConnectionErrorKind::KeepaliveTimeout("127.0.0.1".parse().unwrap()),
            }
            .into(),
        ),
        "E.BodyExtensionsParseError" => RequestAttemptError::BodyExtensionsParseError(if k(1) == 0 {
            FrameBodyExtensionsParseError::NoCompressionNegotiated
        } else {
            FrameBodyExtensionsParseError::TraceIdParse(lowlevel())
        }),
        "E.CqlResultParseError" => RequestAttemptError::CqlResultParseError(CqlResultParseError::UnknownResultId(k(1))),
        "E.CqlErrorParseError" => RequestAttemptError::CqlErrorParseError(CqlErrorParseError::ErrorCodeParseError(lowlevel())),
        "E.UnexpectedResponse" => RequestAttemptError::UnexpectedResponse(match k(1) {
            0 => CqlResponseKind::Ready,
            1 => CqlResponseKind::Supported,
            _ => CqlResponseKind::Event,
        }),
        "E.RepreparedIdChanged" => RequestAttemptError::RepreparedIdChanged {
            statement: "select 1".into(),
            expected_id: vec![1, 2],
            reprepared_id: vec![3],
        },
        "E.RepreparedIdMissingInBatch" => RequestAttemptError::RepreparedIdMissingInBatch,
        "E.NonfinishedPagingState" => RequestAttemptError::NonfinishedPagingState,
        db => {
            let e = match db {
                "Db.SyntaxError" => DbError::SyntaxError,
                "Db.Invalid" => DbError::Invalid,
                "Db.AlreadyExists" => DbError::AlreadyExists { keyspace: "ks".into(), table: "t".into() },
                "Db.FunctionFailure" => DbError::FunctionFailure { keyspace: "ks".into(), function: "f".into(), arg_types: vec!["int".into()] },
                "Db.AuthenticationError" => DbError::AuthenticationError,
                "Db.Unauthorized" => DbError::Unauthorized,
                "Db.ConfigError" => DbError::ConfigError,
                "Db.Unavailable" => DbError::Unavailable { consistency: cl_of(f[1]), required: k(2), alive: k(3) },
                "Db.Overloaded" => DbError::Overloaded,
                "Db.IsBootstrapping" => DbError::IsBootstrapping,
                "Db.TruncateError" => DbError::TruncateError,
                "Db.ReadTimeout" => DbError::ReadTimeout { consistency: cl_of(f[1]), received: k(2), required: k(3), data_present: k(4) != 0 },
                "Db.WriteTimeout" => DbError::WriteTimeout { consistency: cl_of(f[1]), received: k(2), required: k(3), write_type: wt_of(f[4]) },
                "Db.ReadFailure" => DbError::ReadFailure { consistency: cl_of(f[1]), received: k(2), required: k(3), numfailures: k(4), data_present: k(5) != 0 },
                "Db.WriteFailure" => DbError::WriteFailure { consistency: cl_of(f[1]), received: k(2), required: k(3), numfailures: k(4), write_type: wt_of(f[5]) },
                "Db.Unprepared" => DbError::Unprepared { statement_id: bytes::Bytes::from_static(b"deadbeef") },
                "Db.ServerError" => DbError::ServerError,
                "Db.ProtocolError" => DbError::ProtocolError,
                "Db.RateLimitReached" => DbError::RateLimitReached {
                    op_type: match k(1) { 0 => OperationType::Read, 1 => OperationType::Write, o => OperationType::Other(o as u8) },
                    rejected_by_coordinator: k(2) != 0,
                },
                "Db.Other" => DbError::Other(k(1)),
                _ => panic!("bad error token {tok}"),
            };
            RequestAttemptError::DbError(e, "reason".into())
        }
    }
}

fn dec_str(d: &RetryDecision) -> String {
    let c = |o: &Option<Consistency>| match o { None => "-".to_string(), Some(c) => format!(":{}", cl_name(*c)) };
    match d {
        RetryDecision::RetrySameTarget(o) => format!("S{}", c(o)),
        RetryDecision::RetryNextTarget(o) => format!("N{}", c(o)),
        RetryDecision::DontRetry => "D".into(),
        RetryDecision::IgnoreWriteError => "I".into(),
        _ => "?".into(),
    }
}

fn new_session(p: &str) -> Box<dyn RetrySession> {
    match p {
        "Default" => DefaultRetryPolicy::new().new_session(),
        "Downgrading" => DowngradingConsistencyRetryPolicy::new().new_session(),
        "Fallthrough" => FallthroughRetryPolicy::new().new_session(),
        _ => panic!("bad policy {p}"),
    }
}

/// One history on one session.
fn run_case(case: &str) -> String {
    let case = case.to_string();
    match catch(move || {
        let f: Vec<&str> = case.split_whitespace().collect();
        let mut session = new_session(f[1]);
        let mut out = Vec::new();
        for step in &f[2..] {
            let mut it = step.splitn(3, '/');
            let idem = it.next().unwrap() == "1";
            let cl = cl_of(it.next().unwrap());
            let err = parse_err(it.next().unwrap());
            let d = session.decide_should_retry(request_info(&err, idem, cl));
            out.push(dec_str(&d));
        }
        out.join(" ")
    }) {
        Ok(s) => s,
        Err(_) => "panic".into(),
    }
}

// ---------------------------------------------------------------- error domains
const V: [i32; 8] = [i32::MIN, -1, 0, 1, 2, 3, 4, i32::MAX];
fn h(v: i32) -> String {
    hex_i(v as i128)
}

/// every variant x boundary field values x write types (the "abstract error domain")
fn dom_full() -> Vec<String> {
    let mut d: Vec<String> = Vec::new();
    for e in ["SerializationError", "CqlRequestSerialization", "UnableToAllocStreamId", "BodyExtensionsParseError:0",
        "BodyExtensionsParseError:1", "CqlResultParseError:7", "CqlErrorParseError", "UnexpectedResponse:0",
        "UnexpectedResponse:1", "UnexpectedResponse:2", "RepreparedIdChanged", "RepreparedIdMissingInBatch",
        "NonfinishedPagingState", "BrokenConnectionError:0", "BrokenConnectionError:1", "BrokenConnectionError:2",
        "BrokenConnectionError:3", "BrokenConnectionError:4"] {
        d.push(format!("E.{e}"));
    }
    for e in ["SyntaxError", "Invalid", "AlreadyExists", "FunctionFailure", "AuthenticationError", "Unauthorized",
        "ConfigError", "Overloaded", "IsBootstrapping", "TruncateError", "Unprepared", "ServerError", "ProtocolError",
        "RateLimitReached:0:0", "RateLimitReached:1:1", "RateLimitReached:7:0", "Other:0", "Other:1000", "Other:-1"] {
        d.push(format!("Db.{e}"));
    }
    for (i, a) in V.iter().enumerate() {
        for (j, b) in V.iter().enumerate() {
            let icl = CLS[(i + 3 * j) % 11].0;
            d.push(format!("Db.Unavailable:{icl}:{}:{}", h(*a), h(*b)));
            for dp in 0..2 {
                d.push(format!("Db.ReadTimeout:{icl}:{}:{}:{dp}", h(*a), h(*b)));
            }
        }
        for req in [0, 2, i32::MAX] {
            for wt in WTS {
                d.push(format!("Db.WriteTimeout:Quorum:{}:{}:{wt}", h(*a), h(req)));
            }
        }
        d.push(format!("Db.ReadFailure:Two:{}:2:1:{}", h(*a), i % 2));
        d.push(format!("Db.WriteFailure:Two:{}:2:1:{}", h(*a), WTS[i % 9]));
    }
    d
}

/// representatives that reach every branch and every session-state change
fn dom_small() -> Vec<String> {
    let mut d: Vec<String> = vec![
        "E.BrokenConnectionError:0".into(), "E.UnableToAllocStreamId".into(), "E.CqlResultParseError:1".into(),
        "Db.Overloaded".into(), "Db.ServerError".into(), "Db.TruncateError".into(), "Db.IsBootstrapping".into(),
        "Db.SyntaxError".into(), "Db.WriteFailure:Two:1:2:1:BatchLog".into(),
    ];
    for alive in 0..4 {
        d.push(format!("Db.Unavailable:Quorum:4:{alive}"));
    }
    for (recv, req, dp) in [(2, 2, 0), (2, 2, 1), (1, 2, 0), (0, 2, 1), (3, 4, 0), (2, 3, 1)] {
        d.push(format!("Db.ReadTimeout:Quorum:{recv}:{req}:{dp}"));
    }
    for wt in WTS {
        for recv in [0, 2] {
            d.push(format!("Db.WriteTimeout:Quorum:{recv}:3:{wt}"));
        }
    }
    d
}

fn gen_err(r: &mut Rng, small: &[String], full: &[String]) -> String {
    match r.below(10) {
        0..=5 => r.pick(small).clone(),
        6 | 7 => r.pick(full).clone(),
        _ => {
            let v = |r: &mut Rng| if r.chance(1, 3) { r.u64() as i32 } else { r.range(0, 5) as i32 - 1 };
            let icl = r.pick(&CLS).0;
            match r.below(3) {
                0 => format!("Db.Unavailable:{icl}:{}:{}", h(v(r)), h(v(r))),
                1 => format!("Db.ReadTimeout:{icl}:{}:{}:{}", h(v(r)), h(v(r)), r.below(2)),
                _ => format!("Db.WriteTimeout:{icl}:{}:{}:{}", h(v(r)), h(v(r)), r.pick(&WTS)),
            }
        }
    }
}

/// random history: consistency constant / following the carried consistency like the
/// execution loop does / random per step; idempotence mostly constant
fn gen_history(r: &mut Rng, small: &[String], full: &[String]) -> String {
    let np = if r.chance(1, 12) { 3 } else { 2 };
    let p = *r.pick(&POLICIES[..np]);
    let len = r.range(1, 8);
    let mode = r.below(10);
    let idem0 = r.bool();
    let idem_const = !r.chance(1, 10);
    let mut cl = if r.chance(1, 6) { *r.pick(&[Consistency::Serial, Consistency::LocalSerial]) } else { r.pick(&CLS).1 };
    let mut session = new_session(p);
    let mut steps = Vec::new();
    for _ in 0..len {
        let idem = if idem_const { idem0 } else { r.bool() };
        if mode >= 9 {
            cl = r.pick(&CLS).1;
        }
        let e = gen_err(r, small, full);
        steps.push(format!("{}/{}/{}", idem as u8, cl_name(cl), e));
        if (6..9).contains(&mode) {
            // follow the loop: `current_consistency = new_cl.unwrap_or(current_consistency)`
            let err = parse_err(&e);
            match session.decide_should_retry(request_info(&err, idem, cl)) {
                RetryDecision::RetrySameTarget(Some(c)) | RetryDecision::RetryNextTarget(Some(c)) => cl = c,
                _ => {}
            }
        }
    }
    format!("R {p} {}", steps.join(" "))
}

fn main() {
    let a = parse_args();
    quiet_panics();
    let mut out = Out::create(&a.out);
    if let Some(p) = &a.replay {
        for c in read_cases(p) {
            let o = run_case(&c);
            out.case(&c, &o);
        }
        out.finish();
        return;
    }
    let full = dom_full();
    let small = dom_small();
    let thorough = a.tier == "thorough";
    // X1: exhaustive over the abstract error domain x consistency x idempotence x policy, fresh session
    for p in POLICIES {
        for e in &full {
            for (cn, _) in CLS {
                for idem in 0..2 {
                    let c = format!("X1 {p} {idem}/{cn}/{e}");
                    let o = run_case(&c);
                    out.case(&c, &o);
                }
            }
        }
    }
    // X2: every pair of representatives on one session x consistency x idempotence
    for p in &POLICIES[..2] {
        for e1 in &small {
            for e2 in &small {
                for (cn, _) in CLS {
                    for idem in 0..2 {
                        let c = format!("X2 {p} {idem}/{cn}/{e1} {idem}/{cn}/{e2}");
                        let o = run_case(&c);
                        out.case(&c, &o);
                    }
                }
            }
        }
    }
    // X3: every triple of representatives at four (quick) / all (thorough) consistencies
    {
        let x3_cls: Vec<&str> = if thorough { CLS.iter().map(|c| c.0).collect() } else { vec!["One", "Quorum", "EachQuorum", "Serial"] };
        for p in &POLICIES[..2] {
            for e1 in &small {
                for e2 in &small {
                    for e3 in &small {
                        for cn in &x3_cls {
                            for idem in 0..2 {
                                let c = format!("X3 {p} {idem}/{cn}/{e1} {idem}/{cn}/{e2} {idem}/{cn}/{e3}");
                                let o = run_case(&c);
                                out.case(&c, &o);
                            }
                        }
                    }
                }
            }
        }
    }
    let mut r = Rng::new(a.seed);
    for _ in 0..a.n {
        let c = gen_history(&mut r, &small, &full);
        let o = run_case(&c);
        out.case(&c, &o);
    }
    out.finish();
}
