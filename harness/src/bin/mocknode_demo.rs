//! Demonstration / smoke test of mocknode: a real `Session` connects to a 3-node, 2-DC mock
//! cluster with 4 shards per node, fetches metadata, prepares, executes, pages, gets a scripted
//! error, and the trace is printed.  Exit code 0 = everything behaved as expected.
use scylla::client::session::Session;
use scylla::client::session_builder::SessionBuilder;
use scylla::statement::Statement;
use std::time::{Duration, Instant};
use vh::mocknode::*;

fn check(ok: bool, what: &str) {
    if !ok {
        eprintln!("FAILED: {}", what);
        std::process::exit(1);
    }
    println!("ok: {}", what);
}

#[tokio::main(flavor = "multi_thread", worker_threads = 4)]
async fn main() {
    // ---- 1. describe and start the cluster -------------------------------------------------
    let table = TableDef::new("t", &[("pk", CqlType::Int)], &[("ck", CqlType::Int)], &[("v", CqlType::Text)]);
    let spec = ClusterSpec::uniform("demo", &[("dc1", 2), ("dc2", 1)], 2, 8, 4)
        .with_keyspace(KeyspaceDef::nts("ks", &[("dc1", 2), ("dc2", 1)]).with_table(table.clone()));
    let cluster = MockCluster::start(spec).await.expect("start mock cluster");
    println!("cluster id {} contact point {}", cluster.cluster_id(), cluster.contact_point(0));

    // ---- 2. connect a real Session ----------------------------------------------------------
    let t0 = Instant::now();
    let session: Session = SessionBuilder::new()
        .known_node_addr(cluster.contact_point(0))
        .connection_timeout(Duration::from_secs(3))
        .build()
        .await
        .expect("session");
    println!("session built in {:?}", t0.elapsed());
    let state = session.get_cluster_state();
    check(state.get_nodes_info().len() == 3, "driver sees 3 nodes");
    let ks = state.get_keyspace("ks");
    check(ks.is_some_and(|k| k.tables.contains_key("t")), "driver fetched keyspace ks with table t");
    let dcs: std::collections::BTreeSet<String> =
        state.get_nodes_info().iter().filter_map(|n| n.datacenter.clone()).collect();
    check(dcs.len() == 2, "two datacenters");
    // every node: 4 shards -> 4 pool connections (+1 control connection somewhere)
    let t1 = Instant::now();
    loop {
        let n = cluster.connections(None).len();
        if n >= 13 || t1.elapsed() > Duration::from_secs(5) {
            check(n >= 13, &format!("pools filled: {} connections (3 nodes x 4 shards + control)", n));
            break;
        }
        tokio::time::sleep(Duration::from_millis(20)).await;
    }
    for node in 0..3 {
        let mut shards: Vec<u16> =
            cluster.connections(Some(node)).iter().filter(|c| c.registered.is_empty()).map(|c| c.shard).collect();
        shards.sort();
        shards.dedup();
        check(shards == vec![0, 1, 2, 3], &format!("node {} has a connection to every shard", node));
    }

    // ---- 3. prepare + execute with scripted pages -------------------------------------------
    let select = "SELECT pk, ck, v FROM ks.t WHERE pk = ?";
    cluster.on_prepare(select, table.prepared("ks", &["pk"], &["pk", "ck", "v"]));
    let cols = table.prepared("ks", &["pk"], &["pk", "ck", "v"]).result_columns;
    let row = |ck: i32| vec![cell::int(7), cell::int(ck), cell::text(&format!("row{}", ck))];
    // two pages, on whichever node the request lands
    cluster.script(
        NodeSel::Any,
        select,
        vec![
            Action::Rows(RowsSpec::new(cols.clone(), vec![row(1), row(2)]).with_paging_state(vec![0xAA, 1])),
            Action::Rows(RowsSpec::new(cols.clone(), vec![row(3)])),
        ],
    );
    let mut prepared = session.prepare(select).await.expect("prepare");
    prepared.set_page_size(2);
    check(prepared.get_variable_pk_indexes().len() == 1 && prepared.is_token_aware(), "prepared statement has one pk index and is token aware");
    let mut stream = session.execute_iter(prepared.clone(), (7i32,)).await.expect("execute_iter").rows_stream::<(i32, i32, String)>().unwrap();
    let mut got = Vec::new();
    use futures::StreamExt;
    while let Some(r) = stream.next().await {
        got.push(r.expect("row"));
    }
    check(
        got == vec![(7, 1, "row1".to_string()), (7, 2, "row2".to_string()), (7, 3, "row3".to_string())],
        "paged iteration returned the three scripted rows in order",
    );

    // ---- 4. scripted error ------------------------------------------------------------------
    let insert = "INSERT INTO ks.t (pk, ck, v) VALUES (1, 2, 'x')";
    cluster.script(NodeSel::Any, insert, vec![Action::Error(ErrorSpec::new(DbErr::Invalid, "scripted invalid"))]);
    let err = session.query_unpaged(Statement::new(insert), ()).await;
    check(format!("{:?}", err).contains("scripted invalid"), "scripted Invalid error reached the caller");
    let ok = session.query_unpaged(Statement::new(insert), ()).await;
    check(ok.is_ok(), "same statement afterwards answers Void (script consumed)");

    // ---- 5. trace ----------------------------------------------------------------------------
    let trace = cluster.drain_trace();
    let executes: Vec<&TraceEvent> = trace.iter().filter(|e| e.is_in(op::EXECUTE)).collect();
    let user_exec: Vec<ExecuteReq> = executes
        .iter()
        .filter_map(|e| match &e.ev {
            Ev::In { body, .. } => wire::decode_execute(body, false).ok(),
            _ => None,
        })
        .filter(|x| x.id == cluster.prepared_id(select))
        .collect();
    check(user_exec.len() == 2, "trace holds the two EXECUTEs of the paged statement");
    check(user_exec[0].params.paging_state.is_none() && user_exec[1].params.paging_state == Some(vec![0xAA, 1]), "second EXECUTE carried the scripted paging state");
    check(user_exec[0].params.values == vec![Value::Bytes(7i32.to_be_bytes().to_vec())], "bound value is int 7");
    let n_in = trace.iter().filter(|e| matches!(e.ev, Ev::In { .. })).count();
    let n_out = trace.iter().filter(|e| matches!(e.ev, Ev::Out { .. })).count();
    println!("trace: {} events, {} frames in, {} frames out", trace.len(), n_in, n_out);
    for e in trace.iter().filter(|e| matches!(&e.ev, Ev::In { opcode, .. } if *opcode == op::QUERY || *opcode == op::PREPARE)).take(6) {
        if let Ev::In { opcode, body, stream, .. } = &e.ev {
            let text = if *opcode == op::QUERY { wire::decode_query(body).map(|q| q.text) } else { wire::decode_prepare(body) };
            println!("  node {} conn {} shard {} stream {} {} {:?}", e.node, e.conn_id, e.shard, stream, op::name(*opcode), text);
        }
    }
    drop(session);
    cluster.shutdown();
    println!("demo finished in {:?}", t0.elapsed());
}
