//! C14 runner: histories of {prepared, evicted, schema-changed, id-changing} server events
//! interleaved with execute / paged execute / batch calls of a REAL `Session` against the mock
//! cluster.  The mock's answers come from a handler implementing the specification node state
//! machine (or, in "G" cases, from forced arbitrary answers); for every client call the runner
//! records the requests the mock received (decoded by the mock's own reader), the answers it
//! sent, the columns the rows were encoded with, and what the caller decoded.
//!
//! Second case kind (Session::prepare):  P <exts bits> <stmt> <E/.. | F/..>*  |  Q/<node>@<resp>;.../<ok:<id>:<cols> | e:mismatch | e:allfailed>
//!   the node events / forced answers happen BEFORE `Session::prepare`; recorded: every PREPARE answer and the result.
//!
//! Line format (all numbers hex):
//!   H <ext> <nnodes> <nstmts> <stmt>* <op>*  |  <obs>*
//!   stmt = S/<late>/<sid>/<mid>=<cols>,<mid>=<cols>,...
//!   op   = X/<s>/<node>/<uc>/<psize o>/<paging ob>/<value>/<cons>/<serial o>/<ts o>/<pseed>/<haspg>
//!        | I/<s>/<node>/<uc>/<psize>/<value>/<cons>/<serial o>/<ts o>/<pseed>/<pages>   (execute_iter: the pager fetches <pages> pages)
//!        | B/<node>/<type>/<cons>/<serial o>/<ts o>/<items>       items: p<s>.<value> | q<text>, '+'-joined
//!        | Y/<d0>/<d1>      the next two X ops run CONCURRENTLY (same statement handle, different nodes); every answer
//!                           of the first / second one's node is delayed by d0 / d1 ms
//!        | Z/<k>/<ms>       the next k X ops (DISTINCT statements, one node = one connection) run CONCURRENTLY (join_all)
//!                           while the node answers every PREPARE after <ms> milliseconds (several evicted statements
//!                           re-prepared over one connection at the same time)
//!        | E/<node>/<p|e|s|i>/<s>/<arg>
//!        | F/<node>/<resp>                                        (forced answer to the next user request at node)
//!   in a MIXED cluster the nodes without the extension start at schema version 1 (where the statement has one), so
//!   that the column specs of the freshly prepared statement show which kind of node Session::prepare took it from;
//!   the impl output then starts with J/<cols of stmt 0>;<cols of stmt 1>;...  (as observed right after the prepares)
//!   obs  = O/<node>/<req>><resp>;<req>><resp>.../<outcome>        one per X / B op, in order; an I op gives OI/<k> followed by k of them (one per page)
//!   cols = '-' | name.t+name.t...   t in i b t x ;  ob = '~' none | '-' empty | hex ; o = '~' | hex
//!   resp = r:<meta>:<paging ob>:<nrows>:<cells>:<enc cols> | v | u:<id> | d:<code> | P:<id>:<mid ob>:<cols> | z
//!   meta = n<count> | f<cols> | i<id>=<cols> ; cells = '_' | cell+cell..  cell = N | '-' | hex
//!   req  = x:<id>:<rmid ob>:<value>:<cons>:<serial o>:<psize o>:<paging ob>:<ts o>:<skip> | p:<text> | b:<type>:<cons>:<serial o>:<ts o>:<items i<id>.<value> | t<text>>
//!   outcome = R:<cols>:<paging ob>:<nrows>*<cells> or '!':<typed_ok> | n | e:<class>[:<code>]
use scylla::client::execution_profile::ExecutionProfile;
use scylla::client::session::Session;
use scylla::client::session_builder::SessionBuilder;
use scylla::cluster::ClusterState;
use scylla::deserialize::row::{ColumnIterator, DeserializeRow};
use scylla::deserialize::value::DeserializeValue;
use scylla::deserialize::{DeserializationError, TypeCheckError};
use scylla::errors::{NextPageError, NextRowError, PagerExecutionError, RequestError};
use scylla::frame::response::result::ColumnSpec;
use scylla::value::CqlValue;
use scylla::errors::{DbError, ExecutionError, RequestAttemptError};
use scylla::frame::response::result::{ColumnType, NativeType};
use scylla::cluster::NodeRef;
use scylla::policies::load_balancing::{FallbackPlan, LoadBalancingPolicy, RoutingInfo};
use scylla::policies::retry::FallthroughRetryPolicy;
use scylla::response::{PagingState, PagingStateResponse};
use scylla::routing::Shard;
use scylla::statement::batch::{Batch, BatchType};
use scylla::statement::prepared::PreparedStatement;
use scylla::statement::{Consistency, SerialConsistency};
use scylla::value::Row;
use std::collections::VecDeque;
use std::net::IpAddr;
use std::sync::atomic::{AtomicUsize, Ordering};
use std::sync::{Arc, Mutex};
use std::time::{Duration, Instant};
use vh::mocknode::*;
use vh::*;

// ------------------------------------------------------------------------------------------
// scenario data
// ------------------------------------------------------------------------------------------
#[derive(Clone, Copy, PartialEq, Eq, Debug)]
enum CT {
    I,
    B,
    T,
    X,
}
#[derive(Clone, PartialEq, Eq, Debug)]
struct Col {
    name: u32,
    t: CT,
}
#[derive(Clone, Debug)]
struct Ver {
    mid: Vec<u8>,
    cols: Vec<Col>,
}
#[derive(Clone, Debug)]
struct Stmt {
    late: bool,
    sid: Vec<u8>,
    vers: Vec<Ver>,
}
type CellV = Option<Vec<u8>>;
#[derive(Clone, Debug, PartialEq, Eq)]
enum RMeta {
    None(u32),
    Full(Vec<Col>),
    NewId(Vec<u8>, Vec<Col>),
}
#[derive(Clone, Debug, PartialEq, Eq)]
enum Resp {
    Rows { meta: RMeta, paging: Option<Vec<u8>>, nrows: u32, cells: Vec<CellV>, enc: Vec<Col> },
    Void,
    Unprep(Vec<u8>),
    DbErr(u32),
    Prepared { id: Vec<u8>, mid: Option<Vec<u8>>, cols: Vec<Col> },
    Other,
}
#[derive(Clone, Debug)]
enum BItem {
    P(usize, Vec<u8>),
    Q(u32),
}
#[derive(Clone, Debug)]
enum Op {
    X { s: usize, node: usize, uc: bool, psize: Option<u32>, paging: Option<Vec<u8>>, value: Vec<u8>, cons: u16, serial: Option<u16>, ts: Option<i64>, pseed: u64, haspg: bool },
    I { s: usize, node: usize, uc: bool, psize: u32, value: Vec<u8>, cons: u16, serial: Option<u16>, ts: Option<i64>, pseed: u64, pages: u32 },
    B { node: usize, btype: u8, cons: u16, serial: Option<u16>, ts: Option<i64>, items: Vec<BItem> },
    Y { d0: u64, d1: u64 },
    Z { k: usize, ms: u64 },
    E { node: usize, kind: char, s: usize, arg: u64 },
    F { node: usize, resp: Resp },
}
#[derive(Clone, Debug)]
struct Case {
    /// per node: does it offer SCYLLA_USE_METADATA_ID
    exts: Vec<bool>,
    nnodes: usize,
    stmts: Vec<Stmt>,
    ops: Vec<Op>,
}

fn stmt_text(i: usize) -> String {
    format!("SELECT * FROM ks.t{} WHERE pk = ?", i)
}
fn query_text(tok: u32) -> String {
    format!("INSERT INTO ks.q{} (pk) VALUES (0)", tok)
}
fn sid_salted(base: &[u8], k: u64) -> Vec<u8> {
    let mut v = base.to_vec();
    if k != 0 {
        v.push(k as u8);
    }
    v
}

// ------------------------------------------------------------------------------------------
// text encoding
// ------------------------------------------------------------------------------------------
fn ct_ch(t: CT) -> char {
    match t {
        CT::I => 'i',
        CT::B => 'b',
        CT::T => 't',
        CT::X => 'x',
    }
}
fn ch_ct(c: &str) -> CT {
    match c {
        "i" => CT::I,
        "b" => CT::B,
        "t" => CT::T,
        _ => CT::X,
    }
}
fn enc_cols(c: &[Col]) -> String {
    if c.is_empty() {
        return "-".into();
    }
    c.iter().map(|x| format!("{:x}.{}", x.name, ct_ch(x.t))).collect::<Vec<_>>().join("+")
}
fn dec_cols(s: &str) -> Vec<Col> {
    if s == "-" {
        return vec![];
    }
    s.split('+')
        .map(|p| {
            let (n, t) = p.split_once('.').unwrap();
            Col { name: u32::from_str_radix(n, 16).unwrap(), t: ch_ct(t) }
        })
        .collect()
}
fn enc_ob(b: &Option<Vec<u8>>) -> String {
    match b {
        None => "~".into(),
        Some(v) => hex_bytes(v),
    }
}
fn unhex(s: &str) -> Vec<u8> {
    if s == "-" {
        return vec![];
    }
    (0..s.len() / 2).map(|i| u8::from_str_radix(&s[2 * i..2 * i + 2], 16).unwrap()).collect()
}
fn dec_ob(s: &str) -> Option<Vec<u8>> {
    if s == "~" { None } else { Some(unhex(s)) }
}
fn enc_on(v: Option<u64>) -> String {
    match v {
        None => "~".into(),
        Some(x) => format!("{:x}", x),
    }
}
fn dec_on(s: &str) -> Option<u64> {
    if s == "~" { None } else { Some(u64::from_str_radix(s, 16).unwrap()) }
}
fn enc_ots(v: Option<i64>) -> String {
    match v {
        None => "~".into(),
        Some(x) => hex_i(x as i128),
    }
}
fn dec_ots(s: &str) -> Option<i64> {
    if s == "~" {
        None
    } else if let Some(r) = s.strip_prefix('-') {
        Some(-(i128::from_str_radix(r, 16).unwrap()) as i64)
    } else {
        Some(i128::from_str_radix(s, 16).unwrap() as i64)
    }
}
fn enc_cells(c: &[CellV]) -> String {
    if c.is_empty() {
        return "_".into();
    }
    c.iter()
        .map(|x| match x {
            None => "N".to_string(),
            Some(b) => hex_bytes(b),
        })
        .collect::<Vec<_>>()
        .join("+")
}
fn dec_cells(s: &str) -> Vec<CellV> {
    if s == "_" {
        return vec![];
    }
    s.split('+').map(|x| if x == "N" { None } else { Some(unhex(x)) }).collect()
}
fn enc_resp(r: &Resp) -> String {
    match r {
        Resp::Rows { meta, paging, nrows, cells, enc } => {
            let m = match meta {
                RMeta::None(n) => format!("n{:x}", n),
                RMeta::Full(c) => format!("f{}", enc_cols(c)),
                RMeta::NewId(i, c) => format!("i{}={}", hex_bytes(i), enc_cols(c)),
            };
            format!("r:{}:{}:{:x}:{}:{}", m, enc_ob(paging), nrows, enc_cells(cells), enc_cols(enc))
        }
        Resp::Void => "v".into(),
        Resp::Unprep(id) => format!("u:{}", hex_bytes(id)),
        Resp::DbErr(c) => format!("d:{:x}", c),
        Resp::Prepared { id, mid, cols } => format!("P:{}:{}:{}", hex_bytes(id), enc_ob(mid), enc_cols(cols)),
        Resp::Other => "z".into(),
    }
}
fn dec_resp(s: &str) -> Resp {
    let f: Vec<&str> = s.split(':').collect();
    match f[0] {
        "r" => {
            let m = f[1];
            let meta = if let Some(n) = m.strip_prefix('n') {
                RMeta::None(u32::from_str_radix(n, 16).unwrap())
            } else if let Some(c) = m.strip_prefix('f') {
                RMeta::Full(dec_cols(c))
            } else {
                let (i, c) = m[1..].split_once('=').unwrap();
                RMeta::NewId(unhex(i), dec_cols(c))
            };
            Resp::Rows { meta, paging: dec_ob(f[2]), nrows: u32::from_str_radix(f[3], 16).unwrap(), cells: dec_cells(f[4]), enc: dec_cols(f[5]) }
        }
        "v" => Resp::Void,
        "u" => Resp::Unprep(unhex(f[1])),
        "d" => Resp::DbErr(u32::from_str_radix(f[1], 16).unwrap()),
        "P" => Resp::Prepared { id: unhex(f[1]), mid: dec_ob(f[2]), cols: dec_cols(f[3]) },
        _ => Resp::Other,
    }
}

impl Case {
    fn line(&self) -> String {
        let e = if self.exts.iter().all(|x| *x == self.exts[0]) { (self.exts[0] as u8).to_string() } else { self.exts.iter().map(|x| if *x { '1' } else { '0' }).collect() };
        let mut t = vec!["H".to_string(), e, format!("{:x}", self.nnodes), format!("{:x}", self.stmts.len())];
        for s in &self.stmts {
            let vs: Vec<String> = s.vers.iter().map(|v| format!("{}={}", hex_bytes(&v.mid), enc_cols(&v.cols))).collect();
            t.push(format!("S/{}/{}/{}", s.late as u8, hex_bytes(&s.sid), vs.join(",")));
        }
        for o in &self.ops {
            t.push(match o {
                Op::X { s, node, uc, psize, paging, value, cons, serial, ts, pseed, haspg } => format!(
                    "X/{:x}/{:x}/{}/{}/{}/{}/{:x}/{}/{}/{:x}/{}",
                    s,
                    node,
                    *uc as u8,
                    enc_on(psize.map(|x| x as u64)),
                    enc_ob(paging),
                    hex_bytes(value),
                    cons,
                    enc_on(serial.map(|x| x as u64)),
                    enc_ots(*ts),
                    pseed,
                    *haspg as u8
                ),
                Op::I { s, node, uc, psize, value, cons, serial, ts, pseed, pages } => format!(
                    "I/{:x}/{:x}/{}/{:x}/{}/{:x}/{}/{}/{:x}/{:x}",
                    s, node, *uc as u8, psize, hex_bytes(value), cons, enc_on(serial.map(|x| x as u64)), enc_ots(*ts), pseed, pages
                ),
                Op::B { node, btype, cons, serial, ts, items } => {
                    let it: Vec<String> = items
                        .iter()
                        .map(|i| match i {
                            BItem::P(s, v) => format!("p{:x}.{}", s, hex_bytes(v)),
                            BItem::Q(t) => format!("q{:x}", t),
                        })
                        .collect();
                    format!("B/{:x}/{:x}/{:x}/{}/{}/{}", node, btype, cons, enc_on(serial.map(|x| x as u64)), enc_ots(*ts), it.join("+"))
                }
                Op::Y { d0, d1 } => format!("Y/{:x}/{:x}", d0, d1),
                Op::Z { k, ms } => format!("Z/{:x}/{:x}", k, ms),
                Op::E { node, kind, s, arg } => format!("E/{:x}/{}/{:x}/{:x}", node, kind, s, arg),
                Op::F { node, resp } => format!("F/{:x}/{}", node, enc_resp(resp)),
            });
        }
        t.join(" ")
    }
    fn parse(line: &str) -> Option<Case> {
        let f: Vec<&str> = line.split_whitespace().collect();
        if f.len() < 4 || f[0] != "H" {
            return None;
        }
        let nnodes = usize::from_str_radix(f[2], 16).ok()?;
        let exts: Vec<bool> = if f[1].len() == 1 { vec![f[1] == "1"; nnodes] } else { f[1].chars().map(|c| c == '1').collect() };
        if exts.len() != nnodes {
            return None;
        }
        let ns = usize::from_str_radix(f[3], 16).ok()?;
        let mut stmts = vec![];
        for tok in &f[4..4 + ns] {
            let p: Vec<&str> = tok.split('/').collect();
            let vers = p[3]
                .split(',')
                .map(|v| {
                    let (m, c) = v.split_once('=').unwrap();
                    Ver { mid: unhex(m), cols: dec_cols(c) }
                })
                .collect();
            stmts.push(Stmt { late: p[1] == "1", sid: unhex(p[2]), vers });
        }
        let mut ops = vec![];
        for tok in &f[4 + ns..] {
            let p: Vec<&str> = tok.split('/').collect();
            let h = |s: &str| u64::from_str_radix(s, 16).unwrap();
            ops.push(match p[0] {
                "X" => Op::X {
                    s: h(p[1]) as usize,
                    node: h(p[2]) as usize,
                    uc: p[3] == "1",
                    psize: dec_on(p[4]).map(|x| x as u32),
                    paging: dec_ob(p[5]),
                    value: unhex(p[6]),
                    cons: h(p[7]) as u16,
                    serial: dec_on(p[8]).map(|x| x as u16),
                    ts: dec_ots(p[9]),
                    pseed: h(p[10]),
                    haspg: p[11] == "1",
                },
                "I" => Op::I {
                    s: h(p[1]) as usize,
                    node: h(p[2]) as usize,
                    uc: p[3] == "1",
                    psize: h(p[4]) as u32,
                    value: unhex(p[5]),
                    cons: h(p[6]) as u16,
                    serial: dec_on(p[7]).map(|x| x as u16),
                    ts: dec_ots(p[8]),
                    pseed: h(p[9]),
                    pages: h(p[10]) as u32,
                },
                "B" => Op::B {
                    node: h(p[1]) as usize,
                    btype: h(p[2]) as u8,
                    cons: h(p[3]) as u16,
                    serial: dec_on(p[4]).map(|x| x as u16),
                    ts: dec_ots(p[5]),
                    items: p[6]
                        .split('+')
                        .map(|i| {
                            if let Some(r) = i.strip_prefix('p') {
                                let (s, v) = r.split_once('.').unwrap();
                                BItem::P(h(s) as usize, unhex(v))
                            } else {
                                BItem::Q(h(&i[1..]) as u32)
                            }
                        })
                        .collect(),
                },
                "Y" => Op::Y { d0: h(p[1]), d1: h(p[2]) },
                "Z" => Op::Z { k: h(p[1]) as usize, ms: h(p[2]) },
                "E" => Op::E { node: h(p[1]) as usize, kind: p[2].chars().next().unwrap(), s: h(p[3]) as usize, arg: h(p[4]) },
                "F" => Op::F { node: h(p[1]) as usize, resp: dec_resp(p[2]) },
                _ => return None,
            });
        }
        Some(Case { exts, nnodes, stmts, ops })
    }
}

// ------------------------------------------------------------------------------------------
// the mock's brain: specification node state machine + forced answers + exchange log
// ------------------------------------------------------------------------------------------
struct NodeSt {
    prep: Vec<bool>,
    ver: Vec<usize>,
    salt: Vec<u64>,
}
struct Srv {
    exts: Vec<bool>,
    stmts: Vec<Stmt>,
    texts: Vec<String>,
    nodes: Vec<NodeSt>,
    forced: Vec<VecDeque<Resp>>,
    logging: bool,
    log: Vec<(usize, String, Resp)>,
    // payload of the current op
    pseed: u64,
    pcount: u64,
    haspg: bool,
    pages_left: u32,
    min_rows: u32,
    delay: Vec<u64>,
    delay_prepare: u64,
}

fn gen_cell(r: &mut Rng, t: CT) -> CellV {
    if r.chance(1, 8) {
        return None;
    }
    Some(match t {
        // every byte < 128: whatever (stale) text column a cell is decoded under, it is valid UTF-8
        CT::I => (0..4).map(|_| r.below(128) as u8).collect(),
        CT::B => (0..8).map(|_| r.below(128) as u8).collect(),
        CT::T => (0..r.below(6)).map(|_| b'a' + r.below(26) as u8).collect(),
        CT::X => (0..r.below(7)).map(|_| r.below(128) as u8).collect(),
    })
}

impl Srv {
    fn stmt_of_id(&self, id: &[u8]) -> Option<usize> {
        // like the Coq stmt_of_id: the highest index wins
        (0..self.stmts.len()).rev().find(|&s| self.stmts[s].sid == id)
    }
    fn payload(&mut self, cols: &[Col], paged: bool) -> (Option<Vec<u8>>, u32, Vec<CellV>) {
        let mut r = Rng::new(self.pseed.wrapping_mul(1000003).wrapping_add(self.pcount));
        self.pcount += 1;
        let nrows = (r.below(4) as u32).max(self.min_rows);
        let mut cells = vec![];
        for _ in 0..nrows {
            for c in cols {
                cells.push(gen_cell(&mut r, c.t));
            }
        }
        let paging = if paged && (self.haspg || self.pages_left > 1) {
            self.pages_left = self.pages_left.saturating_sub(1);
            let k = 1 + r.below(4) as usize;
            Some(r.bytes(k))
        } else {
            None
        };
        (paging, nrows, cells)
    }
    /// the specification node's answer (mirror of Coq `node_answer`)
    fn answer(&mut self, node: usize, ctx: &ReqCtx) -> Resp {
        match ctx.opcode {
            op::PREPARE => {
                let t = ctx.text.clone().unwrap_or_default();
                match self.texts.iter().rposition(|x| *x == t) {
                    None => Resp::DbErr(0x2000),
                    Some(s) => {
                        let n = &mut self.nodes[node];
                        let v = n.ver[s];
                        n.prep[s] = n.salt[s] == 0;
                        let st = &self.stmts[s];
                        let cols = if st.late { vec![] } else { st.vers[v].cols.clone() };
                        Resp::Prepared { id: sid_salted(&st.sid, n.salt[s]), mid: if self.exts[node] { Some(st.vers[v].mid.clone()) } else { None }, cols }
                    }
                }
            }
            op::EXECUTE => {
                let id = ctx.prepared_id.clone().unwrap_or_default();
                let Some(s) = self.stmt_of_id(&id) else { return Resp::Unprep(id) };
                if !self.nodes[node].prep[s] {
                    return Resp::Unprep(id);
                }
                let v = self.nodes[node].ver[s];
                let cols = self.stmts[s].vers[v].cols.clone();
                if cols.is_empty() {
                    return Resp::Void;
                }
                let mid = self.stmts[s].vers[v].mid.clone();
                let p = ctx.params.as_ref().unwrap();
                let skip = p.skip_metadata;
                let paged = p.page_size.is_some();
                let meta = if self.exts[node] {
                    match &ctx.result_metadata_id {
                        Some(i) if *i == mid => {
                            if skip { RMeta::None(cols.len() as u32) } else { RMeta::Full(cols.clone()) }
                        }
                        Some(_) => RMeta::NewId(mid, cols.clone()),
                        None => return Resp::DbErr(0x000A),
                    }
                } else if skip {
                    RMeta::None(cols.len() as u32)
                } else {
                    RMeta::Full(cols.clone())
                };
                let (paging, nrows, cells) = self.payload(&cols, paged);
                Resp::Rows { meta, paging, nrows, cells, enc: cols }
            }
            op::BATCH => {
                let b = ctx.batch.as_ref().unwrap();
                for st in &b.statements {
                    if let BatchStmt::Prepared { id, .. } = st {
                        match self.stmt_of_id(id) {
                            Some(s) if self.nodes[node].prep[s] => {}
                            _ => return Resp::Unprep(id.clone()),
                        }
                    }
                }
                Resp::Void
            }
            _ => Resp::Other,
        }
    }
    fn event(&mut self, node: usize, kind: char, s: usize, arg: u64) {
        let n = &mut self.nodes[node];
        match kind {
            'p' => n.prep[s] = n.salt[s] == 0,
            'e' => n.prep[s] = false,
            's' => n.ver[s] = arg as usize,
            'i' => {
                n.prep[s] = false;
                n.salt[s] = arg;
            }
            _ => {}
        }
    }
}

fn cql_type(t: CT) -> CqlType {
    match t {
        CT::I => CqlType::Int,
        CT::B => CqlType::BigInt,
        CT::T => CqlType::Text,
        CT::X => CqlType::Blob,
    }
}
fn colspecs(c: &[Col]) -> Vec<ColSpec> {
    c.iter().map(|x| ColSpec::new("ks", "t", &format!("c{}", x.name), cql_type(x.t))).collect()
}
fn db_err(code: u32) -> DbErr {
    match code {
        0x0000 => DbErr::ServerError,
        0x000A => DbErr::ProtocolError,
        0x2000 => DbErr::SyntaxError,
        0x2100 => DbErr::Unauthorized,
        0x2300 => DbErr::ConfigError,
        _ => DbErr::Invalid, // 0x2200
    }
}
fn actions_of(r: &Resp, ext: bool) -> Vec<Action> {
    match r {
        Resp::Rows { meta, paging, nrows, cells, .. } => {
            let (columns, mode) = match meta {
                RMeta::None(n) => ((0..*n).map(|i| ColSpec::new("ks", "t", &format!("d{}", i), CqlType::Blob)).collect(), MetaMode::NoMetadata),
                RMeta::Full(c) => (colspecs(c), MetaMode::Full),
                RMeta::NewId(i, c) => (colspecs(c), MetaMode::NewMetadataId(i.clone())),
            };
            // rows_count = nrows, cells in wire order: the first row vector carries whatever does
            // not divide evenly (the encoder writes the row vectors one after another)
            let n = *nrows as usize;
            let mut rows: Vec<Vec<Cell>> = vec![vec![]; n];
            if n > 0 {
                let w = cells.len() / n;
                let extra = cells.len() - w * n;
                let mut it = cells.iter().cloned();
                for (i, row) in rows.iter_mut().enumerate() {
                    let k = if i == 0 { w + extra } else { w };
                    for _ in 0..k {
                        row.push(it.next().unwrap());
                    }
                }
            }
            vec![Action::Rows(RowsSpec { columns, rows, paging_state: paging.clone(), meta: mode })]
        }
        Resp::Void => vec![Action::Void],
        Resp::Unprep(id) => vec![Action::Error(ErrorSpec::new(DbErr::Unprepared { id: id.clone() }, "c14 unprepared"))],
        Resp::DbErr(c) => vec![Action::Error(ErrorSpec::new(db_err(*c), "c14 error"))],
        Resp::Prepared { id, mid, cols } => vec![Action::Prepared(PreparedSpec {
            id: id.clone(),
            result_metadata_id: if ext { mid.clone().unwrap_or_else(|| vec![0xEE]) } else { vec![] },
            bind_columns: vec![ColSpec::new("ks", "t", "pk", CqlType::Blob)],
            pk_indexes: vec![],
            result_columns: colspecs(cols),
            lwt: false,
        })],
        Resp::Other => vec![Action::RawBody { opcode: 0x02, body: vec![] }], // READY
    }
}

fn value_hex(v: &[Value]) -> String {
    // one bind marker per statement in this harness
    match v.first() {
        Some(Value::Bytes(b)) => hex_bytes(b),
        Some(Value::Null) => "N".into(),
        Some(Value::Unset) => "U".into(),
        None => "-".into(),
    }
}
fn enc_request(ctx: &ReqCtx, srv: &Srv) -> Option<String> {
    match ctx.opcode {
        op::PREPARE => {
            let t = ctx.text.as_deref()?;
            let s = srv.texts.iter().position(|x| x == t)?;
            Some(format!("p:{:x}", s + 1))
        }
        op::EXECUTE => {
            let t = ctx.text.as_deref()?;
            srv.texts.iter().position(|x| x == t)?;
            let p = ctx.params.as_ref()?;
            Some(format!(
                "x:{}:{}:{}:{:x}:{}:{}:{}:{}:{}",
                hex_bytes(ctx.prepared_id.as_deref().unwrap_or(&[])),
                enc_ob(&ctx.result_metadata_id),
                value_hex(&p.values),
                p.consistency,
                enc_on(p.serial_consistency.map(|x| x as u64)),
                enc_on(p.page_size.map(|x| x as u32 as u64)),
                enc_ob(&p.paging_state),
                enc_ots(p.timestamp),
                p.skip_metadata as u8
            ))
        }
        op::BATCH => {
            let b = ctx.batch.as_ref()?;
            let items: Vec<String> = b
                .statements
                .iter()
                .map(|s| match s {
                    BatchStmt::Prepared { id, values } => format!("i{}.{}", hex_bytes(id), value_hex(values)),
                    BatchStmt::Query { text, .. } => {
                        let tok = text.strip_prefix("INSERT INTO ks.q").and_then(|r| r.split(' ').next()).and_then(|n| n.parse::<u32>().ok()).unwrap_or(0xffff);
                        format!("t{:x}", tok)
                    }
                })
                .collect();
            Some(format!("b:{:x}:{:x}:{}:{}:{}", b.batch_type, b.consistency, enc_on(b.serial_consistency.map(|x| x as u64)), enc_ots(b.timestamp), items.join("+")))
        }
        _ => None,
    }
}

// ------------------------------------------------------------------------------------------
// routing: every call goes to the node the case names
// ------------------------------------------------------------------------------------------
#[derive(Debug)]
struct PinPolicy {
    target: Arc<AtomicUsize>,
    ips: Vec<IpAddr>,
}
impl LoadBalancingPolicy for PinPolicy {
    fn pick<'a>(&'a self, _r: &'a RoutingInfo, cluster: &'a ClusterState) -> Option<(NodeRef<'a>, Option<Shard>)> {
        let ip = self.ips[self.target.load(Ordering::SeqCst)];
        cluster.get_nodes_info().iter().find(|n| n.address.ip() == ip).map(|n| (n, None))
    }
    fn fallback<'a>(&'a self, _r: &'a RoutingInfo, _c: &'a ClusterState) -> FallbackPlan<'a> {
        Box::new(std::iter::empty())
    }
    fn name(&self) -> String {
        "pin".into()
    }
}

fn cons_of(c: u16) -> Consistency {
    match c {
        1 => Consistency::One,
        2 => Consistency::Two,
        4 => Consistency::Quorum,
        5 => Consistency::All,
        _ => Consistency::LocalQuorum, // 6
    }
}
fn serial_of(c: u16) -> SerialConsistency {
    if c == 8 { SerialConsistency::Serial } else { SerialConsistency::LocalSerial }
}

fn attempt_class(a: &RequestAttemptError) -> String {
    match a {
        RequestAttemptError::RepreparedIdChanged { .. } => "idchanged".into(),
        RequestAttemptError::RepreparedIdMissingInBatch => "idmissing".into(),
        RequestAttemptError::DbError(DbError::Unprepared { .. }, _) => "unprepared".into(),
        RequestAttemptError::DbError(d, _) => format!("db:{:x}", d.code(&Default::default())),
        RequestAttemptError::UnexpectedResponse(_) => "unexpected".into(),
        RequestAttemptError::CqlResultParseError(_) | RequestAttemptError::CqlErrorParseError(_) | RequestAttemptError::BodyExtensionsParseError(_) => "parse".into(),
        other => format!("other:{}", format!("{:?}", other).split(|c: char| !c.is_alphanumeric()).next().unwrap_or("x")),
    }
}
fn err_class(e: &ExecutionError) -> String {
    match e {
        ExecutionError::LastAttemptError(a) => attempt_class(a),
        other => format!("exec:{}", format!("{:?}", other).split(|c: char| !c.is_alphanumeric()).next().unwrap_or("x")),
    }
}
fn page_err_class(e: &NextPageError) -> String {
    match e {
        NextPageError::RequestFailure(RequestError::LastAttemptError(a)) => attempt_class(a),
        NextPageError::RequestFailure(other) => format!("exec:{}", format!("{:?}", other).split(|c: char| !c.is_alphanumeric()).next().unwrap_or("x")),
        NextPageError::ResultMetadataParseError(_) => "parse".into(),
        other => format!("page:{}", format!("{:?}", other).split(|c: char| !c.is_alphanumeric()).next().unwrap_or("x")),
    }
}

/// A row as the pager hands it to a `DeserializeRow` type: the column specs it was iterated
/// with, the raw cells, and whether each cell decodes under its column type.
struct RawRow {
    cols: Vec<Col>,
    cells: Vec<CellV>,
    typed_ok: bool,
}
impl<'f, 'm> DeserializeRow<'f, 'm> for RawRow {
    fn type_check(_specs: &[ColumnSpec]) -> Result<(), TypeCheckError> {
        Ok(())
    }
    fn deserialize(row: ColumnIterator<'f, 'm>) -> Result<Self, DeserializationError> {
        let mut out = RawRow { cols: vec![], cells: vec![], typed_ok: true };
        for c in row {
            let c = c?;
            out.cols.push(col_of_spec(c.spec.name(), c.spec.typ()));
            out.typed_ok &= <Option<CqlValue> as DeserializeValue>::deserialize(c.spec.typ(), c.slice).is_ok();
            out.cells.push(c.slice.map(|s| s.as_slice().to_vec()));
        }
        Ok(out)
    }
}

fn col_of_spec(name: &str, typ: &ColumnType) -> Col {
    let n = name.strip_prefix('c').and_then(|x| x.parse::<u32>().ok()).unwrap_or(0xffff);
    let t = match typ {
        ColumnType::Native(NativeType::Int) => CT::I,
        ColumnType::Native(NativeType::BigInt) => CT::B,
        ColumnType::Native(NativeType::Text) => CT::T,
        _ => CT::X,
    };
    Col { name: n, t }
}

fn outcome_of(res: Result<(scylla::response::query_result::QueryResult, PagingStateResponse), ExecutionError>) -> String {
    match res {
        Err(e) => format!("e:{}", err_class(&e)),
        Ok((qr, ps)) => match qr.into_rows_result() {
            Err(scylla::response::query_result::IntoRowsResultError::ResultNotRows(_)) => "n".into(),
            Err(_) => "e:parse".into(),
            Ok(rr) => {
                let cols: Vec<Col> = rr.column_specs().iter().map(|c| col_of_spec(c.name(), c.typ())).collect();
                let paging = match ps {
                    PagingStateResponse::HasMorePages { state } => Some(state.as_bytes_slice().map(|a| a.to_vec()).unwrap_or_default()),
                    PagingStateResponse::NoMorePages => None,
                };
                // raw view: every row as the raw cells the column iterator yields
                let raw: Option<Vec<CellV>> = (|| {
                    let mut out = vec![];
                    let it = rr.rows::<ColumnIterator>().ok()?;
                    for row in it {
                        let row = row.ok()?;
                        for c in row {
                            let c = c.ok()?;
                            out.push(c.slice.map(|s| s.as_slice().to_vec()));
                        }
                    }
                    Some(out)
                })();
                let typed_ok = match rr.rows::<Row>() {
                    Ok(it) => it.into_iter().all(|r| r.is_ok()),
                    Err(_) => false,
                };
                let rows = match raw {
                    Some(c) => format!("{:x}*{}", rr.rows_num(), enc_cells(&c)),
                    None => "!".into(),
                };
                format!("R:{}:{}:{}:{}", enc_cols(&cols), enc_ob(&paging), rows, typed_ok as u8)
            }
        },
    }
}

/// one execute / single-page execute through a clone of the shared statement handle
#[allow(clippy::too_many_arguments)]
async fn exec_x(
    session: &Session,
    base: &PreparedStatement,
    uc: bool,
    psize: Option<u32>,
    paging: &Option<Vec<u8>>,
    value: &[u8],
    cons: u16,
    serial: Option<u16>,
    ts: Option<i64>,
) -> Result<(scylla::response::query_result::QueryResult, PagingStateResponse), ExecutionError> {
    let mut p = base.clone();
    p.set_use_cached_result_metadata(uc);
    p.set_consistency(cons_of(cons));
    p.set_serial_consistency(serial.map(serial_of));
    p.set_timestamp(ts);
    match psize {
        None => session.execute_unpaged(&p, (value.to_vec(),)).await.map(|r| (r, PagingStateResponse::NoMorePages)),
        Some(n) => {
            p.set_page_size(n as i32);
            let st = match paging {
                None => PagingState::start(),
                Some(b) => PagingState::new_from_raw_bytes(b.clone()),
            };
            session.execute_single_page(&p, (value.to_vec(),), st).await
        }
    }
}

async fn run_case(c: Case) -> String {
    // no sharding advertised: one pool connection per node on the plain port, OS-chosen source ports
    let mut spec = ClusterSpec::uniform("c14", &[("dc1", c.nnodes)], 1, 4, 0).with_keyspace(KeyspaceDef::simple("ks", 1));
    spec.options.tablets_ext = false;
    spec.options.shard_aware_port = None;
    spec.options.metadata_id_ext = false;
    for (i, e) in c.exts.iter().enumerate() {
        spec.nodes[i].metadata_id_ext = Some(*e);
    }
    let cluster = match MockCluster::start(spec).await {
        Ok(cl) => cl,
        Err(e) => return format!("error start-cluster {}", e),
    };
    let ns = c.stmts.len();
    let texts: Vec<String> = (0..ns).map(stmt_text).collect();
    let srv = Arc::new(Mutex::new(Srv {
        exts: c.exts.clone(),
        stmts: c.stmts.clone(),
        texts: texts.clone(),
        nodes: (0..c.nnodes).map(|_| NodeSt { prep: vec![false; ns], ver: vec![0; ns], salt: vec![0; ns] }).collect(),
        forced: (0..c.nnodes).map(|_| VecDeque::new()).collect(),
        logging: false,
        log: vec![],
        pseed: 0,
        pcount: 0,
        haspg: false,
        pages_left: 0,
        min_rows: 0,
        delay: vec![0; c.nnodes],
        delay_prepare: 0,
    }));
    {
        let srv = srv.clone();
        cluster.set_handler(Some(Arc::new(move |ctx: &ReqCtx| -> Option<Vec<Action>> {
            if ctx.is_system {
                return None;
            }
            let mut s = srv.lock().unwrap();
            let req = enc_request(ctx, &s)?;
            let forced = if s.logging { s.forced[ctx.node].pop_front() } else { None };
            let resp = match forced {
                // a PREPARED result forced onto an EXECUTE / BATCH would make the mock register the
                // statement id under an empty text: answer Void instead (and log what was sent)
                Some(Resp::Prepared { .. }) if ctx.opcode != op::PREPARE => Resp::Void,
                Some(r) => r,
                None => s.answer(ctx.node, ctx),
            };
            if s.logging {
                s.log.push((ctx.node, req, resp.clone()));
            }
            let mut acts = actions_of(&resp, s.exts[ctx.node]);
            if s.logging && s.delay[ctx.node] > 0 {
                acts.insert(0, Action::Delay(s.delay[ctx.node]));
            } else if s.logging && s.delay_prepare > 0 && ctx.opcode == op::PREPARE {
                acts.insert(0, Action::Delay(s.delay_prepare));
            }
            Some(acts)
        })));
    }
    let target = Arc::new(AtomicUsize::new(0));
    let ips: Vec<IpAddr> = (0..c.nnodes).map(|i| cluster.ip(i)).collect();
    let profile = ExecutionProfile::builder()
        .request_timeout(Some(Duration::from_secs(10)))
        .load_balancing_policy(Arc::new(PinPolicy { target: target.clone(), ips }))
        .retry_policy(Arc::new(FallthroughRetryPolicy::new()))
        .build();
    let session: Session = match tokio::time::timeout(
        Duration::from_secs(20),
        SessionBuilder::new().known_node_addr(cluster.contact_point(0)).local_ip_address(Some(cluster.client_ip())).connection_timeout(Duration::from_secs(5)).default_execution_profile_handle(profile.into_handle()).build(),
    )
    .await
    {
        Ok(Ok(s)) => s,
        Ok(Err(e)) => return format!("error session {:?}", e),
        Err(_) => return "error session-timeout".into(),
    };
    let want = c.nnodes + 1;
    let t = Instant::now();
    while cluster.connections(None).len() < want && t.elapsed() < Duration::from_secs(10) {
        tokio::time::sleep(Duration::from_millis(2)).await;
    }
    let mixed = c.exts.iter().any(|e| *e != c.exts[0]);
    if mixed {
        let mut g = srv.lock().unwrap();
        for n in 0..c.nnodes {
            if !c.exts[n] {
                for st in 0..ns {
                    if c.stmts[st].vers.len() >= 2 {
                        g.nodes[n].ver[st] = 1;
                    }
                }
            }
        }
    }
    // prepare every statement: PREPARE goes to every node whose pool is connected; repeat until
    // every node has seen it (a pool may still be connecting on a loaded machine)
    let mut prepared: Vec<PreparedStatement> = vec![];
    for (st, t) in texts.iter().enumerate() {
        let t0 = Instant::now();
        loop {
            match session.prepare(t.as_str()).await {
                Ok(p) => {
                    let all = {
                        let s = srv.lock().unwrap();
                        (0..c.nnodes).all(|n| s.nodes[n].prep[st])
                    };
                    if all {
                        prepared.push(p);
                        break;
                    }
                }
                Err(e) => return format!("error session prepare {:?}", e),
            }
            if t0.elapsed() > Duration::from_secs(15) {
                return format!("error session setup: statement {} not prepared on every node", st);
            }
            tokio::time::sleep(Duration::from_millis(20)).await;
        }
    }
    srv.lock().unwrap().logging = true;
    let mut obs: Vec<String> = vec![];
    if mixed {
        let inits: Vec<String> = prepared
            .iter()
            .map(|p| {
                let g = p.get_current_result_set_col_specs();
                let cols: Vec<Col> = g.get().iter().map(|c| col_of_spec(c.name(), c.typ())).collect();
                enc_cols(&cols)
            })
            .collect();
        obs.push(format!("J/{}", inits.join(";")));
    }
    cluster.drain_trace();

    let mut oi = 0usize;
    while oi < c.ops.len() {
        let o = &c.ops[oi];
        oi += 1;
        match o {
            Op::Z { k, ms } => {
                // the next k X ops: distinct statements, the same node, all at once over its one connection
                let mut xs: Vec<(usize, bool, Option<u32>, Option<Vec<u8>>, Vec<u8>, u16, Option<u16>, Option<i64>)> = vec![];
                let mut znode = 0usize;
                for j in 0..*k {
                    let Some(Op::X { s, node, uc, psize, paging, value, cons, serial, ts, .. }) = c.ops.get(oi + j) else {
                        return "error malformed-case Z needs k X ops".into();
                    };
                    znode = *node;
                    xs.push((*s, *uc, *psize, paging.clone(), value.clone(), *cons, *serial, *ts));
                }
                oi += *k;
                {
                    let mut g = srv.lock().unwrap();
                    g.pseed = 0x5eed;
                    g.pcount = 0;
                    g.haspg = false;
                    g.log.clear();
                    g.delay_prepare = *ms;
                }
                target.store(znode, Ordering::SeqCst);
                let futs = xs.iter().map(|(s, uc, psize, paging, value, cons, serial, ts)| exec_x(&session, &prepared[*s], *uc, *psize, paging, value, *cons, *serial, *ts));
                let results = futures::future::join_all(futs).await;
                let log: Vec<(usize, String, Resp)> = {
                    let mut g = srv.lock().unwrap();
                    g.delay_prepare = 0;
                    std::mem::take(&mut g.log)
                };
                let frames_ok = user_frames(&cluster, &srv) == log.len();
                let sids: Vec<String> = c.stmts.iter().map(|st| hex_bytes(&st.sid)).collect();
                for ((s, ..), res) in xs.iter().zip(results) {
                    let out = outcome_of(res);
                    if !frames_ok {
                        obs.push(format!("O/{:x}/TRACE-MISMATCH/{}", znode, out));
                        continue;
                    }
                    // the statements are distinct: an exchange belongs to the caller of its statement
                    let mine: Vec<_> = log
                        .iter()
                        .filter(|(_, q, _)| {
                            let f: Vec<&str> = q.split(':').collect();
                            match f[0] {
                                "x" => f[1].starts_with(&sids[*s]),
                                "p" => usize::from_str_radix(f[1], 16).map(|t| t == *s + 1).unwrap_or(false),
                                _ => false,
                            }
                        })
                        .cloned()
                        .collect();
                    obs.push(obs_token(znode, &mine, &out));
                }
            }
            Op::Y { d0, d1 } => {
                // the next two X ops, concurrently, through clones of the same PreparedStatement
                let (Some(Op::X { s: s0, node: n0, uc: uc0, psize: ps0, paging: pg0, value: v0, cons: c0, serial: se0, ts: t0, pseed, .. }), Some(Op::X { s: s1, node: n1, uc: uc1, psize: ps1, paging: pg1, value: v1, cons: c1, serial: se1, ts: t1, .. })) = (c.ops.get(oi), c.ops.get(oi + 1)) else {
                    return "error malformed-case Y needs two X ops".into();
                };
                oi += 2;
                if n0 == n1 {
                    return "error malformed-case concurrent calls must use different nodes".into();
                }
                {
                    let mut g = srv.lock().unwrap();
                    g.pseed = *pseed;
                    g.pcount = 0;
                    g.haspg = false;
                    g.log.clear();
                    g.delay[*n0] = *d0;
                    g.delay[*n1] = *d1;
                }
                let pin0 = Arc::new(AtomicUsize::new(*n0));
                let pin1 = Arc::new(AtomicUsize::new(*n1));
                let ips: Vec<IpAddr> = (0..c.nnodes).map(|i| cluster.ip(i)).collect();
                let mk = |pin: Arc<AtomicUsize>| {
                    ExecutionProfile::builder()
                        .request_timeout(Some(Duration::from_secs(10)))
                        .load_balancing_policy(Arc::new(PinPolicy { target: pin, ips: ips.clone() }))
                        .retry_policy(Arc::new(FallthroughRetryPolicy::new()))
                        .build()
                        .into_handle()
                };
                let mut pa = prepared[*s0].clone();
                pa.set_execution_profile_handle(Some(mk(pin0)));
                let mut pb = prepared[*s1].clone();
                pb.set_execution_profile_handle(Some(mk(pin1)));
                let (ra, rb) = tokio::join!(
                    exec_x(&session, &pa, *uc0, *ps0, pg0, v0, *c0, *se0, *t0),
                    exec_x(&session, &pb, *uc1, *ps1, pg1, v1, *c1, *se1, *t1)
                );
                let (oa, ob) = (outcome_of(ra), outcome_of(rb));
                let log: Vec<(usize, String, Resp)> = {
                    let mut g = srv.lock().unwrap();
                    g.delay[*n0] = 0;
                    g.delay[*n1] = 0;
                    std::mem::take(&mut g.log)
                };
                if user_frames(&cluster, &srv) != log.len() {
                    obs.push(format!("O/{:x}/TRACE-MISMATCH/{}", n0, oa));
                    obs.push(format!("O/{:x}/TRACE-MISMATCH/{}", n1, ob));
                } else {
                    let la: Vec<_> = log.iter().filter(|e| e.0 == *n0).cloned().collect();
                    let lb: Vec<_> = log.iter().filter(|e| e.0 != *n0).cloned().collect();
                    obs.push(obs_token(*n0, &la, &oa));
                    obs.push(obs_token(*n1, &lb, &ob));
                }
            }
            Op::E { node, kind, s, arg } => srv.lock().unwrap().event(*node, *kind, *s, *arg),
            Op::F { node, resp } => srv.lock().unwrap().forced[*node].push_back(resp.clone()),
            Op::X { s, node, uc, psize, paging, value, cons, serial, ts, pseed, haspg } => {
                {
                    let mut g = srv.lock().unwrap();
                    g.pseed = *pseed;
                    g.pcount = 0;
                    g.haspg = *haspg;
                    g.log.clear();
                }
                target.store(*node, Ordering::SeqCst);
                let res = exec_x(&session, &prepared[*s], *uc, *psize, paging, value, *cons, *serial, *ts).await;
                let out = outcome_of(res);
                obs.push(finish_obs(&cluster, &srv, *node, out));
            }
            Op::I { s, node, uc, psize, value, cons, serial, ts, pseed, pages } => {
                {
                    let mut g = srv.lock().unwrap();
                    g.pseed = *pseed;
                    g.pcount = 0;
                    g.haspg = false;
                    g.pages_left = *pages;
                    g.min_rows = 1;
                    g.log.clear();
                }
                target.store(*node, Ordering::SeqCst);
                let mut p = prepared[*s].clone();
                p.set_use_cached_result_metadata(*uc);
                p.set_consistency(cons_of(*cons));
                p.set_serial_consistency(serial.map(serial_of));
                p.set_timestamp(*ts);
                p.set_page_size(*psize as i32);
                let mut rows: Vec<RawRow> = vec![];
                let mut final_err: Option<String> = None;
                match session.execute_iter(p, (value.clone(),)).await {
                    Err(PagerExecutionError::NextPageError(e)) => final_err = Some(page_err_class(&e)),
                    Err(e) => final_err = Some(format!("exec:{}", format!("{:?}", e).split(|c: char| !c.is_alphanumeric()).next().unwrap_or("x"))),
                    Ok(pager) => match pager.rows_stream::<RawRow>() {
                        Err(_) => final_err = Some("parse".into()),
                        Ok(mut st) => {
                            use futures::StreamExt;
                            while let Some(r) = st.next().await {
                                match r {
                                    Ok(row) => rows.push(row),
                                    Err(NextRowError::NextPageError(e)) => {
                                        final_err = Some(page_err_class(&e));
                                        break;
                                    }
                                    Err(_) => {
                                        final_err = Some("rowdecode".into());
                                        break;
                                    }
                                }
                            }
                        }
                    },
                }
                {
                    let mut g = srv.lock().unwrap();
                    g.pages_left = 0;
                    g.min_rows = 0;
                }
                obs.push(finish_pages(&cluster, &srv, *node, rows, final_err));
            }
            Op::B { node, btype, cons, serial, ts, items } => {
                {
                    let mut g = srv.lock().unwrap();
                    g.pseed = 0;
                    g.pcount = 0;
                    g.haspg = false;
                    g.log.clear();
                }
                target.store(*node, Ordering::SeqCst);
                let mut b = Batch::new(match btype {
                    1 => BatchType::Unlogged,
                    2 => BatchType::Counter,
                    _ => BatchType::Logged,
                });
                b.set_consistency(cons_of(*cons));
                b.set_serial_consistency(serial.map(serial_of));
                b.set_timestamp(*ts);
                let mut vals: Vec<Vec<Vec<u8>>> = vec![];
                for it in items {
                    match it {
                        BItem::P(s, v) => {
                            b.append_statement(prepared[*s].clone());
                            vals.push(vec![v.clone()]);
                        }
                        BItem::Q(t) => {
                            b.append_statement(query_text(*t).as_str());
                            vals.push(vec![]);
                        }
                    }
                }
                let res = session.batch(&b, vals).await.map(|r| (r, PagingStateResponse::NoMorePages));
                let out = outcome_of(res);
                obs.push(finish_obs(&cluster, &srv, *node, out));
            }
        }
    }
    cluster.shutdown();
    drop(session);
    if obs.is_empty() { "-".into() } else { obs.join(" ") }
}

/// Number of user frames (EXECUTE of a case statement, BATCH, PREPARE of a case statement) in the
/// mock's frame trace since the last drain.
fn user_frames(cluster: &MockCluster, srv: &Arc<Mutex<Srv>>) -> usize {
    let trace = cluster.drain_trace();
    let (exts, sids) = {
        let g = srv.lock().unwrap();
        (g.exts.clone(), g.stmts.iter().map(|s| s.sid.clone()).collect::<Vec<_>>())
    };
    trace
        .iter()
        .filter(|e| match &e.ev {
            Ev::In { opcode, body, .. } => match *opcode {
                op::EXECUTE => wire::decode_execute(body, exts[e.node]).map(|x| sids.iter().any(|s| x.id.starts_with(s))).unwrap_or(true),
                op::BATCH => true,
                op::PREPARE => wire::decode_prepare(body).map(|t| t.starts_with("SELECT * FROM ks.t")).unwrap_or(false),
                _ => false,
            },
            _ => false,
        })
        .count()
}
/// node field of an observation: the node all exchanges went to (whatever the case names), or
/// 0xfe when the exchanges of ONE call went to different nodes
fn node_field(named: usize, log: &[(usize, String, Resp)]) -> usize {
    match log.first() {
        None => named,
        Some((n0, _, _)) => if log.iter().all(|(n, _, _)| n == n0) { *n0 } else { 0xfe },
    }
}
fn obs_token(named: usize, log: &[(usize, String, Resp)], out: &str) -> String {
    let xs: Vec<String> = log.iter().map(|(_, q, r)| format!("{}>{}", q, enc_resp(r))).collect();
    format!("O/{:x}/{}/{}", node_field(named, log), if xs.is_empty() { "-".to_string() } else { xs.join(";") }, out)
}
/// Builds the observation token of one client op from the handler's log, cross-checked against
/// the frames in the mock's trace (every user EXECUTE / BATCH / PREPARE must have been logged).
fn finish_obs(cluster: &MockCluster, srv: &Arc<Mutex<Srv>>, node: usize, out: String) -> String {
    let log: Vec<(usize, String, Resp)> = std::mem::take(&mut srv.lock().unwrap().log);
    // every user frame the mock received must have gone through the handler (and vice versa)
    if user_frames(cluster, srv) != log.len() {
        return format!("O/{:x}/TRACE-MISMATCH/{}", node, out);
    }
    obs_token(node, &log, &out)
}

/// Observation tokens of an execute_iter op: the handler's log cut into pages (a page = the
/// exchanges up to the answer that ends one `execute_raw_with_consistency`), each with the rows
/// the stream yielded for it.
fn finish_pages(cluster: &MockCluster, srv: &Arc<Mutex<Srv>>, node: usize, rows: Vec<RawRow>, final_err: Option<String>) -> String {
    let log: Vec<(usize, String, Resp)> = std::mem::take(&mut srv.lock().unwrap().log);
    if user_frames(cluster, srv) != log.len() {
        return format!("OI/1 O/{:x}/TRACE-MISMATCH/n", node);
    }
    let mut pages: Vec<Vec<(usize, String, Resp)>> = vec![];
    let mut cur: Vec<(usize, String, Resp)> = vec![];
    for e in log {
        let is_exec = e.1.starts_with("x:");
        let is_prep = e.1.starts_with("p:");
        let ends = match (&e.2, is_exec, is_prep) {
            (Resp::Unprep(_), true, _) => false,                                 // re-preparation follows
            (Resp::Prepared { id, .. }, _, true) => {
                // continues with a resend iff the id is the one of the EXECUTE before
                let first_id = cur.first().and_then(|x| x.1.split(':').nth(1).map(|s| s.to_string()));
                first_id != Some(hex_bytes(id))
            }
            _ => true,
        };
        cur.push(e);
        if ends {
            pages.push(std::mem::take(&mut cur));
        }
    }
    if !cur.is_empty() {
        pages.push(cur);
    }
    let mut toks = vec![format!("OI/{:x}", pages.len())];
    let mut it = rows.into_iter();
    let npages = pages.len();
    for (j, pg) in pages.into_iter().enumerate() {
        let xs: Vec<String> = pg.iter().map(|(_, q, r)| format!("{}>{}", q, enc_resp(r))).collect();
        let out = match &pg.last().unwrap().2 {
            Resp::Rows { nrows, paging, .. } if pg.last().unwrap().1.starts_with("x:") => {
                let mine: Vec<RawRow> = it.by_ref().take(*nrows as usize).collect();
                if mine.len() < *nrows as usize || mine.is_empty() {
                    match (&final_err, j + 1 == npages) {
                        (Some(e), true) => format!("e:{}", e),
                        _ => "e:rows-missing".to_string(),
                    }
                } else {
                    let cols = mine[0].cols.clone();
                    let same = mine.iter().all(|r| r.cols == cols);
                    let cells: Vec<CellV> = mine.iter().flat_map(|r| r.cells.clone()).collect();
                    let typed = mine.iter().all(|r| r.typed_ok);
                    if !same { "e:cols-change-within-page".to_string() } else { format!("R:{}:{}:{:x}*{}:{}", enc_cols(&cols), enc_ob(paging), mine.len(), enc_cells(&cells), typed as u8) }
                }
            }
            _ => match (&final_err, j + 1 == npages) {
                (Some(e), true) => format!("e:{}", e),
                _ => "e:no-error-reported".to_string(),
            },
        };
        toks.push(format!("O/{:x}/{}/{}", node_field(node, &pg), xs.join(";"), out));
    }
    toks.join(" ")
}

// ------------------------------------------------------------------------------------------
// case kind P: Session::prepare against nodes in different states
// ------------------------------------------------------------------------------------------
async fn run_prepare_case(line: String) -> String {
    let f: Vec<&str> = line.split_whitespace().collect();
    if f.len() < 3 {
        return "error malformed-case".into();
    }
    let exts: Vec<bool> = f[1].chars().map(|c| c == '1').collect();
    let nnodes = exts.len();
    // reuse the H parser for the statement and the ops
    let fake = format!("H {} {:x} 1 {}", f[1], nnodes, f[2..].join(" "));
    let Some(c) = Case::parse(&fake.replace(&format!("H {} ", f[1]), &format!("H {} ", if nnodes == 1 { f[1].to_string() } else { f[1].to_string() }))) else {
        return "error malformed-case".into();
    };
    let mut spec = ClusterSpec::uniform("c14p", &[("dc1", nnodes)], 1, 4, 0).with_keyspace(KeyspaceDef::simple("ks", 1));
    spec.options.tablets_ext = false;
    spec.options.shard_aware_port = None;
    spec.options.metadata_id_ext = false;
    for (i, e) in exts.iter().enumerate() {
        spec.nodes[i].metadata_id_ext = Some(*e);
    }
    let cluster = match MockCluster::start(spec).await {
        Ok(cl) => cl,
        Err(e) => return format!("error start-cluster {}", e),
    };
    let text = stmt_text(0);
    let srv = Arc::new(Mutex::new(Srv {
        exts: exts.clone(),
        stmts: c.stmts.clone(),
        texts: vec![text.clone()],
        nodes: (0..nnodes).map(|_| NodeSt { prep: vec![false], ver: vec![0], salt: vec![0] }).collect(),
        forced: (0..nnodes).map(|_| VecDeque::new()).collect(),
        logging: true,
        log: vec![],
        pseed: 0,
        pcount: 0,
        haspg: false,
        pages_left: 0,
        min_rows: 0,
        delay: vec![0; nnodes],
        delay_prepare: 0,
    }));
    for o in &c.ops {
        match o {
            Op::E { node, kind, s, arg } => srv.lock().unwrap().event(*node, *kind, *s, *arg),
            Op::F { node, resp } => srv.lock().unwrap().forced[*node].push_back(resp.clone()),
            _ => return "error malformed-case P takes only E and F ops".into(),
        }
    }
    {
        let srv = srv.clone();
        cluster.set_handler(Some(Arc::new(move |ctx: &ReqCtx| -> Option<Vec<Action>> {
            if ctx.is_system || ctx.opcode != op::PREPARE {
                return None;
            }
            let mut s = srv.lock().unwrap();
            let req = enc_request(ctx, &s)?;
            let resp = match s.forced[ctx.node].pop_front() {
                Some(r) => r,
                None => s.answer(ctx.node, ctx),
            };
            s.log.push((ctx.node, req, resp.clone()));
            Some(actions_of(&resp, s.exts[ctx.node]))
        })));
    }
    let session: Session = match tokio::time::timeout(
        Duration::from_secs(20),
        SessionBuilder::new().known_node_addr(cluster.contact_point(0)).local_ip_address(Some(cluster.client_ip())).connection_timeout(Duration::from_secs(5)).build(),
    )
    .await
    {
        Ok(Ok(s)) => s,
        Ok(Err(e)) => return format!("error session {:?}", e),
        Err(_) => return "error session-timeout".into(),
    };
    let t = Instant::now();
    while cluster.connections(None).len() < nnodes + 1 && t.elapsed() < Duration::from_secs(10) {
        tokio::time::sleep(Duration::from_millis(2)).await;
    }
    // prepare_on_all has no timeout of its own
    let res = match tokio::time::timeout(Duration::from_secs(20), session.prepare(text.as_str())).await {
        Ok(r) => r,
        Err(_) => return "error session prepare-timeout".into(),
    };
    let out = match &res {
        Ok(p) => {
            let g = p.get_current_result_set_col_specs();
            let cols: Vec<Col> = g.get().iter().map(|c| col_of_spec(c.name(), c.typ())).collect();
            format!("ok:{}:{}", hex_bytes(p.get_id()), enc_cols(&cols))
        }
        Err(scylla::errors::PrepareError::PreparedStatementIdsMismatch) => "e:mismatch".into(),
        Err(scylla::errors::PrepareError::AllAttemptsFailed { .. }) => "e:allfailed".into(),
        Err(e) => format!("e:exec:{}", format!("{:?}", e).split(|c: char| !c.is_alphanumeric()).next().unwrap_or("x")),
    };
    let log: Vec<(usize, String, Resp)> = std::mem::take(&mut srv.lock().unwrap().log);
    cluster.shutdown();
    drop(session);
    if log.len() != nnodes && log.len() != 2 * nnodes {
        // a pool was not connected yet: not the scenario of the case (2 x nnodes = the second round of
        // prepare_nongeneric after a failed first one)
        return format!("error session prepare reached {} of {} nodes", log.len(), nnodes);
    }
    let xs: Vec<String> = log.iter().map(|(n, _, r)| format!("{:x}@{}", n, enc_resp(r))).collect();
    format!("Q/{}/{}", xs.join(";"), out)
}
fn gen_prepare_case(r: &mut Rng) -> String {
    let nnodes = 1 + r.below(3) as usize;
    let exts: String = (0..nnodes).map(|_| if r.bool() { '1' } else { '0' }).collect();
    let c = gen_case(r);
    let st = &c.stmts[0];
    let vs: Vec<String> = st.vers.iter().map(|v| format!("{}={}", hex_bytes(&v.mid), enc_cols(&v.cols))).collect();
    let mut t = vec!["P".to_string(), exts.clone(), format!("S/{}/{}/{}", st.late as u8, hex_bytes(&st.sid), vs.join(","))];
    if r.chance(1, 10) {
        // nobody prepares it, in both rounds
        for node in 0..nnodes {
            t.push(format!("F/{:x}/d:2200", node));
            t.push(format!("F/{:x}/d:2000", node));
        }
        return t.join(" ");
    }
    for node in 0..nnodes {
        if r.chance(1, 2) {
            t.push(format!("E/{:x}/s/0/{:x}", node, r.below(st.vers.len() as u64)));
        }
        if r.chance(1, 6) {
            t.push(format!("E/{:x}/i/0/{:x}", node, 1 + r.below(2)));
        }
        if r.chance(1, 5) {
            let resp = match r.below(3) {
                0 => Resp::DbErr(0x2200),
                1 => Resp::Void,
                _ => Resp::DbErr(0x2000),
            };
            t.push(format!("F/{:x}/{}", node, enc_resp(&resp)));
        }
    }
    t.join(" ")
}

// ------------------------------------------------------------------------------------------
// generators
// ------------------------------------------------------------------------------------------
fn rb0(r: &mut Rng, m: u64) -> Vec<u8> {
    let k = r.below(m) as usize;
    r.bytes(k)
}
fn rb1(r: &mut Rng, m: u64) -> Vec<u8> {
    let k = 1 + r.below(m) as usize;
    r.bytes(k)
}
fn gen_cols(r: &mut Rng) -> Vec<Col> {
    let n = 1 + r.below(4) as usize;
    let mut names: Vec<u32> = (1..=7).collect();
    r.shuffle(&mut names);
    names[..n].iter().map(|&name| Col { name, t: *r.pick(&[CT::I, CT::B, CT::T, CT::X]) }).collect()
}
fn mutate_cols(r: &mut Rng, c: &[Col]) -> Vec<Col> {
    let mut v = c.to_vec();
    match r.below(5) {
        0 => {
            // add a column (ALTER TABLE ADD with SELECT *)
            let used: Vec<u32> = v.iter().map(|x| x.name).collect();
            let name = (1..=9).find(|n| !used.contains(n)).unwrap_or(9);
            let pos = r.below(v.len() as u64 + 1) as usize;
            v.insert(pos, Col { name, t: *r.pick(&[CT::I, CT::B, CT::T, CT::X]) });
        }
        1 if v.len() > 1 => {
            let pos = r.below(v.len() as u64) as usize;
            v.remove(pos);
        }
        2 => {
            let pos = r.below(v.len() as u64) as usize;
            v[pos].t = *r.pick(&[CT::I, CT::B, CT::T, CT::X]);
        }
        3 if v.len() > 1 => {
            let i = r.below(v.len() as u64) as usize;
            let j = r.below(v.len() as u64) as usize;
            v.swap(i, j);
        }
        _ => {
            let pos = r.below(v.len() as u64) as usize;
            v[pos].name = 10 + r.below(3) as u32;
        }
    }
    v
}
fn mid_for(cols: &[Col], taken: &[(Vec<u8>, Vec<Col>)]) -> Vec<u8> {
    if let Some((m, _)) = taken.iter().find(|(_, c)| c == cols) {
        return m.clone();
    }
    let mut d = vh::mocknode::types::digest16(enc_cols(cols).as_bytes())[..4].to_vec();
    while taken.iter().any(|(m, _)| *m == d) {
        d[3] = d[3].wrapping_add(1);
    }
    d
}
/// Several DISTINCT statements evicted on one node and executed at the same time over its one connection,
/// with slow PREPARE answers: every caller must get its re-preparation and its rows.
fn gen_z_case(r: &mut Rng) -> Case {
    let mut c = gen_case(r);
    let k = 2 + r.below(3) as usize;
    let base = c.stmts[0].clone();
    // k statements that return rows (copies of the first one's versions under their own ids, or fresh ones)
    c.stmts = (0..k)
        .map(|s| {
            let mut st = if base.vers[0].cols.is_empty() || r.bool() {
                let cols = gen_cols(r);
                Stmt { late: false, sid: vec![], vers: vec![Ver { mid: mid_for(&cols, &[]), cols: cols.clone() }, Ver { mid: mid_for(&cols, &[]), cols }] }
            } else {
                base.clone()
            };
            st.late = false;
            st.sid = vh::mocknode::types::digest16(stmt_text(s).as_bytes());
            st
        })
        .collect();
    let node = r.below(c.nnodes as u64) as usize;
    let mut ops = vec![];
    let rounds = 1 + r.below(2);
    for _ in 0..rounds {
        for s in 0..k {
            ops.push(Op::E { node, kind: 'e', s, arg: 0 });
        }
        ops.push(Op::Z { k, ms: *r.pick(&[50u64, 80, 120, 150]) });
        let mut order: Vec<usize> = (0..k).collect();
        r.shuffle(&mut order);
        for s in order {
            ops.push(Op::X { s, node, uc: r.bool(), psize: None, paging: None, value: rb0(r, 5), cons: *r.pick(&[1u16, 4, 6]), serial: None, ts: if r.chance(1, 3) { Some(r.below(1 << 40) as i64) } else { None }, pseed: r.below(1 << 20), haspg: false });
        }
    }
    // uniform cluster (the bookkeeping then also runs)
    let e = c.exts[0];
    c.exts = vec![e; c.nnodes];
    c.ops = ops;
    c
}

fn gen_case(r: &mut Rng) -> Case {
    let nnodes = 1 + r.below(3) as usize;
    let mut exts = vec![r.bool(); nnodes];
    // mixed-version cluster: some nodes offer the metadata-id extension, some do not
    if nnodes >= 2 && r.chance(1, 5) {
        let k = r.below(nnodes as u64) as usize;
        exts[k] = !exts[k];
    }
    let ext = exts.iter().all(|x| *x);
    let mixed = exts.iter().any(|x| *x != exts[0]);
    let ns = if r.chance(1, 6) { 3 } else { 1 + r.below(2) as usize };
    let generic = !mixed && r.chance(1, 4);
    let mut stmts = vec![];
    for s in 0..ns {
        let nonselect = r.chance(1, 10);
        let nver = 2 + r.below(3) as usize;
        let mut taken: Vec<(Vec<u8>, Vec<Col>)> = vec![];
        let mut vers: Vec<Ver> = vec![];
        for v in 0..nver {
            let cols = if nonselect {
                vec![]
            } else if v == 0 {
                gen_cols(r)
            } else if r.chance(1, 5) {
                vers[r.below(v as u64) as usize].cols.clone()
            } else {
                mutate_cols(r, &vers[v - 1].cols)
            };
            let mid = mid_for(&cols, &taken);
            taken.push((mid.clone(), cols.clone()));
            vers.push(Ver { mid, cols });
        }
        stmts.push(Stmt { late: !nonselect && r.chance(1, 8), sid: vh::mocknode::types::digest16(stmt_text(s).as_bytes()), vers });
    }
    let nops = 4 + r.below(12) as usize;
    let mut ops = vec![];
    let mut last_paging: Option<Vec<u8>> = None;
    while ops.len() < nops {
        let s = r.below(ns as u64) as usize;
        let node = r.below(nnodes as u64) as usize;
        let k = if generic && r.chance(1, 4) { 19 } else { r.below(20) };
        match k {
            0..=10 => {
                let paged = r.chance(1, 3);
                ops.push(Op::X {
                    s,
                    node,
                    uc: r.bool(),
                    psize: if paged { Some(1 + r.below(50) as u32) } else { None },
                    paging: if paged && r.bool() { Some(last_paging.clone().unwrap_or_else(|| rb1(r, 3))) } else { None },
                    value: rb0(r, 5),
                    cons: *r.pick(&[1u16, 4, 5, 6]),
                    serial: *r.pick(&[None, Some(8u16), Some(9)]),
                    ts: if r.chance(1, 3) { Some(r.i64() >> r.below(40)) } else { None },
                    pseed: r.below(1 << 20),
                    haspg: paged && r.bool(),
                });
                if paged {
                    last_paging = Some(r.bytes(2));
                }
            }
            11 if !generic && stmts[s].vers.iter().all(|v| !v.cols.is_empty()) => {
                // without the extension the pager is only driven with cached metadata off: a stale
                // decode error in the middle of a page would leave the pager's background worker
                // fetching further pages into the next operation's log
                ops.push(Op::I {
                    s,
                    node,
                    uc: ext && r.bool(),
                    psize: 1 + r.below(50) as u32,
                    value: rb0(r, 5),
                    cons: *r.pick(&[1u16, 4, 5, 6]),
                    serial: *r.pick(&[None, Some(8u16), Some(9)]),
                    ts: if r.chance(1, 3) { Some(r.i64() >> r.below(40)) } else { None },
                    pseed: r.below(1 << 20),
                    pages: 1 + r.below(3) as u32,
                });
            }
            11 | 12 => {
                let k = 1 + r.below(3) as usize;
                let items = (0..k).map(|_| if r.chance(1, 5) { BItem::Q(r.below(4) as u32) } else { BItem::P(r.below(ns as u64) as usize, rb0(r, 4)) }).collect();
                ops.push(Op::B { node, btype: r.below(2) as u8, cons: *r.pick(&[1u16, 4, 6]), serial: *r.pick(&[None, Some(9u16)]), ts: if r.chance(1, 3) { Some(r.below(1 << 50) as i64) } else { None }, items });
            }
            13 if !generic && nnodes >= 2 && r.chance(1, 2) => {
                // two concurrent callers sharing the statement handle, on different nodes; often after a
                // schema change on one of them, and followed by a sequential call that shows the cell
                let n1 = (node + 1 + r.below(nnodes as u64 - 1) as usize) % nnodes;
                if r.bool() {
                    ops.push(Op::E { node: n1, kind: 's', s, arg: r.below(stmts[s].vers.len() as u64) });
                }
                ops.push(Op::Y { d0: *r.pick(&[0u64, 30, 60]), d1: *r.pick(&[0u64, 0, 30]) });
                for nd in [node, n1] {
                    ops.push(Op::X { s, node: nd, uc: r.bool(), psize: None, paging: None, value: rb0(r, 5), cons: *r.pick(&[1u16, 4, 6]), serial: None, ts: None, pseed: r.below(1 << 20), haspg: false });
                }
                ops.push(Op::X { s, node: *r.pick(&[node, n1]), uc: r.bool(), psize: None, paging: None, value: rb0(r, 5), cons: 1, serial: None, ts: None, pseed: r.below(1 << 20), haspg: false });
            }
            13 | 14 => ops.push(Op::E { node, kind: 'e', s, arg: 0 }),
            15 => {
                // ALTER then invalidation: the history the property's note mentions
                let v = r.below(stmts[s].vers.len() as u64);
                ops.push(Op::E { node, kind: 's', s, arg: v });
                ops.push(Op::E { node, kind: 'e', s, arg: 0 });
            }
            16 => ops.push(Op::E { node, kind: 's', s, arg: r.below(stmts[s].vers.len() as u64) }),
            17 => ops.push(Op::E { node, kind: 'p', s, arg: 0 }),
            18 => ops.push(Op::E { node, kind: 'i', s, arg: if r.chance(1, 3) { 0 } else { 1 + r.below(2) } }),
            _ => {
                if generic {
                    ops.push(Op::F { node, resp: gen_forced(r, ext, &stmts, s) });
                    if r.bool() {
                        ops.push(Op::F { node, resp: gen_forced(r, ext, &stmts, s) });
                    }
                } else {
                    ops.push(Op::E { node, kind: 'e', s, arg: 0 });
                }
            }
        }
    }
    Case { exts, nnodes, stmts, ops }
}
/// an arbitrary (possibly ill-behaved) answer for the generic system
fn gen_forced(r: &mut Rng, ext: bool, stmts: &[Stmt], s: usize) -> Resp {
    let st = &stmts[s];
    let v = r.below(st.vers.len() as u64) as usize;
    let cols = if r.chance(1, 3) { gen_cols(r) } else { st.vers[v].cols.clone() };
    match r.below(10) {
        0 | 1 => Resp::Unprep(if r.bool() { st.sid.clone() } else { r.bytes(3) }),
        2 => Resp::DbErr(*r.pick(&[0x2200u32, 0x2000, 0x2100, 0x0000])),
        3 => Resp::Void,
        4 => Resp::Prepared { id: if r.chance(2, 3) { st.sid.clone() } else { r.bytes(16) }, mid: if ext { Some(if r.bool() { st.vers[v].mid.clone() } else { r.bytes(2) }) } else { None }, cols: if r.chance(1, 4) { vec![] } else { cols } },
        5 if r.chance(1, 4) => Resp::Other,
        _ => {
            let nrows = r.below(3) as u32;
            let width = if r.chance(1, 4) { r.below(5) as usize } else { cols.len() };
            let enc = cols.clone();
            let cells: Vec<CellV> = (0..nrows as usize * width).map(|i| gen_cell(r, enc.get(i % width.max(1)).map(|c| c.t).unwrap_or(CT::X))).collect();
            let meta = match r.below(if ext { 4 } else { 3 }) {
                0 => RMeta::None(*r.pick(&[cols.len() as u32, 0, 7])),
                1 | 2 => RMeta::Full(cols.clone()),
                _ => RMeta::NewId(if r.bool() { st.vers[v].mid.clone() } else { let k = 1 + r.below(3) as usize; r.bytes(k) }, if r.chance(1, 6) { vec![] } else { cols.clone() }),
            };
            Resp::Rows { meta, paging: None, nrows, cells, enc }
        }
    }
}

fn main() {
    let args = parse_args();
    quiet_panics();
    let lines: Vec<String> = match &args.replay {
        Some(p) => read_cases(p),
        None => {
            let mut r = Rng::new(args.seed);
            (0..args.n)
                .map(|_| {
                    if r.chance(1, 12) {
                        gen_prepare_case(&mut r)
                    } else if r.chance(1, 14) {
                        gen_z_case(&mut r).line()
                    } else {
                        gen_case(&mut r).line()
                    }
                })
                .collect()
        }
    };
    let par: usize = std::env::var("C14_PAR").ok().and_then(|s| s.parse().ok()).unwrap_or(6);
    let rt = tokio::runtime::Builder::new_multi_thread().worker_threads(6).enable_all().build().unwrap();
    let results: Vec<(String, String)> = rt.block_on(async move {
        use futures::stream::{self, StreamExt};
        stream::iter(lines.into_iter().map(|line| async move {
            let mut out = String::new();
            // a loaded machine can make session creation or a request time out: that says nothing
            // about the property; the history is re-run from scratch (fresh cluster and session)
            for attempt in 0..8u64 {
                let l2 = line.clone();
                let h = if line.starts_with("P ") {
                    tokio::spawn(run_prepare_case(l2))
                } else {
                    match Case::parse(&l2) {
                        Some(c) => tokio::spawn(run_case(c)),
                        None => tokio::spawn(async { "error malformed-case".to_string() }),
                    }
                };
                out = match h.await {
                    Ok(o) => o,
                    Err(e) => format!("error panic {}", e),
                };
                let env = out.starts_with("error session") || out.starts_with("error start-cluster") || out.contains("RequestTimeout") || out.contains("BrokenConnection") || out.contains("ConnectionPoolError") || out.contains("AddrInUse") || out.contains("EmptyPlan") || out.contains("TRACE-MISMATCH");
                if !env {
                    break;
                }
                tokio::time::sleep(Duration::from_millis(400 * (attempt + 1))).await;
            }
            (line, out)
        }))
        .buffered(par)
        .collect()
        .await
    });
    let mut out = Out::create(&args.out);
    for (l, o) in results {
        out.case(&l, &o);
    }
    out.finish();
}
