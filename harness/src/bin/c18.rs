//! C18 runner: drives the REAL `MonotonicTimestampGenerator` (public API only) and writes what
//! every thread was handed, for the extracted model/acceptors.
//!
//! Case kinds (`--n` is the total budget of next_timestamp calls):
//!   T <serial> <warn 0|1> <threads> <calls-per-thread> <pace>
//!       | <seq>;<seq>;...;<seq> <final>
//!     one generator shared by <threads> OS threads released by a barrier; each records the
//!     values it is handed, in order; after joining, the main thread makes one more call
//!     (<final>).  pace: 0 tight loop, 1 random short spins (lets the clock overtake `last`),
//!     2 yield_now between calls, 3 staggered starts + bursts, 4 two phases: every thread makes the
//!     first half of its calls, all threads meet at a barrier, then the second half (every
//!     second-phase value must exceed every first-phase value).
//!   B <serial> <warn 0|1> <calls> <pace>
//!       | t0,v,t1,t0,v,t1,...
//!     single thread; the harness reads the same clock (SystemTime, microseconds) just before
//!     and just after every call, so the model's compute_next can be checked exactly:
//!     v must be the value the model returns for SOME reading in [t0, t1].
//!     pace: 0 tight (the generator runs ahead of the clock: v = last + 1 exactly),
//!     1 random spins of 0..40 us, 2 occasional 1 ms sleeps.
//!   E <serial> <gen 0|1> <requests>
//!       | <kind>.<explicit>.<observed>,... <consults> <frames>
//!     end-to-end: a real Session (with a MonotonicTimestampGenerator wrapped in a call counter when
//!     gen = 1, without any generator when gen = 0) sends <requests> concurrent unprepared queries
//!     (kind q), prepared executes (x) and batches (b) to a one-node mocknode; a seeded part of them
//!     carries an explicit statement timestamp (boundary values included).  Per request, in request
//!     order: the explicit timestamp ('n' = none) and the timestamp field of the frame the mock
//!     received ('n' = flag not set, 'missing' = no frame seen, 'dup' = more than one frame).  <consults> =
//!     number of next_timestamp calls during the window, <frames> = number of QUERY/EXECUTE/BATCH
//!     frames the mock received during the window.
//! Encoding of integer lists: the first token and every token starting with '=' are absolute
//! signed hex values; other tokens are signed hex deltas to the previous value of the same
//! stream (for B: previous t0 / v / t1 respectively).
use scylla::policies::timestamp_generator::{MonotonicTimestampGenerator, TimestampGenerator};
use scylla::client::session_builder::SessionBuilder;
use scylla::statement::batch::Batch;
use scylla::statement::Statement;
use std::sync::atomic::{AtomicU64, Ordering};
use std::sync::{Arc, Barrier};
use vh::mocknode::{self as mock, wire, op, Ev};
use std::time::{Duration, Instant, SystemTime, UNIX_EPOCH};
use vh::*;

fn new_gen(warn: bool) -> MonotonicTimestampGenerator {
    if warn { MonotonicTimestampGenerator::new() } else { MonotonicTimestampGenerator::new().without_warnings() }
}

fn now_us() -> i64 {
    match SystemTime::now().duration_since(UNIX_EPOCH) {
        Ok(d) => d.as_micros() as i64,
        Err(_) => -1,
    }
}

fn spin(us: u64) {
    if us == 0 {
        return;
    }
    let t = Instant::now();
    while t.elapsed() < Duration::from_micros(us) {
        std::hint::spin_loop();
    }
}

const SMALL: i128 = 1 << 60;

/// delta/absolute encoding of one stream
fn enc_stream(out: &mut String, vals: impl Iterator<Item = i64>) {
    let mut prev: Option<i64> = None;
    let mut first = true;
    for v in vals {
        if !first {
            out.push(',');
        }
        first = false;
        match prev {
            Some(p) if (p as i128).abs() < SMALL && (v as i128).abs() < SMALL => {
                out.push_str(&hex_i(v as i128 - p as i128));
            }
            _ => {
                out.push('=');
                out.push_str(&hex_i(v as i128));
            }
        }
        prev = Some(v);
    }
    if first {
        out.push('-');
    }
}

fn run_t(warn: bool, threads: usize, calls: usize, pace: u64, seed: u64) -> String {
    let generator = new_gen(warn);
    let barrier = Barrier::new(threads);
    let seqs: Vec<Vec<i64>> = std::thread::scope(|s| {
        let hs: Vec<_> = (0..threads)
            .map(|i| {
                let g = &generator;
                let b = &barrier;
                s.spawn(move || {
                    let mut r = Rng::new(seed ^ (i as u64).wrapping_mul(0x9E3779B97F4A7C15));
                    let mut v = Vec::with_capacity(calls);
                    b.wait();
                    if pace == 3 {
                        spin(r.below(200));
                    }
                    for k in 0..calls {
                        if pace == 4 && k == calls / 2 {
                            b.wait();
                        }
                        v.push(g.next_timestamp());
                        match pace {
                            1 => {
                                if r.chance(1, 16) {
                                    spin(r.below(8));
                                }
                            }
                            2 => std::thread::yield_now(),
                            3 => {
                                if k % 64 == 63 {
                                    spin(r.below(30));
                                }
                            }
                            _ => {}
                        }
                    }
                    v
                })
            })
            .collect();
        hs.into_iter().map(|h| h.join().unwrap()).collect()
    });
    let fin = generator.next_timestamp();
    let mut o = String::with_capacity(threads * calls * 3 + 32);
    for (i, sq) in seqs.iter().enumerate() {
        if i > 0 {
            o.push(';');
        }
        enc_stream(&mut o, sq.iter().copied());
    }
    o.push(' ');
    o.push_str(&hex_i(fin as i128));
    o
}

fn run_b(warn: bool, calls: usize, pace: u64, seed: u64) -> String {
    let generator = new_gen(warn);
    let mut r = Rng::new(seed);
    let mut samples: Vec<(i64, i64, i64)> = Vec::with_capacity(calls);
    for k in 0..calls {
        let t0 = now_us();
        let v = generator.next_timestamp();
        let t1 = now_us();
        samples.push((t0, v, t1));
        match pace {
            1 => spin(r.below(40)),
            2 => {
                if k % 997 == 996 {
                    std::thread::sleep(Duration::from_millis(1));
                }
            }
            _ => {}
        }
    }
    // three interleaved delta streams
    let mut o = String::with_capacity(calls * 8);
    let mut prev: Option<(i64, i64, i64)> = None;
    for (i, s) in samples.iter().enumerate() {
        if i > 0 {
            o.push(',');
        }
        let cur = [s.0, s.1, s.2];
        let pv = prev.map(|p| [p.0, p.1, p.2]);
        for j in 0..3 {
            if j > 0 {
                o.push(',');
            }
            match pv {
                Some(p) if (p[j] as i128).abs() < SMALL && (cur[j] as i128).abs() < SMALL => {
                    o.push_str(&hex_i(cur[j] as i128 - p[j] as i128))
                }
                _ => {
                    o.push('=');
                    o.push_str(&hex_i(cur[j] as i128));
                }
            }
        }
        prev = Some(*s);
    }
    if samples.is_empty() {
        o.push('-');
    }
    o
}

/// the real generator behind a call counter (the trait is public API)
struct CountingGen {
    inner: MonotonicTimestampGenerator,
    calls: AtomicU64,
}
impl TimestampGenerator for CountingGen {
    fn next_timestamp(&self) -> i64 {
        self.calls.fetch_add(1, Ordering::SeqCst);
        self.inner.next_timestamp()
    }
}

fn gen_explicit(r: &mut Rng) -> i64 {
    match r.below(6) {
        0 => *r.pick(&[0i64, 1, -1, i64::MAX, i64::MIN, i64::MAX - 1, i64::MIN + 1]),
        1 => now_us() + r.below(2000) as i64 - 1000, // close to what the generator hands out
        2 => r.below(1000) as i64,
        _ => r.i64(),
    }
}

async fn run_e(serial: u64, with_gen: bool, nreq: usize) -> Result<String, String> {
    let table = mock::TableDef::new("t", &[("pk", mock::CqlType::Int)], &[("ck", mock::CqlType::Int)], &[("v", mock::CqlType::Text)]);
    let spec = mock::ClusterSpec::uniform("c18", &[("dc1", 1)], 1, 4, 2)
        .with_keyspace(mock::KeyspaceDef::simple("ks", 1).with_table(table.clone()));
    let cluster = mock::MockCluster::start(spec).await.map_err(|e| format!("mock start: {e}"))?;
    let insert = "INSERT INTO ks.t (pk, ck, v) VALUES (?, ?, ?)";
    cluster.on_prepare(insert, table.prepared("ks", &["pk", "ck", "v"], &[]));
    let counting = Arc::new(CountingGen { inner: MonotonicTimestampGenerator::new(), calls: AtomicU64::new(0) });
    let mut b = SessionBuilder::new().known_node_addr(cluster.contact_point(0)).connection_timeout(Duration::from_secs(5));
    if with_gen {
        b = b.timestamp_generator(counting.clone());
    }
    let session = Arc::new(b.build().await.map_err(|e| format!("session: {e}"))?);
    let prepared = session.prepare(insert).await.map_err(|e| format!("prepare: {e}"))?;
    let prepared_id = cluster.prepared_id(insert);
    // let the pools settle, then open the observation window
    tokio::time::sleep(Duration::from_millis(60)).await;
    cluster.drain_trace();
    let calls0 = counting.calls.load(Ordering::SeqCst);
    let mut r = Rng::new(serial);
    let plan: Vec<(char, Option<i64>)> = (0..nreq)
        .map(|i| (['q', 'x', 'b'][i % 3], if r.chance(2, 5) { Some(gen_explicit(&mut r)) } else { None }))
        .collect();
    let mut tasks = Vec::new();
    for (i, (kind, explicit)) in plan.iter().cloned().enumerate() {
        let session = session.clone();
        let mut prepared = prepared.clone();
        tasks.push(tokio::spawn(async move {
            match kind {
                'q' => {
                    let mut st = Statement::new(format!("INSERT INTO ks.t (pk, ck, v) VALUES ({}, 0, 'q')", i));
                    st.set_timestamp(explicit);
                    session.query_unpaged(st, ()).await.map(|_| ()).map_err(|e| e.to_string())
                }
                'x' => {
                    prepared.set_timestamp(explicit);
                    session.execute_unpaged(&prepared, (i as i32, 1i32, "x")).await.map(|_| ()).map_err(|e| e.to_string())
                }
                _ => {
                    let mut batch = Batch::default();
                    batch.append_statement(Statement::new(format!("INSERT INTO ks.t (pk, ck, v) VALUES ({}, 2, 'b')", i)));
                    batch.append_statement(Statement::new("INSERT INTO ks.t (pk, ck, v) VALUES (0, 3, 'b2')"));
                    batch.set_timestamp(explicit);
                    session.batch(&batch, ((), ())).await.map(|_| ()).map_err(|e| e.to_string())
                }
            }
        }));
    }
    for t in tasks {
        t.await.map_err(|e| format!("join: {e}"))?.map_err(|e| format!("request: {e}"))?;
    }
    let consults = counting.calls.load(Ordering::SeqCst) - calls0;
    let trace = cluster.drain_trace();
    // observed[i] = timestamps of the frames carrying request i
    let mut observed: Vec<Vec<Option<i64>>> = vec![vec![]; nreq];
    let mut frames = 0u64;
    let id_of_text = |text: &str| -> Option<usize> {
        let rest = text.strip_prefix("INSERT INTO ks.t (pk, ck, v) VALUES (")?;
        rest.split(',').next()?.trim().parse::<usize>().ok()
    };
    for e in &trace {
        if let Ev::In { opcode, body, .. } = &e.ev {
            match *opcode {
                op::QUERY => {
                    frames += 1;
                    let q = wire::decode_query(body).map_err(|e| format!("decode QUERY: {e:?}"))?;
                    if let Some(i) = id_of_text(&q.text) {
                        if i < nreq {
                            observed[i].push(q.params.timestamp);
                        }
                    }
                }
                op::EXECUTE => {
                    frames += 1;
                    let x = wire::decode_execute(body, false).map_err(|e| format!("decode EXECUTE: {e:?}"))?;
                    if x.id == prepared_id {
                        if let Some(b) = x.params.values.first().and_then(|v| v.as_bytes()) {
                            if b.len() == 4 {
                                let i = i32::from_be_bytes([b[0], b[1], b[2], b[3]]) as usize;
                                if i < nreq {
                                    observed[i].push(x.params.timestamp);
                                }
                            }
                        }
                    }
                }
                op::BATCH => {
                    frames += 1;
                    let bt = wire::decode_batch(body).map_err(|e| format!("decode BATCH: {e:?}"))?;
                    if let Some(wire::BatchStmt::Query { text, .. }) = bt.statements.first() {
                        if let Some(i) = id_of_text(text) {
                            if i < nreq {
                                observed[i].push(bt.timestamp);
                            }
                        }
                    }
                }
                _ => {}
            }
        }
    }
    let opt = |o: Option<i64>| o.map(|v| hex_i(v as i128)).unwrap_or_else(|| "n".into());
    let toks: Vec<String> = plan
        .iter()
        .zip(&observed)
        .map(|((kind, explicit), obs)| {
            let o = match obs.len() {
                0 => "missing".to_string(),
                1 => opt(obs[0]),
                _ => "dup".to_string(),
            };
            format!("{}.{}.{}", kind, opt(*explicit), o)
        })
        .collect();
    drop(session);
    cluster.shutdown();
    Ok(format!("{} {:x} {:x}", if toks.is_empty() { "-".to_string() } else { toks.join(",") }, consults, frames))
}

fn run_case(case: &str) -> String {
    let f: Vec<&str> = case.split_whitespace().collect();
    let h = |s: &str| u64::from_str_radix(s, 16).unwrap();
    match f[0] {
        "T" if f.len() == 6 => {
            let (serial, warn, threads, calls, pace) = (h(f[1]), h(f[2]) != 0, h(f[3]) as usize, h(f[4]) as usize, h(f[5]));
            if threads == 0 || threads > 64 || calls > 4_000_000 {
                return "error bad-parameters".into();
            }
            run_t(warn, threads, calls, pace, serial)
        }
        "B" if f.len() == 5 => {
            let (serial, warn, calls, pace) = (h(f[1]), h(f[2]) != 0, h(f[3]) as usize, h(f[4]));
            if calls > 4_000_000 {
                return "error bad-parameters".into();
            }
            run_b(warn, calls, pace, serial)
        }
        "E" if f.len() == 4 => {
            let (serial, with_gen, nreq) = (h(f[1]), h(f[2]) != 0, h(f[3]) as usize);
            if nreq > 100_000 {
                return "error bad-parameters".into();
            }
            let rt = tokio::runtime::Builder::new_multi_thread().worker_threads(4).enable_all().build().unwrap();
            let r = rt.block_on(run_e(serial, with_gen, nreq));
            match r {
                Ok(s) => s,
                Err(e) => format!("error e2e {}", e.replace(' ', "_")),
            }
        }
        _ => "error unknown-case".into(),
    }
}

fn main() {
    let a = parse_args();
    let mut out = Out::create(&a.out);
    if let Some(p) = &a.replay {
        for c in read_cases(p) {
            let o = run_case(&c);
            out.case(&c, &o);
        }
        out.finish();
        return;
    }
    let mut r = Rng::new(a.seed);
    let thorough = a.tier == "thorough";
    // per-case size cap: the extracted acceptor holds every value as an inductive Z
    let cap: u64 = if thorough { 400_000 } else { 130_000 };
    let mut budget = a.n as i64;
    let mut serial: u64 = a.seed.wrapping_mul(1_000_003) & 0xffff_ffff;
    let emit = |out: &mut Out, c: String| {
        let o = run_case(&c);
        out.case(&c, &o);
    };
    // fixed part: every thread count 2..16 once with a tight loop, and the three B paces
    for threads in 2..=16u64 {
        let calls = (cap / 16).min(2_000);
        serial += 1;
        emit(&mut out, format!("T {:x} {:x} {:x} {:x} 0", serial, threads & 1, threads, calls));
        budget -= (threads * calls) as i64;
    }
    for threads in [2u64, 5, 16] {
        serial += 1;
        emit(&mut out, format!("T {:x} 0 {:x} {:x} 4", serial, threads, 2_000));
        budget -= (threads * 2_000) as i64;
    }
    for pace in 0..3u64 {
        let calls = if pace == 1 { 5_000 } else { 40_000 };
        serial += 1;
        emit(&mut out, format!("B {:x} {:x} {:x} {:x}", serial, pace & 1, calls, pace));
        budget -= calls as i64;
    }
    // end-to-end part: which timestamp goes into the frames
    let e_cases = if thorough { 60 } else { 12 };
    for k in 0..e_cases {
        serial += 1;
        let nreq = if k % 4 == 3 { 900 } else { r.range(30, 400) };
        emit(&mut out, format!("E {:x} {:x} {:x}", serial, if k % 3 == 2 { 0 } else { 1 }, nreq));
    }
    // seeded part
    while budget > 0 {
        serial += 1;
        if r.chance(1, 8) {
            let pace = r.below(3);
            let calls = match pace {
                1 => r.range(500, 4_000),
                _ => r.range(2_000, 30_000),
            };
            emit(&mut out, format!("B {:x} {:x} {:x} {:x}", serial, r.below(2), calls, pace));
            budget -= calls as i64;
        } else {
            let threads = match r.below(4) {
                0 => 2,
                1 => 16,
                _ => r.range(2, 16),
            };
            let pace = r.below(5);
            let per = match r.below(20) {
                0 => cap / threads,                     // as large as the cap allows (>= 10^4 per thread for <= 13 threads)
                1..=3 => r.range(5_000, 20_000).min(cap / threads),
                _ => r.range(100, 2_500),
            };
            let per = if pace == 2 { per.min(3_000) } else { per };
            let per = if pace == 4 { (per / 2 * 2).max(2) } else { per };
            emit(&mut out, format!("T {:x} {:x} {:x} {:x} {:x}", serial, r.below(2), threads, per, pace));
            budget -= (threads * per) as i64;
        }
    }
    out.finish();
}
