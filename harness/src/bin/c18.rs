//! C18 runner: drives the REAL `MonotonicTimestampGenerator` (public API only) and writes what
//! every thread was handed, for the extracted model/acceptors.
//!
//! Case kinds (`--n` is the total budget of next_timestamp calls):
//!   T <serial> <warn 0|1> <threads> <calls-per-thread> <pace>
//!       | <seq>;<seq>;...;<seq> <final>
//!     one generator shared by <threads> OS threads released by a barrier; each records the
//!     values it is handed, in order; after joining, the main thread makes one more call
//!     (<final>).  pace: 0 tight loop, 1 random short spins (lets the clock overtake `last`),
//!     2 yield_now between calls, 3 staggered starts + bursts, 4 two phases: every thread makes the
//!     first half of its calls, all threads meet at a barrier, then the second half (every
//!     second-phase value must exceed every first-phase value).
//!   B <serial> <warn 0|1> <calls> <pace>
//!       | t0,v,t1,t0,v,t1,...
//!     single thread; the harness reads the same clock (SystemTime, microseconds) just before
//!     and just after every call, so the model's compute_next can be checked exactly:
//!     v must be the value the model returns for SOME reading in [t0, t1].
//!     pace: 0 tight (the generator runs ahead of the clock: v = last + 1 exactly),
//!     1 random spins of 0..40 us, 2 occasional 1 ms sleeps.
//! Encoding of integer lists: the first token and every token starting with '=' are absolute
//! signed hex values; other tokens are signed hex deltas to the previous value of the same
//! stream (for B: previous t0 / v / t1 respectively).
use scylla::policies::timestamp_generator::{MonotonicTimestampGenerator, TimestampGenerator};
use std::sync::Barrier;
use std::time::{Duration, Instant, SystemTime, UNIX_EPOCH};
use vh::*;

fn new_gen(warn: bool) -> MonotonicTimestampGenerator {
    if warn { MonotonicTimestampGenerator::new() } else { MonotonicTimestampGenerator::new().without_warnings() }
}

fn now_us() -> i64 {
    match SystemTime::now().duration_since(UNIX_EPOCH) {
        Ok(d) => d.as_micros() as i64,
        Err(_) => -1,
    }
}

fn spin(us: u64) {
    if us == 0 {
        return;
    }
    let t = Instant::now();
    while t.elapsed() < Duration::from_micros(us) {
        std::hint::spin_loop();
    }
}

const SMALL: i128 = 1 << 60;

/// delta/absolute encoding of one stream
fn enc_stream(out: &mut String, vals: impl Iterator<Item = i64>) {
    let mut prev: Option<i64> = None;
    let mut first = true;
    for v in vals {
        if !first {
            out.push(',');
        }
        first = false;
        match prev {
            Some(p) if (p as i128).abs() < SMALL && (v as i128).abs() < SMALL => {
                out.push_str(&hex_i(v as i128 - p as i128));
            }
            _ => {
                out.push('=');
                out.push_str(&hex_i(v as i128));
            }
        }
        prev = Some(v);
    }
    if first {
        out.push('-');
    }
}

fn run_t(warn: bool, threads: usize, calls: usize, pace: u64, seed: u64) -> String {
    let generator = new_gen(warn);
    let barrier = Barrier::new(threads);
    let seqs: Vec<Vec<i64>> = std::thread::scope(|s| {
        let hs: Vec<_> = (0..threads)
            .map(|i| {
                let g = &generator;
                let b = &barrier;
                s.spawn(move || {
                    let mut r = Rng::new(seed ^ (i as u64).wrapping_mul(0x9E3779B97F4A7C15));
                    let mut v = Vec::with_capacity(calls);
                    b.wait();
                    if pace == 3 {
                        spin(r.below(200));
                    }
                    for k in 0..calls {
                        if pace == 4 && k == calls / 2 {
                            b.wait();
                        }
                        v.push(g.next_timestamp());
                        match pace {
                            1 => {
                                if r.chance(1, 16) {
                                    spin(r.below(8));
                                }
                            }
                            2 => std::thread::yield_now(),
                            3 => {
                                if k % 64 == 63 {
                                    spin(r.below(30));
                                }
                            }
                            _ => {}
                        }
                    }
                    v
                })
            })
            .collect();
        hs.into_iter().map(|h| h.join().unwrap()).collect()
    });
    let fin = generator.next_timestamp();
    let mut o = String::with_capacity(threads * calls * 3 + 32);
    for (i, sq) in seqs.iter().enumerate() {
        if i > 0 {
            o.push(';');
        }
        enc_stream(&mut o, sq.iter().copied());
    }
    o.push(' ');
    o.push_str(&hex_i(fin as i128));
    o
}

fn run_b(warn: bool, calls: usize, pace: u64, seed: u64) -> String {
    let generator = new_gen(warn);
    let mut r = Rng::new(seed);
    let mut samples: Vec<(i64, i64, i64)> = Vec::with_capacity(calls);
    for k in 0..calls {
        let t0 = now_us();
        let v = generator.next_timestamp();
        let t1 = now_us();
        samples.push((t0, v, t1));
        match pace {
            1 => spin(r.below(40)),
            2 => {
                if k % 997 == 996 {
                    std::thread::sleep(Duration::from_millis(1));
                }
            }
            _ => {}
        }
    }
    // three interleaved delta streams
    let mut o = String::with_capacity(calls * 8);
    let mut prev: Option<(i64, i64, i64)> = None;
    for (i, s) in samples.iter().enumerate() {
        if i > 0 {
            o.push(',');
        }
        let cur = [s.0, s.1, s.2];
        let pv = prev.map(|p| [p.0, p.1, p.2]);
        for j in 0..3 {
            if j > 0 {
                o.push(',');
            }
            match pv {
                Some(p) if (p[j] as i128).abs() < SMALL && (cur[j] as i128).abs() < SMALL => {
                    o.push_str(&hex_i(cur[j] as i128 - p[j] as i128))
                }
                _ => {
                    o.push('=');
                    o.push_str(&hex_i(cur[j] as i128));
                }
            }
        }
        prev = Some(*s);
    }
    if samples.is_empty() {
        o.push('-');
    }
    o
}

fn run_case(case: &str) -> String {
    let f: Vec<&str> = case.split_whitespace().collect();
    let h = |s: &str| u64::from_str_radix(s, 16).unwrap();
    match f[0] {
        "T" if f.len() == 6 => {
            let (serial, warn, threads, calls, pace) = (h(f[1]), h(f[2]) != 0, h(f[3]) as usize, h(f[4]) as usize, h(f[5]));
            if threads == 0 || threads > 64 || calls > 4_000_000 {
                return "error bad-parameters".into();
            }
            run_t(warn, threads, calls, pace, serial)
        }
        "B" if f.len() == 5 => {
            let (serial, warn, calls, pace) = (h(f[1]), h(f[2]) != 0, h(f[3]) as usize, h(f[4]));
            if calls > 4_000_000 {
                return "error bad-parameters".into();
            }
            run_b(warn, calls, pace, serial)
        }
        _ => "error unknown-case".into(),
    }
}

fn main() {
    let a = parse_args();
    let mut out = Out::create(&a.out);
    if let Some(p) = &a.replay {
        for c in read_cases(p) {
            let o = run_case(&c);
            out.case(&c, &o);
        }
        out.finish();
        return;
    }
    let mut r = Rng::new(a.seed);
    let thorough = a.tier == "thorough";
    // per-case size cap: the extracted acceptor holds every value as an inductive Z
    let cap: u64 = if thorough { 400_000 } else { 130_000 };
    let mut budget = a.n as i64;
    let mut serial: u64 = a.seed.wrapping_mul(1_000_003) & 0xffff_ffff;
    let emit = |out: &mut Out, c: String| {
        let o = run_case(&c);
        out.case(&c, &o);
    };
    // fixed part: every thread count 2..16 once with a tight loop, and the three B paces
    for threads in 2..=16u64 {
        let calls = (cap / 16).min(2_000);
        serial += 1;
        emit(&mut out, format!("T {:x} {:x} {:x} {:x} 0", serial, threads & 1, threads, calls));
        budget -= (threads * calls) as i64;
    }
    for threads in [2u64, 5, 16] {
        serial += 1;
        emit(&mut out, format!("T {:x} 0 {:x} {:x} 4", serial, threads, 2_000));
        budget -= (threads * 2_000) as i64;
    }
    for pace in 0..3u64 {
        let calls = if pace == 1 { 5_000 } else { 40_000 };
        serial += 1;
        emit(&mut out, format!("B {:x} {:x} {:x} {:x}", serial, pace & 1, calls, pace));
        budget -= calls as i64;
    }
    // seeded part
    while budget > 0 {
        serial += 1;
        if r.chance(1, 8) {
            let pace = r.below(3);
            let calls = match pace {
                1 => r.range(500, 4_000),
                _ => r.range(2_000, 30_000),
            };
            emit(&mut out, format!("B {:x} {:x} {:x} {:x}", serial, r.below(2), calls, pace));
            budget -= calls as i64;
        } else {
            let threads = match r.below(4) {
                0 => 2,
                1 => 16,
                _ => r.range(2, 16),
            };
            let pace = r.below(5);
            let per = match r.below(20) {
                0 => cap / threads,                     // as large as the cap allows (>= 10^4 per thread for <= 13 threads)
                1..=3 => r.range(5_000, 20_000).min(cap / threads),
                _ => r.range(100, 2_500),
            };
            let per = if pace == 2 { per.min(3_000) } else { per };
            let per = if pace == 4 { (per / 2 * 2).max(2) } else { per };
            emit(&mut out, format!("T {:x} {:x} {:x} {:x} {:x}", serial, r.below(2), threads, per, pace));
            budget -= (threads * per) as i64;
        }
    }
    out.finish();
}
