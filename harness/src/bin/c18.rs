//! C18 runner: drives the REAL `MonotonicTimestampGenerator` (public API only) and writes what
//! every thread was handed, for the extracted model/acceptors.
//!
//! Case kinds (`--n` is the total budget of next_timestamp calls):
//!   T <serial> <warn 0|1|2> <threads> <calls-per-thread> <pace>      (warn 2 = with_warning_times(1 us, 0))
//!       | <seq>;<seq>;...;<seq> <final>
//!     one generator shared by <threads> OS threads released by a barrier; each records the
//!     values it is handed, in order; after joining, the main thread makes one more call
//!     (<final>).  pace: 0 tight loop, 1 random short spins (lets the clock overtake `last`),
//!     2 yield_now between calls, 3 staggered starts + bursts, 4 two phases: every thread makes the
//!     first half of its calls, all threads meet at a barrier, then the second half (every
//!     second-phase value must exceed every first-phase value).
//!     pace 5: tick sweep on the real clock - all threads are released together by a spin barrier again and
//!     again, each time at a chosen offset (-400..+400 ns in steps of 16 ns) from the next microsecond tick of
//!     the system clock, and make 3 calls each.  pace 6/7: the same generator under a SCRIPTED clock (see C):
//!     the reading is a function of a global read counter - it stalls for 4 (pace 6) or 32 (pace 7) reads,
//!     regularly steps backwards and is sometimes before the epoch - so all threads straddle every tick.
//!   C <serial> <warn 0|1> <calls> <profile>
//!       | <reading>:<value>,...
//!     single thread under a SCRIPTED clock: this binary defines the C symbol `clock_gettime` itself, which
//!     the statically linked std (SystemTime::now inside the real compute_next) then calls; for CLOCK_REALTIME
//!     it returns the scripted reading, everything else is forwarded to libc.  One reading per call; reading =
//!     microseconds since the epoch as unsigned hex, or 'n' = before the epoch.  Every returned value must be
//!     exactly compute_next(previous value, reading).  profile 0: small steps, repeats, backward steps,
//!     pre-epoch; 1: also jumps of minutes/years (with warn = 1 this exercises the clock-skew warning branch);
//!     2: readings beyond i64::MAX microseconds (`as i64` wraps; with a warning configuration the i64
//!     subtraction `last - u_cur` of the warning branch then overflows: the call panics under overflow checks,
//!     reported as "<reading>:panic").
//!   B <serial> <warn 0|1> <calls> <pace>
//!       | t0,v,t1,t0,v,t1,...
//!     single thread; the harness reads the same clock (SystemTime, microseconds) just before
//!     and just after every call, so the model's compute_next can be checked exactly:
//!     v must be the value the model returns for SOME reading in [t0, t1].
//!     pace: 0 tight (the generator runs ahead of the clock: v = last + 1 exactly),
//!     1 random spins of 0..40 us, 2 occasional 1 ms sleeps.
//!   E <serial> <gen 0|1> <requests>
//!       | <kind>.<explicit>.<observed>[+<observed of the re-sent frame>...],... <consults> <unmatched>
//!     end-to-end: a real Session (with a MonotonicTimestampGenerator wrapped in a call counter when
//!     gen = 1, without any generator when gen = 0) sends <requests> concurrent unprepared queries
//!     (kind q), prepared executes (x) and batches (b) to a one-node mocknode; a seeded part of them
//!     carries an explicit statement timestamp (boundary values included).  Per request, in request
//!     order: the explicit timestamp ('n' = none) and the timestamp field of the frame the mock
//!     received ('n' = flag not set, 'missing' = no frame seen); a request whose EXECUTE/BATCH was answered
//!     UNPREPARED (scripted for the first EXECUTEs, by eviction for the second half) is re-sent and shows two
//!     frames.  kinds: q i p = unprepared unpaged / iter / single page, x j s = prepared ditto, b = batch of
//!     unprepared statements, c = batch with the prepared statement.  <consults> = number of next_timestamp
//!     calls during the window, <unmatched> = QUERY/EXECUTE/BATCH frames of the window that belong to no
//!     request of the plan (internal traffic of the driver).
//! Encoding of integer lists: the first token and every token starting with '=' are absolute
//! signed hex values; other tokens are signed hex deltas to the previous value of the same
//! stream (for B: previous t0 / v / t1 respectively).
use scylla::policies::timestamp_generator::{MonotonicTimestampGenerator, TimestampGenerator};
use scylla::client::session_builder::SessionBuilder;
use scylla::statement::batch::Batch;
use scylla::statement::Statement;
use std::sync::atomic::{AtomicU64, Ordering};
use std::sync::{Arc, Barrier};
use vh::mocknode::{self as mock, wire, op, Ev};
use std::time::{Duration, Instant, SystemTime, UNIX_EPOCH};
use vh::*;

// ---- scripted clock -----------------------------------------------------------------------------
// The executable defines `clock_gettime`; the static link resolves std's reference to it (a definition in
// the executable wins over the shared libc).  Mode 0 forwards everything to libc's function.
#[repr(C)]
pub struct Timespec {
    tv_sec: i64,
    tv_nsec: i64,
}
unsafe extern "C" {
    fn dlsym(handle: *mut std::ffi::c_void, symbol: *const std::ffi::c_char) -> *mut std::ffi::c_void;
}
static REAL_CLOCK: std::sync::atomic::AtomicUsize = std::sync::atomic::AtomicUsize::new(0);
static CLOCK_MODE: std::sync::atomic::AtomicUsize = std::sync::atomic::AtomicUsize::new(0);
static CLOCK_READS: AtomicU64 = AtomicU64::new(0);
// mode 1: readings (sec, nsec) from a script, one per read, the last one repeated
static SCRIPT_PTR: std::sync::atomic::AtomicPtr<(i64, i64)> = std::sync::atomic::AtomicPtr::new(std::ptr::null_mut());
static SCRIPT_LEN: std::sync::atomic::AtomicUsize = std::sync::atomic::AtomicUsize::new(0);
// mode 2: reading = function of the global read counter
static FN_BASE_US: AtomicU64 = AtomicU64::new(0);
static FN_STALL: AtomicU64 = AtomicU64::new(1);

/// the reading of mode 2 for read number c: (sec, nsec)
fn fn_clock(c: u64) -> (i64, i64) {
    let k = c / FN_STALL.load(Ordering::Relaxed).max(1);
    if k % 29 == 13 {
        return (-1, 0); // before the epoch
    }
    let mut us = FN_BASE_US.load(Ordering::Relaxed) + k;
    if k % 11 == 7 {
        us -= 50; // a step backwards
    }
    ((us / 1_000_000) as i64, ((us % 1_000_000) * 1000) as i64)
}

#[unsafe(no_mangle)]
pub unsafe extern "C" fn clock_gettime(clk: i32, ts: *mut Timespec) -> i32 {
    let mode = CLOCK_MODE.load(Ordering::Relaxed);
    if mode != 0 && clk == 0 {
        // CLOCK_REALTIME
        let c = CLOCK_READS.fetch_add(1, Ordering::SeqCst);
        let (sec, nsec) = if mode == 1 {
            let len = SCRIPT_LEN.load(Ordering::Relaxed);
            let p = SCRIPT_PTR.load(Ordering::Relaxed);
            unsafe { *p.add((c as usize).min(len - 1)) }
        } else {
            fn_clock(c)
        };
        unsafe {
            (*ts).tv_sec = sec;
            (*ts).tv_nsec = nsec;
        }
        return 0;
    }
    let mut f = REAL_CLOCK.load(Ordering::Relaxed);
    if f == 0 {
        // RTLD_NEXT = -1
        f = unsafe { dlsym(usize::MAX as *mut std::ffi::c_void, c"clock_gettime".as_ptr()) } as usize;
        if f == 0 {
            return -1;
        }
        REAL_CLOCK.store(f, Ordering::Relaxed);
    }
    let real: unsafe extern "C" fn(i32, *mut Timespec) -> i32 = unsafe { std::mem::transmute(f) };
    unsafe { real(clk, ts) }
}

fn new_gen3(warn: u64) -> MonotonicTimestampGenerator {
    match warn {
        0 => MonotonicTimestampGenerator::new().without_warnings(),
        1 => MonotonicTimestampGenerator::new(),
        _ => MonotonicTimestampGenerator::new().with_warning_times(Duration::from_micros(1), Duration::from_micros(0)),
    }
}

/// C: single thread, scripted readings
fn run_c(warn: u64, calls: usize, profile: u64, seed: u64) -> String {
    let mut r = Rng::new(seed);
    let mut readings: Vec<(i64, i64)> = Vec::with_capacity(calls);
    let mut us: i128 = 1_700_000_000_000_000 + r.below(1_000_000) as i128;
    for _ in 0..calls {
        let pre_epoch = r.chance(1, 25);
        match r.below(10) {
            0..=2 => {}                                   // the clock repeats
            3..=5 => us += r.range(1, 3) as i128,         // small step
            6 => us -= r.range(1, 40) as i128,            // step backwards
            7 => us += r.range(1, 2000) as i128,
            8 => {
                if profile >= 1 {
                    // minutes .. years, both directions
                    let d = *r.pick(&[60_000_000i128, 3_600_000_000, 86_400_000_000, 31_536_000_000_000_000 / 1000]);
                    if r.bool() { us += d } else { us -= d.min(us - 1_000_000) }
                }
            }
            _ => {
                if profile >= 2 {
                    // beyond i64::MAX microseconds: `as i64` wraps
                    us = (1i128 << 63) + r.below(1 << 40) as i128 * if r.bool() { 1 } else { 3 };
                }
            }
        }
        if us < 0 {
            us = 0;
        }
        if pre_epoch {
            readings.push((-(r.range(1, 1000) as i64), (r.below(1_000_000_000)) as i64));
        } else {
            readings.push(((us / 1_000_000) as i64, ((us % 1_000_000) * 1000 + r.below(1000) as i128) as i64));
        }
        if profile >= 2 && us >= (1i128 << 63) && r.chance(1, 3) {
            us = 1_700_000_000_000_000; // and back to a sane reading
        }
    }
    let generator = new_gen3(warn);
    SCRIPT_LEN.store(readings.len(), Ordering::SeqCst);
    SCRIPT_PTR.store(readings.as_mut_ptr(), Ordering::SeqCst);
    CLOCK_READS.store(0, Ordering::SeqCst);
    CLOCK_MODE.store(1, Ordering::SeqCst);
    // a call may panic (arithmetic overflow in the warning branch under overflow checks): it is recorded as
    // "<reading>:panic" and the script goes on with the next reading (the atomic is untouched by such a call)
    let mut vals: Vec<Option<i64>> = Vec::with_capacity(calls);
    let prev_hook = std::panic::take_hook();
    std::panic::set_hook(Box::new(|_| {}));
    for _ in 0..calls {
        let g = &generator;
        let r = catch(std::panic::AssertUnwindSafe(|| g.next_timestamp()));
        if let (Err(msg), true) = (&r, std::env::var_os("C18_SHOW_PANIC").is_some()) {
            eprintln!("next_timestamp panicked: {}", msg);
        }
        vals.push(r.ok());
    }
    std::panic::set_hook(prev_hook);
    CLOCK_MODE.store(0, Ordering::SeqCst);
    let reads = CLOCK_READS.load(Ordering::SeqCst);
    SCRIPT_PTR.store(std::ptr::null_mut(), Ordering::SeqCst);
    if reads != calls as u64 {
        return format!("error clock was read {} times for {} calls", reads, calls);
    }
    let toks: Vec<String> = readings
        .iter()
        .zip(&vals)
        .map(|((sec, nsec), v)| {
            let rd = if *sec < 0 { "n".to_string() } else { format!("{:x}", *sec as u128 * 1_000_000 + (*nsec as u128) / 1000) };
            match v {
                Some(v) => format!("{}:{}", rd, hex_i(*v as i128)),
                None => format!("{}:panic", rd),
            }
        })
        .collect();
    if toks.is_empty() { "-".into() } else { toks.join(",") }
}

/// all threads leave together (spin barrier; the last one to arrive runs `leader` first)
struct SpinBarrier {
    n: usize,
    count: std::sync::atomic::AtomicUsize,
    generation: std::sync::atomic::AtomicUsize,
}
impl SpinBarrier {
    fn wait(&self, leader: impl FnOnce()) {
        let g = self.generation.load(Ordering::SeqCst);
        if self.count.fetch_add(1, Ordering::SeqCst) == self.n - 1 {
            leader();
            self.count.store(0, Ordering::SeqCst);
            self.generation.fetch_add(1, Ordering::SeqCst);
        } else {
            let mut spins = 0u32;
            while self.generation.load(Ordering::SeqCst) == g {
                spins += 1;
                if spins % 4096 == 0 {
                    std::thread::yield_now();
                } else {
                    std::hint::spin_loop();
                }
            }
        }
    }
}

fn now_ns() -> u128 {
    SystemTime::now().duration_since(UNIX_EPOCH).map(|d| d.as_nanos()).unwrap_or(0)
}

fn new_gen(warn: bool) -> MonotonicTimestampGenerator {
    if warn { MonotonicTimestampGenerator::new() } else { MonotonicTimestampGenerator::new().without_warnings() }
}

fn now_us() -> i64 {
    match SystemTime::now().duration_since(UNIX_EPOCH) {
        Ok(d) => d.as_micros() as i64,
        Err(_) => -1,
    }
}

fn spin(us: u64) {
    if us == 0 {
        return;
    }
    let t = Instant::now();
    while t.elapsed() < Duration::from_micros(us) {
        std::hint::spin_loop();
    }
}

const SMALL: i128 = 1 << 60;

/// delta/absolute encoding of one stream
fn enc_stream(out: &mut String, vals: impl Iterator<Item = i64>) {
    let mut prev: Option<i64> = None;
    let mut first = true;
    for v in vals {
        if !first {
            out.push(',');
        }
        first = false;
        match prev {
            Some(p) if (p as i128).abs() < SMALL && (v as i128).abs() < SMALL => {
                out.push_str(&hex_i(v as i128 - p as i128));
            }
            _ => {
                out.push('=');
                out.push_str(&hex_i(v as i128));
            }
        }
        prev = Some(v);
    }
    if first {
        out.push('-');
    }
}

fn run_t(warn: u64, threads: usize, calls: usize, pace: u64, seed: u64) -> String {
    let generator = new_gen3(warn);
    let barrier = Barrier::new(threads);
    let spin_barrier = SpinBarrier { n: threads, count: Default::default(), generation: Default::default() };
    let target_ns = std::sync::atomic::AtomicU64::new(0);
    let round_no = std::sync::atomic::AtomicU64::new(0);
    if pace == 6 || pace == 7 {
        FN_BASE_US.store(1_700_000_000_000_000 + (seed & 0xfffff), Ordering::SeqCst);
        FN_STALL.store(if pace == 6 { 4 } else { 32 }, Ordering::SeqCst);
        CLOCK_READS.store(0, Ordering::SeqCst);
        CLOCK_MODE.store(2, Ordering::SeqCst);
    }
    let seqs: Vec<Vec<i64>> = std::thread::scope(|s| {
        let hs: Vec<_> = (0..threads)
            .map(|i| {
                let g = &generator;
                let b = &barrier;
                let (sb, target_ns, round_no) = (&spin_barrier, &target_ns, &round_no);
                s.spawn(move || {
                    let mut r = Rng::new(seed ^ (i as u64).wrapping_mul(0x9E3779B97F4A7C15));
                    let mut v = Vec::with_capacity(calls);
                    b.wait();
                    if pace == 3 {
                        spin(r.below(200));
                    }
                    for k in 0..calls {
                        if pace == 4 && k == calls / 2 {
                            b.wait();
                        }
                        if pace == 5 && k % 3 == 0 {
                            // release everybody together at a swept offset from the next microsecond tick
                            sb.wait(|| {
                                let n = round_no.fetch_add(1, Ordering::SeqCst);
                                let offset = (n % 51) as i64 * 16 - 400;
                                let tick = (now_ns() / 1000 + 3) * 1000;
                                target_ns.store((tick as i128 + offset as i128) as u64, Ordering::SeqCst);
                            });
                            let t = target_ns.load(Ordering::SeqCst) as u128;
                            while now_ns() < t {
                                std::hint::spin_loop();
                            }
                        }
                        v.push(g.next_timestamp());
                        match pace {
                            1 => {
                                if r.chance(1, 16) {
                                    spin(r.below(8));
                                }
                            }
                            2 => std::thread::yield_now(),
                            3 => {
                                if k % 64 == 63 {
                                    spin(r.below(30));
                                }
                            }
                            _ => {}
                        }
                    }
                    v
                })
            })
            .collect();
        hs.into_iter().map(|h| h.join().unwrap()).collect()
    });
    CLOCK_MODE.store(0, Ordering::SeqCst);
    let fin = generator.next_timestamp();
    let mut o = String::with_capacity(threads * calls * 3 + 32);
    for (i, sq) in seqs.iter().enumerate() {
        if i > 0 {
            o.push(';');
        }
        enc_stream(&mut o, sq.iter().copied());
    }
    o.push(' ');
    o.push_str(&hex_i(fin as i128));
    o
}

fn run_b(warn: bool, calls: usize, pace: u64, seed: u64) -> String {
    let generator = new_gen(warn);
    let mut r = Rng::new(seed);
    let mut samples: Vec<(i64, i64, i64)> = Vec::with_capacity(calls);
    for k in 0..calls {
        let t0 = now_us();
        let v = generator.next_timestamp();
        let t1 = now_us();
        samples.push((t0, v, t1));
        match pace {
            1 => spin(r.below(40)),
            2 => {
                if k % 997 == 996 {
                    std::thread::sleep(Duration::from_millis(1));
                }
            }
            _ => {}
        }
    }
    // three interleaved delta streams
    let mut o = String::with_capacity(calls * 8);
    let mut prev: Option<(i64, i64, i64)> = None;
    for (i, s) in samples.iter().enumerate() {
        if i > 0 {
            o.push(',');
        }
        let cur = [s.0, s.1, s.2];
        let pv = prev.map(|p| [p.0, p.1, p.2]);
        for j in 0..3 {
            if j > 0 {
                o.push(',');
            }
            match pv {
                Some(p) if (p[j] as i128).abs() < SMALL && (cur[j] as i128).abs() < SMALL => {
                    o.push_str(&hex_i(cur[j] as i128 - p[j] as i128))
                }
                _ => {
                    o.push('=');
                    o.push_str(&hex_i(cur[j] as i128));
                }
            }
        }
        prev = Some(*s);
    }
    if samples.is_empty() {
        o.push('-');
    }
    o
}

/// the real generator behind a call counter (the trait is public API)
struct CountingGen {
    inner: MonotonicTimestampGenerator,
    calls: AtomicU64,
}
impl TimestampGenerator for CountingGen {
    fn next_timestamp(&self) -> i64 {
        self.calls.fetch_add(1, Ordering::SeqCst);
        self.inner.next_timestamp()
    }
}

fn gen_explicit(r: &mut Rng) -> i64 {
    match r.below(6) {
        0 => *r.pick(&[0i64, 1, -1, i64::MAX, i64::MIN, i64::MAX - 1, i64::MIN + 1]),
        1 => now_us() + r.below(2000) as i64 - 1000, // close to what the generator hands out
        2 => r.below(1000) as i64,
        _ => r.i64(),
    }
}

/// Err = the scenario could not be set up or a request failed for a reason unrelated to timestamps (environment)
async fn run_e(serial: u64, with_gen: bool, nreq: usize, shape: Option<char>) -> Result<String, String> {
    use scylla::response::PagingState;
    let table = mock::TableDef::new("t", &[("pk", mock::CqlType::Int)], &[("ck", mock::CqlType::Int)], &[("v", mock::CqlType::Text)]);
    let spec = mock::ClusterSpec::uniform("c18", &[("dc1", 1)], 1, 4, 2)
        .with_keyspace(mock::KeyspaceDef::simple("ks", 1).with_table(table.clone()));
    let cluster = mock::MockCluster::start(spec).await.map_err(|e| format!("mock start: {e}"))?;
    let insert = "INSERT INTO ks.t (pk, ck, v) VALUES (?, ?, ?)";
    cluster.on_prepare(insert, table.prepared("ks", &["pk", "ck", "v"], &[]));
    let counting = Arc::new(CountingGen { inner: MonotonicTimestampGenerator::new(), calls: AtomicU64::new(0) });
    let mut b = SessionBuilder::new()
        .known_node_addr(cluster.contact_point(0))
        .local_ip_address(Some(cluster.client_ip()))
        // no periodic metadata refresh inside (or across the boundary of) the observation window
        .cluster_metadata_refresh_interval(Duration::from_secs(3600))
        .connection_timeout(Duration::from_secs(5));
    if with_gen {
        b = b.timestamp_generator(counting.clone());
    }
    let session = Arc::new(b.build().await.map_err(|e| format!("session: {e}"))?);
    let prepared = session.prepare(insert).await.map_err(|e| format!("prepare: {e}"))?;
    let prepared_id = cluster.prepared_id(insert);
    // let the pools settle, then open the observation window
    tokio::time::sleep(Duration::from_millis(60)).await;
    cluster.drain_trace();
    let calls0 = counting.calls.load(Ordering::SeqCst);
    let mut r = Rng::new(serial);
    // request kinds: unprepared q (unpaged) i (iter) p (single page); prepared x (unpaged) j (iter) s (single page);
    // batches b (unprepared statements) c (an unprepared and the prepared statement)
    // wave 4: w y z (unprepared WITH values: prepared on the fly) and the batch shapes P V W M (see the header)
    let kinds = ['q', 'x', 'b', 'i', 'j', 'c', 'p', 's', 'V', 'w', 'P', 'M', 'y', 'W', 'z'];
    let plan: Vec<(char, Option<i64>)> = (0..nreq)
        .map(|i| match shape {
            None => (kinds[i % kinds.len()], if r.chance(2, 5) { Some(gen_explicit(&mut r)) } else { None }),
            // one shape per case: explicit timestamp on the even requests (deterministic counts for the floors)
            Some(k) => (k, if i % 2 == 0 { Some(gen_explicit(&mut r)) } else { None }),
        })
        .collect();
    // the first EXECUTEs of the statement are answered UNPREPARED: the driver re-prepares and RE-SENDS the frame
    let n_unprepared = (nreq / 6).max(2);
    cluster.script(mock::NodeSel::Any, insert, vec![mock::Action::Unprepared; n_unprepared]);
    if let Some(k) = shape {
        if "PVWMc".contains(k) {
            // the BATCH frame names the prepared statement: the first two BATCH frames are answered UNPREPARED with
            // its id, the driver re-prepares and re-sends the (possibly rewritten) batch
            let unprep = || mock::Action::Error(mock::ErrorSpec::new(mock::DbErr::Unprepared { id: prepared_id.clone() }, "c18: scripted UNPREPARED for BATCH"));
            cluster.script(mock::NodeSel::Any, mock::Key::Batch, vec![unprep(), unprep()]);
        }
    }
    let half = nreq / 2;
    for phase in 0..2 {
        if phase == 1 {
            // forget every prepared statement: the EXECUTEs and the batches with the prepared statement of the
            // second half get UNPREPARED from the node itself
            cluster.evict_prepared(0, None);
        }
        let range = if phase == 0 { 0..half } else { half..nreq };
        let mut tasks = Vec::new();
        for i in range {
            let (kind, explicit) = plan[i];
            let session = session.clone();
            let mut prepared = prepared.clone();
            tasks.push(tokio::spawn(async move {
                let text = |tag: &str| format!("INSERT INTO ks.t (pk, ck, v) VALUES ({}, 0, '{}')", i, tag);
                // the result of the request itself is irrelevant here (iterating a Void result is an error for
                // the *_iter calls): only the frames the node received are judged
                match kind {
                    'q' | 'i' | 'p' => {
                        let mut st = Statement::new(text("q"));
                        st.set_timestamp(explicit);
                        match kind {
                            'q' => session.query_unpaged(st, ()).await.map(|_| ()).map_err(|e| e.to_string()),
                            'i' => {
                                let _ = session.query_iter(st, ()).await;
                                Ok(())
                            }
                            _ => session.query_single_page(st, (), PagingState::start()).await.map(|_| ()).map_err(|e| e.to_string()),
                        }
                    }
                    'x' | 'j' | 's' => {
                        prepared.set_timestamp(explicit);
                        match kind {
                            'x' => session.execute_unpaged(&prepared, (i as i32, 1i32, "x")).await.map(|_| ()).map_err(|e| e.to_string()),
                            'j' => {
                                let _ = session.execute_iter(prepared, (i as i32, 1i32, "x")).await;
                                Ok(())
                            }
                            _ => session
                                .execute_single_page(&prepared, (i as i32, 1i32, "x"), PagingState::start())
                                .await
                                .map(|_| ())
                                .map_err(|e| e.to_string()),
                        }
                    }
                    'w' | 'y' | 'z' => {
                        // unprepared WITH bound values: the session prepares it on the fly (the PreparedStatement made
                        // there inherits the statement's configuration) and sends EXECUTE
                        let mut st = Statement::new(insert);
                        st.set_timestamp(explicit);
                        let vals = (i as i32, 5i32, "w");
                        match kind {
                            'w' => session.query_unpaged(st, vals).await.map(|_| ()).map_err(|e| e.to_string()),
                            'y' => {
                                let _ = session.query_iter(st, vals).await;
                                Ok(())
                            }
                            _ => session.query_single_page(st, vals, PagingState::start()).await.map(|_| ()).map_err(|e| e.to_string()),
                        }
                    }
                    'P' => {
                        let mut batch = Batch::default();
                        batch.append_statement(prepared.clone());
                        batch.append_statement(prepared);
                        batch.set_timestamp(explicit);
                        session.batch(&batch, ((i as i32, 11i32, "P"), (i as i32, 12i32, "P"))).await.map(|_| ()).map_err(|e| e.to_string())
                    }
                    'V' => {
                        // every statement unprepared WITH values: Connection::prepare_batch prepares them and sends a
                        // REWRITTEN batch (Batch::new_from)
                        let mut batch = Batch::default();
                        batch.append_statement(Statement::new(insert));
                        batch.append_statement(Statement::new(insert));
                        batch.set_timestamp(explicit);
                        session.batch(&batch, ((i as i32, 6i32, "V"), (i as i32, 7i32, "V"))).await.map(|_| ()).map_err(|e| e.to_string())
                    }
                    'W' => {
                        // rewritten batch that keeps an unprepared statement
                        let mut batch = Batch::default();
                        batch.append_statement(Statement::new(insert));
                        batch.append_statement(Statement::new(text("W")));
                        batch.set_timestamp(explicit);
                        session.batch(&batch, ((i as i32, 8i32, "W"), ())).await.map(|_| ()).map_err(|e| e.to_string())
                    }
                    'M' => {
                        // mixed: unprepared with values + prepared + unprepared without values (rewritten)
                        let mut batch = Batch::default();
                        batch.append_statement(Statement::new(insert));
                        batch.append_statement(prepared);
                        batch.append_statement(Statement::new(text("M")));
                        batch.set_timestamp(explicit);
                        session
                            .batch(&batch, ((i as i32, 9i32, "M"), (i as i32, 10i32, "M"), ()))
                            .await
                            .map(|_| ())
                            .map_err(|e| e.to_string())
                    }
                    'b' => {
                        let mut batch = Batch::default();
                        batch.append_statement(Statement::new(text("b")));
                        batch.append_statement(Statement::new("INSERT INTO ks.t (pk, ck, v) VALUES (0, 3, 'b2')"));
                        batch.set_timestamp(explicit);
                        session.batch(&batch, ((), ())).await.map(|_| ()).map_err(|e| e.to_string())
                    }
                    _ => {
                        let mut batch = Batch::default();
                        batch.append_statement(Statement::new(text("c")));
                        batch.append_statement(prepared);
                        batch.set_timestamp(explicit);
                        session.batch(&batch, ((), (i as i32, 4i32, "c"))).await.map(|_| ()).map_err(|e| e.to_string())
                    }
                }
            }));
        }
        for t in tasks {
            // a request may fail (e.g. its re-sent EXECUTE consumed another scripted UNPREPARED): irrelevant here,
            // its frames were sent and are judged
            let _ = t.await.map_err(|e| format!("join: {e}"))?;
        }
    }
    let consults = counting.calls.load(Ordering::SeqCst) - calls0;
    let trace = cluster.drain_trace();
    // observed[i] = timestamps of the frames carrying request i, in arrival order
    let mut observed: Vec<Vec<Option<i64>>> = vec![vec![]; nreq];
    let mut unmatched = 0u64;
    let id_of_text = |text: &str| -> Option<usize> {
        let rest = text.strip_prefix("INSERT INTO ks.t (pk, ck, v) VALUES (")?;
        rest.split(',').next()?.trim().parse::<usize>().ok()
    };
    for e in &trace {
        if let Ev::In { opcode, body, .. } = &e.ev {
            let hit: Option<(usize, Option<i64>)> = match *opcode {
                op::QUERY => {
                    let q = wire::decode_query(body).map_err(|e| format!("decode QUERY: {e:?}"))?;
                    id_of_text(&q.text).map(|i| (i, q.params.timestamp))
                }
                op::EXECUTE => {
                    let x = wire::decode_execute(body, false).map_err(|e| format!("decode EXECUTE: {e:?}"))?;
                    let id = x.params.values.first().and_then(|v| v.as_bytes()).filter(|b| b.len() == 4 && x.id == prepared_id)
                        .map(|b| i32::from_be_bytes([b[0], b[1], b[2], b[3]]) as usize);
                    id.map(|i| (i, x.params.timestamp))
                }
                op::BATCH => {
                    let bt = wire::decode_batch(body).map_err(|e| format!("decode BATCH: {e:?}"))?;
                    match bt.statements.first() {
                        Some(wire::BatchStmt::Query { text, .. }) => id_of_text(text).map(|i| (i, bt.timestamp)),
                        // fully prepared and rewritten batches: the first value of the first statement is the request number
                        Some(wire::BatchStmt::Prepared { id, values }) if *id == prepared_id => values
                            .first()
                            .and_then(|v| v.as_bytes())
                            .filter(|b| b.len() == 4)
                            .map(|b| (i32::from_be_bytes([b[0], b[1], b[2], b[3]]) as usize, bt.timestamp)),
                        _ => None,
                    }
                }
                _ => continue,
            };
            match hit {
                Some((i, ts)) if i < nreq => observed[i].push(ts),
                _ => unmatched += 1, // internal traffic of the driver inside the window
            }
        }
    }
    let opt = |o: Option<i64>| o.map(|v| hex_i(v as i128)).unwrap_or_else(|| "n".into());
    let toks: Vec<String> = plan
        .iter()
        .zip(&observed)
        .map(|((kind, explicit), obs)| {
            let o = if obs.is_empty() { "missing".to_string() } else { obs.iter().map(|x| opt(*x)).collect::<Vec<_>>().join("+") };
            format!("{}.{}.{}", kind, opt(*explicit), o)
        })
        .collect();
    // the mock closes first (the server side takes the TIME_WAITs), then the session goes
    cluster.shutdown();
    drop(session);
    Ok(format!("{} {:x} {:x}", if toks.is_empty() { "-".to_string() } else { toks.join(",") }, consults, unmatched))
}

fn run_case(case: &str) -> String {
    let f: Vec<&str> = case.split_whitespace().collect();
    let h = |s: &str| u64::from_str_radix(s, 16).unwrap();
    match f[0] {
        "T" if f.len() == 6 => {
            let (serial, warn, threads, calls, pace) = (h(f[1]), h(f[2]), h(f[3]) as usize, h(f[4]) as usize, h(f[5]));
            if threads == 0 || threads > 64 || calls > 4_000_000 || (pace == 5 && calls % 3 != 0) {
                return "error bad-parameters".into();
            }
            run_t(warn, threads, calls, pace, serial)
        }
        "C" if f.len() == 5 => {
            let (serial, warn, calls, profile) = (h(f[1]), h(f[2]), h(f[3]) as usize, h(f[4]));
            if calls == 0 || calls > 4_000_000 {
                return "error bad-parameters".into();
            }
            run_c(warn, calls, profile, serial)
        }
        "B" if f.len() == 5 => {
            let (serial, warn, calls, pace) = (h(f[1]), h(f[2]) != 0, h(f[3]) as usize, h(f[4]));
            if calls > 4_000_000 {
                return "error bad-parameters".into();
            }
            run_b(warn, calls, pace, serial)
        }
        "E" if f.len() == 4 => {
            let (serial, with_gen, nreq) = (h(f[1]), h(f[2]) != 0, h(f[3]) as usize);
            if nreq > 100_000 {
                return "error bad-parameters".into();
            }
            let rt = tokio::runtime::Builder::new_multi_thread().worker_threads(4).enable_all().build().unwrap();
            let r = rt.block_on(run_e(serial, with_gen, nreq, None));
            match r {
                Ok(s) => s,
                // nothing was observed: the scenario could not run (counted, capped by checks/c18.py)
                Err(e) => format!("skip-env {}", e.replace(' ', "_")),
            }
        }
        "S" if f.len() == 5 => {
            let (serial, with_gen, nreq) = (h(f[1]), h(f[2]) != 0, h(f[4]) as usize);
            let kind = f[3].chars().next().unwrap();
            if nreq > 100_000 || f[3].len() != 1 || !S_KINDS.contains(&kind) {
                return "error bad-parameters".into();
            }
            let mut last = String::new();
            for attempt in 0..3u64 {
                let rt = tokio::runtime::Builder::new_multi_thread().worker_threads(4).enable_all().build().unwrap();
                match rt.block_on(run_e(serial.wrapping_add(attempt << 40), with_gen, nreq, Some(kind))) {
                    Ok(s) => return s,
                    Err(e) => last = e,
                }
            }
            format!("skip-env {}", last.replace(' ', "_"))
        }
        _ => "error unknown-case".into(),
    }
}

/// the request shapes of the S cases (checks/c18.py has a floor for every one of them, with and without a generator)
const S_KINDS: [char; 15] = ['q', 'i', 'p', 'x', 'j', 's', 'w', 'y', 'z', 'b', 'c', 'P', 'V', 'W', 'M'];

fn main() {
    let a = parse_args();
    let mut out = Out::create(&a.out);
    if let Some(p) = &a.replay {
        for c in read_cases(p) {
            let o = run_case(&c);
            out.case(&c, &o);
        }
        out.finish();
        return;
    }
    let mut r = Rng::new(a.seed);
    let thorough = a.tier == "thorough";
    // per-case size cap: the extracted acceptor holds every value as an inductive Z
    let cap: u64 = if thorough { 400_000 } else { 130_000 };
    let mut budget = a.n as i64;
    let mut serial: u64 = a.seed.wrapping_mul(1_000_003) & 0xffff_ffff;
    let emit = |out: &mut Out, c: String| {
        let o = run_case(&c);
        out.case(&c, &o);
    };
    // fixed part: every thread count 2..16 once with a tight loop, and the three B paces
    for threads in 2..=16u64 {
        let calls = (cap / 16).min(2_000);
        serial += 1;
        emit(&mut out, format!("T {:x} {:x} {:x} {:x} 0", serial, threads % 3, threads, calls));
        budget -= (threads * calls) as i64;
    }
    for threads in [2u64, 5, 16] {
        serial += 1;
        emit(&mut out, format!("T {:x} 0 {:x} {:x} 4", serial, threads, 2_000));
        budget -= (threads * 2_000) as i64;
    }
    // FIXED number of cases of every kind, independent of the seed (checks/c18.py floors are below these counts):
    // T 15 + 3 + 3 + 12 = 33, B 5, C 9, E 12 (quick) / 60 (thorough), S 30 / 60; the seeded part below only adds to them
    for (pace, warn) in [(0u64, 0u64), (1, 1), (2, 0), (0, 1), (1, 0)] {
        let calls = if pace == 1 { 5_000 } else { 40_000 };
        serial += 1;
        emit(&mut out, format!("B {:x} {:x} {:x} {:x}", serial, warn, calls, pace));
        budget -= calls as i64;
    }
    // contention that does not depend on how many CPUs really run in parallel: yield_now after every call hands the
    // CPU to another thread of the same generator even on ONE starved core (measured there: ~36 000 / 35 000 / 13 000
    // cross-thread adjacent values for these three cases; the floor in checks/c18.py is 10 000)
    for (threads, warn) in [(16u64, 0u64), (16, 1), (8, 2)] {
        serial += 1;
        emit(&mut out, format!("T {:x} {:x} {:x} {:x} 2", serial, warn, threads, 3_000));
        budget -= (threads * 3_000) as i64;
    }
    // tick sweep on the real clock and the scripted-clock paces, for few and many threads
    for pace in [5u64, 6, 7] {
        for threads in [2u64, 3, 8, 16] {
            let calls = if pace == 5 { 1_500 } else { 6_000 };
            serial += 1;
            emit(&mut out, format!("T {:x} {:x} {:x} {:x} {:x}", serial, serial % 3, threads, calls, pace));
            budget -= (threads * calls) as i64;
        }
    }
    // scripted clock, single thread, exact: every profile with every admissible warning configuration
    for (warn, profile) in [(0u64, 0u64), (1, 0), (2, 0), (0, 1), (1, 1), (2, 1), (0, 2), (1, 2), (2, 2)] {
        serial += 1;
        emit(&mut out, format!("C {:x} {:x} {:x} {:x}", serial, warn, 20_000, profile));
        budget -= 20_000;
    }
    // one request SHAPE per case, with and without a generator: FIXED 30 cases (quick) / 60 (thorough) for every seed;
    // the rewritten-batch shapes come first, and all of them before the mixed E scenarios (a replay file then starts
    // with the shape that fails)
    for rep in 0..(if thorough { 2 } else { 1 }) {
        for kind in ['V', 'W', 'M', 'P', 'b', 'c', 'w', 'y', 'z', 'q', 'i', 'p', 'x', 'j', 's'] {
            for g in [1u64, 0] {
                serial += 1;
                let nreq = if rep == 0 { 12 } else { r.range(8, 40) };
                emit(&mut out, format!("S {:x} {:x} {} {:x}", serial, g, kind, nreq));
            }
        }
    }
    // end-to-end part: which timestamp goes into the frames
    let e_cases = if thorough { 60 } else { 12 };
    for k in 0..e_cases {
        serial += 1;
        let nreq = if k % 4 == 3 { 900 } else { r.range(30, 400) };
        emit(&mut out, format!("E {:x} {:x} {:x}", serial, if k % 3 == 2 { 0 } else { 1 }, nreq));
    }
    // seeded part
    while budget > 0 {
        serial += 1;
        if r.chance(1, 8) {
            let profile = r.below(3);
            let warn = r.below(3);
            let calls = r.range(2_000, 40_000);
            emit(&mut out, format!("C {:x} {:x} {:x} {:x}", serial, warn, calls, profile));
            budget -= calls as i64;
        } else if r.chance(1, 8) {
            let pace = r.below(3);
            let calls = match pace {
                1 => r.range(500, 4_000),
                _ => r.range(2_000, 30_000),
            };
            emit(&mut out, format!("B {:x} {:x} {:x} {:x}", serial, r.below(2), calls, pace));
            budget -= calls as i64;
        } else {
            let threads = match r.below(4) {
                0 => 2,
                1 => 16,
                _ => r.range(2, 16),
            };
            let pace = r.below(8);
            let per = match r.below(20) {
                0 => cap / threads,                     // as large as the cap allows (>= 10^4 per thread for <= 13 threads)
                1..=3 => r.range(5_000, 20_000).min(cap / threads),
                _ => r.range(100, 2_500),
            };
            let per = if pace == 2 { per.min(3_000) } else { per };
            let per = if pace == 4 { (per / 2 * 2).max(2) } else { per };
            let per = if pace == 5 { (per.min(3_000) / 3 * 3).max(3) } else { per };
            emit(&mut out, format!("T {:x} {:x} {:x} {:x} {:x}", serial, r.below(3), threads, per, pace));
            budget -= (threads * per) as i64;
        }
    }
    out.finish();
}
