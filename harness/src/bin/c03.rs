//! C03 runner (stub while the hook is compiled for the first time).
use scylla::statement::verif_prepared as hooks;
fn main() {
    let _ = hooks::calculate_token_for_partition_key;
}
