//! C03 runner: generates hashing / partition-key cases from the seed, runs the REAL partitioner
//! hashers, PREPARED-response deserializer, PartitionKey extraction / encoding and token
//! calculation, and writes "<case> | <observed>" lines for the extracted Murmur/PartKey model.
//!
//! Case kinds (see ocaml/c03/driver.ml):
//!   H <m|c> <bytes>                          Partitioner::hash_one
//!   W <m|c> <chunk,chunk,..>                 PartitionerName::build_hasher, write per chunk, finish
//!   K <m|c> <ncols> <pk indexes> <values>    PREPARED response bytes -> deserialize_with_features
//!                                            -> PreparedStatement (hook) -> slots / chunks / token
//!                                            (hooks) and the public typed calculate_token /
//!                                            compute_partition_key
//!   T <m|c> <values>                         calculate_token_for_partition_key (hook)
//!   R ...                                      = K, but must be run by a binary built WITHOUT overflow checks
//!   E <s|x|u|n><f|m|d> <rows> <ks:table> <key>  mock cluster whose scylla_tables has exactly <rows> (x: no such
//!                                            table; u: target table unknown to the metadata; n: target table
//!                                            without column rows), Session with full / minimal / disabled
//!                                            schema fetching,
//!                                            Session::prepare, get_partitioner_name, calculate_token
//!   Y <m|c> <types> <pk indexes> <cells>     typed CqlValue rows through calculate_token / compute_partition_key
//!   Z <m|c> <n> <msb> <bytes>                hash_one, then Sharder::shard_of
//!   P <N|V<name bytes>> <bytes>              PartitionerName::from_str (hook); then the expression of
//!                                            Session::prepare / ClusterState::do_compute_token
//!                                            `name.and_then(from_str).unwrap_or_default()` (rebuilt here
//!                                            from the hook and the real Default), build_hasher/write/finish
use bytes::Bytes;
use scylla::routing::partitioner::{
    CDCPartitioner, Murmur3Partitioner, Partitioner, PartitionerHasher, PartitionerName,
};
use scylla_cql::serialize::row::SerializedValues;
use scylla::statement::prepared::{
    PartitionKeyError, PartitionKeyExtractionError, PreparedStatement, TokenCalculationError,
};
use scylla::routing::verif_partitioner as phooks;
use scylla::statement::verif_prepared as hooks;
use scylla::value::MaybeUnset;
use scylla_cql::frame::protocol_features::ProtocolFeatures;
use scylla_cql::frame::response::result as cqlres;
use std::panic::AssertUnwindSafe;
use vh::mocknode as mn;
use vh::*;

#[derive(Clone, Debug)]
enum Val {
    Null,
    Unset,
    Value(Vec<u8>),
}

fn partitioner_name(p: &str) -> PartitionerName {
    if p == "c" { PartitionerName::CDC } else { PartitionerName::Murmur3 }
}

// ------------------------------------------------------------------ text encodings

fn unhex(s: &str) -> Vec<u8> {
    if s == "-" || s.is_empty() {
        return vec![];
    }
    (0..s.len() / 2).map(|i| u8::from_str_radix(&s[2 * i..2 * i + 2], 16).unwrap()).collect()
}
fn chunks_to_string(cs: &[Vec<u8>]) -> String {
    if cs.is_empty() {
        return "-".into();
    }
    cs.iter().map(|c| if c.is_empty() { ".".to_string() } else { hex_bytes(c) }).collect::<Vec<_>>().join(",")
}
fn chunks_from_string(s: &str) -> Vec<Vec<u8>> {
    if s == "-" {
        return vec![];
    }
    s.split(',').map(|c| if c == "." { vec![] } else { unhex(c) }).collect()
}
fn values_to_string(vs: &[Val]) -> String {
    if vs.is_empty() {
        return "-".into();
    }
    vs.iter()
        .map(|v| match v {
            Val::Null => "N".to_string(),
            Val::Unset => "U".to_string(),
            Val::Value(b) => format!("V{}", if b.is_empty() { String::new() } else { hex_bytes(b) }),
        })
        .collect::<Vec<_>>()
        .join(",")
}
fn values_from_string(s: &str) -> Vec<Val> {
    if s == "-" {
        return vec![];
    }
    s.split(',')
        .map(|v| match v {
            "N" => Val::Null,
            "U" => Val::Unset,
            _ => Val::Value(unhex(&v[1..])),
        })
        .collect()
}
fn wire_from_string(s: &str) -> Vec<u16> {
    if s == "-" {
        return vec![];
    }
    s.split(',').map(|x| u16::from_str_radix(x, 16).unwrap()).collect()
}

// ------------------------------------------------------------------ building the real objects

/// `[short n][value]*` as in a frame, then the crate's own parser
fn serialized_values(vs: &[Val]) -> SerializedValues {
    let mut b = Vec::new();
    b.extend_from_slice(&(vs.len() as u16).to_be_bytes());
    for v in vs {
        match v {
            Val::Null => b.extend_from_slice(&(-1i32).to_be_bytes()),
            Val::Unset => b.extend_from_slice(&(-2i32).to_be_bytes()),
            Val::Value(x) => {
                b.extend_from_slice(&(x.len() as i32).to_be_bytes());
                b.extend_from_slice(x);
            }
        }
    }
    SerializedValues::new_from_frame(&mut &b[..]).expect("serialized values")
}

fn put_string(b: &mut Vec<u8>, s: &str) {
    b.extend_from_slice(&(s.len() as u16).to_be_bytes());
    b.extend_from_slice(s.as_bytes());
}

/// body of a RESULT/Prepared response (CQL v4): ncols blob bind markers, the given pk indexes
fn prepared_response_body(ncols: usize, wire: &[u16]) -> Vec<u8> {
    let mut b = Vec::new();
    b.extend_from_slice(&4i32.to_be_bytes()); // kind = Prepared
    b.extend_from_slice(&2u16.to_be_bytes()); // id
    b.extend_from_slice(b"id");
    // prepared metadata
    b.extend_from_slice(&1i32.to_be_bytes()); // flags: global tables spec
    b.extend_from_slice(&(ncols as i32).to_be_bytes());
    b.extend_from_slice(&(wire.len() as i32).to_be_bytes());
    for i in wire {
        b.extend_from_slice(&i.to_be_bytes());
    }
    put_string(&mut b, "ks");
    put_string(&mut b, "t");
    for c in 0..ncols {
        put_string(&mut b, &format!("c{}", c));
        b.extend_from_slice(&0x0003u16.to_be_bytes()); // blob
    }
    // result metadata: no metadata, 0 columns
    b.extend_from_slice(&4i32.to_be_bytes());
    b.extend_from_slice(&0i32.to_be_bytes());
    b
}

fn prepared_statement(ncols: usize, wire: &[u16], p: &str) -> Result<PreparedStatement, String> {
    let body = Bytes::from(prepared_response_body(ncols, wire));
    match cqlres::deserialize_with_features(body, None, &ProtocolFeatures::default()) {
        Ok(cqlres::Result::Prepared(resp)) => Ok(hooks::prepared_statement_from_response(resp, partitioner_name(p))),
        Ok(_) => Err("error not-prepared".into()),
        Err(e) => Err(format!("error deser {}", e).replace(' ', "_")),
    }
}

// ------------------------------------------------------------------ output encodings

fn extraction_err(e: &PartitionKeyExtractionError) -> String {
    match e {
        PartitionKeyExtractionError::NoPkIndexValue(i, c) => format!("err:nopk:{:x}:{:x}", i, c),
        _ => "err:other".into(),
    }
}
fn token_err(e: &TokenCalculationError) -> String {
    match e {
        TokenCalculationError::ValueTooLong(n) => format!("err:toolong:{:x}", n),
        _ => "err:other".into(),
    }
}
fn pk_err(e: &PartitionKeyError) -> String {
    match e {
        PartitionKeyError::PartitionKeyExtraction(e) => extraction_err(e),
        PartitionKeyError::TokenCalculation(e) => token_err(e),
        PartitionKeyError::Serialization(_) => "err:ser".into(),
        _ => "err:other".into(),
    }
}

// ------------------------------------------------------------------ running one case

fn run_case(case: &str) -> String {
    let f: Vec<&str> = case.split_whitespace().collect();
    match f[0] {
        "H" => {
            let data = unhex(f[2]);
            let r = if f[1] == "c" {
                catch(move || CDCPartitioner.hash_one(&data).value())
            } else {
                catch(move || Murmur3Partitioner.hash_one(&data).value())
            };
            match r {
                Ok(t) => hex_i(t as i128),
                Err(_) => "panic".into(),
            }
        }
        "W" => {
            let chunks = chunks_from_string(f[2]);
            let name = partitioner_name(f[1]);
            match catch(move || {
                let mut h = name.build_hasher();
                for c in &chunks {
                    h.write(c);
                }
                h.finish().value()
            }) {
                Ok(t) => hex_i(t as i128),
                Err(_) => "panic".into(),
            }
        }
        "T" => {
            let vals = values_from_string(f[2]);
            let name = partitioner_name(f[1]);
            let sv = serialized_values(&vals);
            match catch(AssertUnwindSafe(|| hooks::calculate_token_for_partition_key(&sv, &name))) {
                Ok(Ok(t)) => format!("ok:{}", hex_i(t.value() as i128)),
                Ok(Err(e)) => token_err(&e),
                Err(_) => "panic".into(),
            }
        }
        "P" => {
            let name: Option<String> =
                if f[1] == "N" { None } else { Some(String::from_utf8(unhex(&f[1][1..])).expect("utf8 name")) };
            let data = unhex(f[2]);
            let from = match &name {
                None => "na".to_string(),
                Some(n) => match phooks::partitioner_name_from_str(n) {
                    None => "none".into(),
                    Some(PartitionerName::Murmur3) => "m".into(),
                    Some(PartitionerName::CDC) => "c".into(),
                    Some(_) => "other".into(),
                },
            };
            let chosen: PartitionerName =
                name.as_deref().and_then(phooks::partitioner_name_from_str).unwrap_or_default();
            let tok = match catch(move || {
                let mut h = chosen.build_hasher();
                h.write(&data);
                h.finish().value()
            }) {
                Ok(t) => hex_i(t as i128),
                Err(_) => "panic".into(),
            };
            format!("{} {}", from, tok)
        }
        "Z" => {
            let n = u16::from_str_radix(f[2], 16).unwrap();
            let msb = u8::from_str_radix(f[3], 16).unwrap();
            let data = unhex(f[4]);
            let cdc = f[1] == "c";
            match catch(move || {
                let t = if cdc { CDCPartitioner.hash_one(&data) } else { Murmur3Partitioner.hash_one(&data) };
                let sharder = scylla::routing::Sharder::new(scylla::routing::ShardCount::new(n).unwrap(), msb);
                (t.value(), sharder.shard_of(t))
            }) {
                Ok((t, sh)) => format!("{} {:x}", hex_i(t as i128), sh),
                Err(_) => "panic panic".into(),
            }
        }
        "Y" => run_y(&f),
        "K" | "R" => {
            if f[0] == "K" && !overflow_checks_on() {
                return "notrun wrong-build-mode".into();
            }
            if f[0] == "R" && overflow_checks_on() {
                // a replay hands R cases to the checked binary: pass them on to the unchecked build
                return delegate_to_nochk(case);
            }
            let ncols = usize::from_str_radix(f[2], 16).unwrap();
            let wire = wire_from_string(f[3]);
            let vals = values_from_string(f[4]);
            let ps = match prepared_statement(ncols, &wire, f[1]) {
                Ok(ps) => ps,
                Err(e) => return e,
            };
            let sv = serialized_values(&vals);
            let slots = match catch(AssertUnwindSafe(|| hooks::extract_partition_key_slots(&ps, &sv))) {
                Ok(Ok(s)) => {
                    let items: Vec<String> = s
                        .iter()
                        .map(|x| match x {
                            None => "N".to_string(),
                            Some(b) => format!("S{}", if b.is_empty() { String::new() } else { hex_bytes(b) }),
                        })
                        .collect();
                    format!("ok:{}", if items.is_empty() { "-".to_string() } else { items.join(",") })
                }
                Ok(Err(e)) => extraction_err(&e),
                Err(_) => "panic".into(),
            };
            let chunks = match catch(AssertUnwindSafe(|| hooks::encoded_partition_key_chunks(&ps, &sv))) {
                Ok(Ok(cs)) => format!("ok:{}", chunks_to_string(&cs)),
                Ok(Err(e)) => pk_err(&e),
                Err(_) => "panic".into(),
            };
            let tok = |r: Result<Result<Option<scylla::routing::Token>, PartitionKeyError>, String>| match r {
                Ok(Ok(None)) => "none".to_string(),
                Ok(Ok(Some(t))) => format!("some:{}", hex_i(t.value() as i128)),
                Ok(Err(e)) => pk_err(&e),
                Err(_) => "panic".into(),
            };
            let token = tok(catch(AssertUnwindSafe(|| hooks::calculate_token_untyped(&ps, &sv))));
            // the public, typed entry points (values serialized by the statement itself)
            let (typed, pk) = if vals.len() == ncols {
                let row: Vec<MaybeUnset<Option<Vec<u8>>>> = vals
                    .iter()
                    .map(|v| match v {
                        Val::Unset => MaybeUnset::Unset,
                        Val::Null => MaybeUnset::Set(None),
                        Val::Value(b) => MaybeUnset::Set(Some(b.clone())),
                    })
                    .collect();
                let typed = tok(catch(AssertUnwindSafe(|| ps.calculate_token(&row))));
                let pk = match catch(AssertUnwindSafe(|| ps.compute_partition_key(&row))) {
                    Ok(Ok(b)) => format!("ok:{}", hex_bytes(&b)),
                    Ok(Err(e)) => pk_err(&e),
                    Err(_) => "panic".into(),
                };
                (typed, pk)
            } else {
                ("na".to_string(), "na".to_string())
            };
            format!("{} {} {} {} {}", slots, chunks, token, typed, pk)
        }
        _ => "error unknown-case".into(),
    }
}

/// the unchecked build of this runner lives in `<this target dir>-c03-nochk` (built by checks/c03.py)
fn delegate_to_nochk(case: &str) -> String {
    let exe = match std::env::current_exe() {
        Ok(e) => e,
        Err(_) => return "notrun no-current-exe".into(),
    };
    // <target>/debug/c03 -> <target>-c03-nochk/debug/c03
    let target = match exe.parent().and_then(|d| d.parent()) {
        Some(t) => t.to_path_buf(),
        None => return "notrun no-target-dir".into(),
    };
    let mut name = target.file_name().map(|n| n.to_os_string()).unwrap_or_default();
    name.push("-c03-nochk");
    let other = target.with_file_name(name).join("debug").join("c03");
    if !other.exists() {
        return "notrun unchecked-build-missing".into();
    }
    let tag = format!("{}.{}", std::process::id(), std::time::SystemTime::now().duration_since(std::time::UNIX_EPOCH).map(|d| d.as_nanos()).unwrap_or(0));
    let dir = std::env::temp_dir();
    let (fin, fout) = (dir.join(format!("c03r.{}.in", tag)), dir.join(format!("c03r.{}.out", tag)));
    let res = (|| {
        std::fs::write(&fin, format!("{}\n", case)).ok()?;
        let st = std::process::Command::new(&other).arg("--replay").arg(&fin).arg("--out").arg(&fout).status().ok()?;
        if !st.success() {
            return None;
        }
        let txt = std::fs::read_to_string(&fout).ok()?;
        let line = txt.lines().next()?.to_string();
        line.split_once(" | ").map(|x| x.1.to_string())
    })();
    let _ = std::fs::remove_file(&fin);
    let _ = std::fs::remove_file(&fout);
    res.unwrap_or_else(|| "notrun unchecked-build-failed".into())
}

/// is this binary built with overflow checks?
fn overflow_checks_on() -> bool {
    std::panic::catch_unwind(|| std::hint::black_box(255u8) + std::hint::black_box(1u8)).is_err()
}

fn type_id(t: &str) -> u16 {
    match t {
        "i" => 0x0009,
        "b" => 0x0002,
        "s" => 0x000D,
        "u" => 0x000C,
        "o" => 0x0004,
        "h" => 0x0013,
        "t" => 0x0014,
        _ => 0x0003,
    }
}

fn parse_i(s: &str) -> i128 {
    if let Some(r) = s.strip_prefix('-') { -(i128::from_str_radix(r, 16).unwrap()) } else { i128::from_str_radix(s, 16).unwrap() }
}

/// typed rows: real column types in the PREPARED response, CqlValue cells
fn run_y(f: &[&str]) -> String {
    use scylla::value::CqlValue;
    let types: Vec<&str> = if f[2] == "-" { vec![] } else { f[2].split(',').collect() };
    let wire = wire_from_string(f[3]);
    let mut b = Vec::new();
    b.extend_from_slice(&4i32.to_be_bytes());
    b.extend_from_slice(&2u16.to_be_bytes());
    b.extend_from_slice(b"id");
    b.extend_from_slice(&1i32.to_be_bytes());
    b.extend_from_slice(&(types.len() as i32).to_be_bytes());
    b.extend_from_slice(&(wire.len() as i32).to_be_bytes());
    for i in &wire {
        b.extend_from_slice(&i.to_be_bytes());
    }
    put_string(&mut b, "ks");
    put_string(&mut b, "t");
    for (c, t) in types.iter().enumerate() {
        put_string(&mut b, &format!("c{}", c));
        b.extend_from_slice(&type_id(t).to_be_bytes());
    }
    b.extend_from_slice(&4i32.to_be_bytes());
    b.extend_from_slice(&0i32.to_be_bytes());
    let ps = match cqlres::deserialize_with_features(Bytes::from(b), None, &ProtocolFeatures::default()) {
        Ok(cqlres::Result::Prepared(resp)) => hooks::prepared_statement_from_response(resp, partitioner_name(f[1])),
        _ => return "error deser".into(),
    };
    let row: Vec<MaybeUnset<Option<CqlValue>>> = if f[4] == "-" {
        vec![]
    } else {
        f[4].split(',')
            .map(|c| match c {
                "N" => MaybeUnset::Set(None),
                "U" => MaybeUnset::Unset,
                _ => {
                    let (k, v) = (&c[0..1], &c[2..]);
                    MaybeUnset::Set(Some(match k {
                        "i" => CqlValue::Int(parse_i(v) as i32),
                        "b" => CqlValue::BigInt(parse_i(v) as i64),
                        "h" => CqlValue::SmallInt(parse_i(v) as i16),
                        "t" => CqlValue::TinyInt(parse_i(v) as i8),
                        "s" => CqlValue::Text(String::from_utf8(unhex(v)).expect("utf8")),
                        "u" => CqlValue::Uuid(uuid::Uuid::from_slice(&unhex(v)).expect("uuid")),
                        "o" => CqlValue::Boolean(v == "1"),
                        _ => CqlValue::Blob(unhex(v)),
                    }))
                }
            })
            .collect()
    };
    let tok = match catch(AssertUnwindSafe(|| ps.calculate_token(&row))) {
        Ok(Ok(None)) => "none".to_string(),
        Ok(Ok(Some(t))) => format!("some:{}", hex_i(t.value() as i128)),
        Ok(Err(e)) => pk_err(&e),
        Err(_) => "panic".into(),
    };
    let pk = match catch(AssertUnwindSafe(|| ps.compute_partition_key(&row))) {
        Ok(Ok(b)) => format!("ok:{}", hex_bytes(&b)),
        Ok(Err(e)) => pk_err(&e),
        Err(_) => "panic".into(),
    };
    format!("{} {}", tok, pk)
}

// ------------------------------------------------------------------ end to end (mocknode)

/// all E cases of one group share (mode, rows): one mock cluster, one Session
async fn run_e_group(cases: &[String]) -> Vec<String> {
    use mn::*;
    let f0: Vec<&str> = cases[0].split_whitespace().collect();
    let mode = &f0[1][0..1];
    let fetch = if f0[1].len() > 1 { &f0[1][1..2] } else { "f" };
    let rows: Vec<(String, String, Option<String>)> = if f0[2] == "-" {
        vec![]
    } else {
        f0[2].split(',')
            .map(|r| {
                let x: Vec<&str> = r.split(':').collect();
                let p = if x[2] == "N" { None } else { Some(String::from_utf8(unhex(&x[2][1..])).unwrap()) };
                (x[0].to_string(), x[1].to_string(), p)
            })
            .collect()
    };
    let targets: Vec<(String, String)> = cases
        .iter()
        .map(|c| {
            let t = c.split_whitespace().nth(3).unwrap();
            let (k, n) = t.split_once(':').unwrap();
            (k.to_string(), n.to_string())
        })
        .collect();
    let mk_table = |n: &str| TableDef::new(n, &[("pk", CqlType::Blob)], &[], &[]);
    // scenario n: the target tables are listed in system_schema.tables but have no column rows
    let nocols: Vec<(String, String)> = if mode == "n" { targets.clone() } else { vec![] };
    // tables known to the metadata: those of the rows, and the targets unless the mode says unknown
    let mut known: Vec<(String, String)> = rows.iter().map(|r| (r.0.clone(), r.1.clone())).collect();
    if mode != "u" {
        known.extend(targets.iter().cloned());
    } else {
        // unknown to system_schema.tables even when scylla_tables has a row for it
        known.retain(|k| !targets.contains(k));
    }
    known.sort();
    known.dedup();
    let mut spec = ClusterSpec::uniform("c03", &[("dc1", 1)], 1, 4, 1);
    let mut kss: Vec<String> = known.iter().map(|k| k.0.clone()).chain(targets.iter().map(|t| t.0.clone())).collect();
    kss.sort();
    kss.dedup();
    for ks in &kss {
        let mut kd = KeyspaceDef::simple(ks, 1);
        for (k, t) in &known {
            if k == ks {
                kd = kd.with_table(if nocols.contains(&(k.clone(), t.clone())) { TableDef::new(t, &[], &[], &[]) } else { mk_table(t) });
            }
        }
        spec = spec.with_keyspace(kd);
    }
    if mode == "x" {
        spec.options.scylla_tables = false;
    } else {
        spec.extra_tables.push(ExtraTable {
            name: "system_schema.scylla_tables".into(),
            columns: vec![("keyspace_name".into(), CqlType::Text), ("table_name".into(), CqlType::Text), ("partitioner".into(), CqlType::Text)],
            rows: rows.iter().map(|(k, t, p)| vec![cell::text(k), cell::text(t), p.as_ref().map(|x| x.as_bytes().to_vec())]).collect(),
        });
    }
    let cluster = match MockCluster::start(spec).await {
        Ok(c) => c,
        Err(e) => return cases.iter().map(|_| format!("error cluster-start {}", e.to_string().replace(' ', "_"))).collect(),
    };
    let session = match scylla::client::session_builder::SessionBuilder::new()
        .known_node_addr(cluster.contact_point(0))
        .local_ip_address(Some(cluster.client_ip()))
        .connection_timeout(std::time::Duration::from_secs(5))
        .fetch_schema_metadata(fetch != "d")
        .fetch_full_schema_metadata(fetch != "m")
        .build()
        .await
    {
        Ok(s) => s,
        Err(e) => {
            cluster.shutdown();
            return cases.iter().map(|_| format!("error session {}", e.to_string().replace(' ', "_"))).collect();
        }
    };
    let mut out = Vec::new();
    for (c, (ks, t)) in cases.iter().zip(&targets) {
        let key = unhex(c.split_whitespace().nth(4).unwrap());
        let text = format!("SELECT pk FROM {}.{} WHERE pk = ?", ks, t);
        cluster.on_prepare(&text, mk_table(t).prepared(ks, &["pk"], &["pk"]));
        let r = match session.prepare(text.as_str()).await {
            Err(e) => format!("error prepare {}", e.to_string().replace(' ', "_")),
            Ok(ps) => {
                let part = match ps.get_partitioner_name() {
                    PartitionerName::Murmur3 => "m",
                    PartitionerName::CDC => "c",
                    _ => "other",
                };
                let tok = match ps.calculate_token(&(key,)) {
                    Ok(Some(t)) => format!("some:{}", hex_i(t.value() as i128)),
                    Ok(None) => "none".into(),
                    Err(e) => pk_err(&e),
                };
                format!("{} {}", part, tok)
            }
        };
        out.push(r);
    }
    cluster.shutdown();
    drop(session);
    out
}

/// run every case; consecutive E cases with the same (mode, rows) share a cluster
fn run_all(rt: &tokio::runtime::Runtime, cases: &[String], out: &mut Out) {
    let mut i = 0;
    while i < cases.len() {
        if cases[i].starts_with("E ") {
            let key = |c: &String| c.split_whitespace().take(3).collect::<Vec<_>>().join(" ");
            let mut j = i + 1;
            while j < cases.len() && cases[j].starts_with("E ") && key(&cases[j]) == key(&cases[i]) && j - i < 12 {
                j += 1;
            }
            let res = rt.block_on(run_e_group(&cases[i..j]));
            for (c, o) in cases[i..j].iter().zip(res) {
                out.case(c, &o);
            }
            i = j;
        } else {
            let o = run_case(&cases[i]);
            out.case(&cases[i], &o);
            i += 1;
        }
    }
}

// ------------------------------------------------------------------ generators

/// byte strings: uniform, all >= 0x80, all 0xff, sign-boundary values, ASCII
fn gen_bytes(r: &mut Rng, len: usize) -> Vec<u8> {
    match r.below(8) {
        0 | 1 => r.bytes(len),
        2 | 3 | 4 => (0..len).map(|_| 0x80 | (r.u64() as u8)).collect(),
        5 => vec![0xff; len],
        6 => (0..len).map(|_| *r.pick(&[0x00u8, 0x7f, 0x80, 0xff, 0x81, 0xfe])).collect(),
        _ => (0..len).map(|_| 0x20 + (r.below(95) as u8)).collect(),
    }
}
/// lengths: 0..=70 mostly, multiples / near-multiples of 16, occasionally long
fn gen_len(r: &mut Rng, max_long: usize) -> usize {
    match r.below(100) {
        0..=44 => r.range(0, 70) as usize,
        45..=64 => {
            let k = r.range(1, 24) as usize;
            16 * k + r.range(0, 2) as usize - 1
        }
        65..=79 => r.range(0, 20) as usize,
        80..=93 => r.range(71, 300) as usize,
        94..=97 => {
            let k = r.range(1, (max_long / 16) as u64) as usize;
            16 * k + r.range(0, 2) as usize - 1
        }
        _ => r.range(300, max_long as u64) as usize,
    }
}
/// split `data` into chunks whose sizes stress the 16-byte (8-byte for CDC) buffer
fn gen_chunking(r: &mut Rng, data: &[u8]) -> Vec<Vec<u8>> {
    let mut out = Vec::new();
    let mut rest = data;
    let style = r.below(4);
    while !rest.is_empty() {
        let want = match style {
            0 => *r.pick(&[0usize, 1, 15, 16, 17, 7, 8, 9, 31, 32, 33]),
            1 => r.range(0, 5) as usize,
            2 => r.range(0, 40) as usize,
            _ => r.range(0, rest.len() as u64) as usize,
        };
        let n = want.min(rest.len());
        out.push(rest[..n].to_vec());
        rest = &rest[n..];
        if out.len() > 40 {
            out.push(rest.to_vec());
            break;
        }
    }
    if r.chance(1, 4) {
        out.push(vec![]);
    }
    out
}

fn gen_partitioner(r: &mut Rng) -> &'static str {
    if r.chance(1, 6) { "c" } else { "m" }
}

fn gen_key_component(r: &mut Rng, p: &str, boundary_ok: bool) -> Vec<u8> {
    if boundary_ok && r.chance(1, 4000) {
        let len = *r.pick(&[65535usize, 65536, 65537, 65534]);
        return gen_bytes(r, len);
    }
    let len = if p == "c" && r.chance(1, 2) { r.range(0, 18) as usize } else { gen_len(r, 1024) };
    gen_bytes(r, len)
}

fn gen_nonkey(r: &mut Rng) -> Val {
    match r.below(5) {
        0 => Val::Null,
        1 => Val::Unset,
        _ => {
            let len = r.range(0, 12) as usize;
            Val::Value(gen_bytes(r, len))
        }
    }
}

/// K case: k key components among m markers, pk indexes in partition-key order
fn gen_k_case(r: &mut Rng) -> String {
    let p = gen_partitioner(r);
    let k = match r.below(10) {
        0..=2 => 1,
        3..=5 => r.range(2, 3) as usize,
        _ => r.range(1, 8) as usize,
    };
    let m = r.range(k as u64, 16) as usize;
    let mut positions: Vec<u16> = (0..m as u16).collect();
    r.shuffle(&mut positions);
    let mut wire: Vec<u16> = positions[..k].to_vec();
    let mut vals: Vec<Val> = (0..m).map(|_| gen_nonkey(r)).collect();
    for &i in &wire {
        vals[i as usize] = Val::Value(gen_key_component(r, p, true));
    }
    let mut ncols = m;
    // malformed / boundary stream (outside the property's quantifier: model = code exactly)
    if r.chance(3, 20) {
        match r.below(7) {
            0 => {
                let i = *r.pick(&wire);
                vals[i as usize] = if r.bool() { Val::Null } else { Val::Unset };
            }
            1 => {
                let d = *r.pick(&wire);
                let at = r.below(wire.len() as u64 + 1) as usize;
                wire.insert(at, d); // duplicate pk index
            }
            2 => {
                let cut = r.below(m as u64 + 1) as usize;
                vals.truncate(cut); // fewer values than markers
            }
            3 => {
                ncols = r.below(m as u64 + 1) as usize; // fewer column specs than markers
            }
            4 => wire.clear(), // not token aware
            5 => {
                vals.push(gen_nonkey(r)); // more values than markers
            }
            _ => {
                let at = r.below(wire.len() as u64) as usize;
                wire[at] = *r.pick(&[m as u16, m as u16 + 1, 0xffff, 0xfffe, 0x8000]); // index out of range
            }
        }
    }
    format!("K {} {:x} {} {}", p, ncols, hex_list(&wire), values_to_string(&vals))
}

fn gen_t_case(r: &mut Rng) -> String {
    let p = gen_partitioner(r);
    let k = r.range(0, 8) as usize;
    let vals: Vec<Val> = (0..k)
        .map(|_| {
            if r.chance(1, 12) {
                if r.bool() { Val::Null } else { Val::Unset }
            } else {
                Val::Value(gen_key_component(r, p, true))
            }
        })
        .collect();
    format!("T {} {}", p, values_to_string(&vals))
}

fn gen_p_case(r: &mut Rng) -> String {
    const M: &str = "Murmur3Partitioner";
    const C: &str = "CDCPartitioner";
    let name: Option<String> = match r.below(16) {
        0 => None,
        1 => Some("org.apache.cassandra.dht.Murmur3Partitioner".into()),
        2 | 3 => Some("com.scylladb.dht.CDCPartitioner".into()),
        4 => Some(C.into()),
        5 => Some(M.into()),
        6 => Some(r.pick(&["org.apache.cassandra.dht.RandomPartitioner", "", "Partitioner", "cdcpartitioner",
                           "org.apache.cassandra.dht.ByteOrderedPartitioner", "CDCPartitioner ", "Murmur3Partitioner\n"]).to_string()),
        7 => Some(format!("{}{}", M, C)),
        8 => Some(format!("{}{}", C, M)),
        9 => Some(format!("żółć.{}", if r.bool() { C } else { M })),
        10 => {
            // a proper suffix / a name missing its last or first character
            let base = if r.bool() { C } else { M };
            let cut = r.range(1, 3) as usize;
            Some(if r.bool() { base[cut..].to_string() } else { base[..base.len() - cut].to_string() })
        }
        _ => {
            let n = r.range(0, 12) as usize;
            let pre: String = (0..n).map(|_| (b'a' + r.below(26) as u8) as char).collect();
            let suf = *r.pick(&[M, C, "", "Partitioner", "DCPartitioner", "3Partitioner"]);
            Some(format!("{}{}{}", pre, if r.bool() { "." } else { "" }, suf))
        }
    };
    let len = r.range(0, 24) as usize;
    let data = gen_bytes(r, len);
    let n = match &name {
        None => "N".to_string(),
        Some(s) => format!("V{}", if s.is_empty() { String::new() } else { hex_bytes(s.as_bytes()) }),
    };
    format!("P {} {}", n, hex_bytes(&data))
}

fn gen_class_name(r: &mut Rng) -> Option<String> {
    match r.below(10) {
        0 => None,
        1 | 2 | 3 => Some("com.scylladb.dht.CDCPartitioner".into()),
        4 | 5 => Some("org.apache.cassandra.dht.Murmur3Partitioner".into()),
        6 => Some("org.apache.cassandra.dht.RandomPartitioner".into()),
        7 => Some("CDCPartitioner".into()),
        8 => Some(format!("x.y.{}Partitioner", r.pick(&["CDC", "Murmur3", "cdc", "Foo"]))),
        _ => Some("".into()),
    }
}

/// a group of E cases sharing one cluster: rows for a few tables (with duplicates and rows of
/// other keyspaces), then one case per target table
fn gen_e_group(r: &mut Rng) -> Vec<String> {
    let scen = match r.below(12) {
        0 => "x",
        1 | 2 => "u",
        3 | 4 => "n",
        _ => "s",
    };
    let fetch = if scen == "n" && r.bool() {
        "m" // the one cell where a table without column rows still gets its partitioner
    } else {
        match r.below(10) {
            0..=3 => "m",
            4 => "d",
            _ => "f",
        }
    };
    let mode = format!("{}{}", scen, fetch);
    let kss = ["ks", "other"];
    let tbs = ["log", "t", "u", "v"];
    let class_field = |c: Option<String>| match c {
        None => "N".to_string(),
        Some(s) => format!("V{}", if s.is_empty() { String::new() } else { hex_bytes(s.as_bytes()) }),
    };
    let mut rows: Vec<String> = Vec::new();
    let nrows = r.range(0, 7) as usize;
    for _ in 0..nrows {
        let k = *r.pick(&kss);
        let t = *r.pick(&tbs);
        let c = gen_class_name(r);
        rows.push(format!("{}:{}:{}", k, t, class_field(c)));
    }
    let n = r.range(3, 6) as usize;
    let targets: Vec<(&str, &str)> = (0..n)
        .map(|_| (*r.pick(&kss), if scen == "u" { "ghost" } else { *r.pick(&tbs) }))
        .collect();
    // scenarios u and n: half of the groups end with a CDC / Murmur3 row for every target, so that
    // "a row without a system_schema.tables entry" and "a row of a table without column rows" occur
    if (scen == "u" || scen == "n") && r.bool() {
        let mut seen: Vec<(&str, &str)> = Vec::new();
        for t in &targets {
            if !seen.contains(t) {
                seen.push(*t);
                let c = if r.chance(3, 4) { "com.scylladb.dht.CDCPartitioner" } else { "org.apache.cassandra.dht.Murmur3Partitioner" };
                rows.push(format!("{}:{}:{}", t.0, t.1, class_field(Some(c.to_string()))));
            }
        }
    }
    let rows_s = if rows.is_empty() { "-".to_string() } else { rows.join(",") };
    targets
        .iter()
        .map(|(k, t)| {
            let len = r.range(0, 20) as usize;
            format!("E {} {} {}:{} {}", mode, rows_s, k, t, hex_bytes(&gen_bytes(r, len)))
        })
        .collect()
}

fn gen_typed_cell(r: &mut Rng, t: &str) -> String {
    match t {
        "i" => {
            let x = r.u64() as i32;
            format!("i:{}", hex_i(*r.pick(&[0i32, -1, 1, i32::MIN, i32::MAX, x]) as i128))
        }
        "b" => {
            let x = r.i64();
            format!("b:{}", hex_i(*r.pick(&[0i64, -1, i64::MIN, i64::MAX, x]) as i128))
        }
        "h" => {
            let x = r.u64() as i16;
            format!("h:{}", hex_i(*r.pick(&[0i16, -1, i16::MIN, i16::MAX, x]) as i128))
        }
        "t" => {
            let x = r.u64() as i8;
            format!("t:{}", hex_i(*r.pick(&[0i8, -1, i8::MIN, i8::MAX, x]) as i128))
        }
        "o" => format!("o:{}", r.below(2)),
        "u" => format!("u:{}", hex_bytes(&r.bytes(16))),
        "s" => {
            let n = r.range(0, 40) as usize;
            let s: String = (0..n).map(|_| *r.pick(&['a', 'Z', '0', ' ', 'ż', 'ó', '€', '\u{10348}'])).collect();
            format!("s:{}", hex_bytes(s.as_bytes()))
        }
        _ => {
            let n = r.range(0, 40) as usize;
            format!("x:{}", hex_bytes(&gen_bytes(r, n)))
        }
    }
}

/// Y case: typed columns, typed key values, permuted markers; 1/10 with a wrongly typed /
/// missing / null key cell
fn gen_y_case(r: &mut Rng) -> String {
    let p = gen_partitioner(r);
    let k = r.range(1, 5) as usize;
    let m = r.range(k as u64, 8) as usize;
    let tys = ["i", "b", "s", "u", "o", "h", "t", "x"];
    let types: Vec<&str> = (0..m).map(|_| *r.pick(&tys)).collect();
    let mut pos: Vec<u16> = (0..m as u16).collect();
    r.shuffle(&mut pos);
    let wire: Vec<u16> = pos[..k].to_vec();
    let mut cells: Vec<String> = types
        .iter()
        .enumerate()
        .map(|(i, t)| {
            if !wire.contains(&(i as u16)) && r.chance(1, 3) {
                if r.bool() { "N".to_string() } else { "U".to_string() }
            } else {
                gen_typed_cell(r, t)
            }
        })
        .collect();
    if r.chance(1, 10) {
        let at = *r.pick(&wire) as usize;
        match r.below(3) {
            0 => {
                let other = *r.pick(&tys);
                cells[at] = gen_typed_cell(r, other); // maybe a type mismatch
            }
            1 => cells[at] = "N".into(),
            _ => {
                cells.pop(); // wrong column count
            }
        }
    }
    format!("Y {} {} {} {}", p, types.join(","), hex_list(&wire), if cells.is_empty() { "-".to_string() } else { cells.join(",") })
}

fn gen_z_case(r: &mut Rng) -> String {
    let p = gen_partitioner(r);
    let n = match r.below(4) {
        0 => r.range(1, 8),
        1 => *r.pick(&[1u64, 2, 255, 256, 32767, 65535]),
        _ => r.range(1, 65535),
    };
    let msb = if r.chance(1, 3) { *r.pick(&[0u64, 12, 63]) } else { r.below(64) };
    let data = if p == "c" {
        // CDC: edge tokens (i64::MIN -> MAX, MAX, MIN+1, -1, 0) and short keys (Token::INVALID)
        match r.below(4) {
            0 => {
                let v = *r.pick(&[i64::MIN, i64::MAX, i64::MIN + 1, -1i64, 0]);
                let mut d = v.to_be_bytes().to_vec();
                d.extend_from_slice(&r.bytes(8));
                d
            }
            1 => {
                let l = r.below(8) as usize;
                r.bytes(l)
            }
            _ => r.bytes(16),
        }
    } else {
        let len = r.range(0, 40) as usize;
        gen_bytes(r, len)
    };
    format!("Z {} {:x} {:x} {}", p, n, msb, hex_bytes(&data))
}

/// all injective maps from k sequence positions into m marker positions
fn injections(k: usize, m: usize, cur: &mut Vec<u16>, out: &mut Vec<Vec<u16>>) {
    if cur.len() == k {
        out.push(cur.clone());
        return;
    }
    for i in 0..m as u16 {
        if !cur.contains(&i) {
            cur.push(i);
            injections(k, m, cur, out);
            cur.pop();
        }
    }
}

fn main() {
    let a = parse_args();
    quiet_panics();
    let mut out = Out::create(&a.out);
    let rt = tokio::runtime::Builder::new_multi_thread().worker_threads(2).enable_all().build().expect("runtime");
    if let Some(p) = &a.replay {
        run_all(&rt, &read_cases(p), &mut out);
        out.finish();
        return;
    }
    let thorough = a.tier == "thorough";
    let mut r = Rng::new(a.seed);
    let emit = |c: String, out: &mut Out| {
        let o = run_case(&c);
        out.case(&c, &o);
    };

    // (i) hash_one vs the model on every length 0..=70, several byte classes
    for len in 0..=70usize {
        for class in 0..4 {
            let data: Vec<u8> = match class {
                0 => (0..len).map(|_| 0x80 | (r.u64() as u8)).collect(),
                1 => vec![0xff; len],
                2 => r.bytes(len),
                _ => (0..len).map(|i| if i % 2 == 0 { 0x80 } else { 0x7f }).collect(),
            };
            emit(format!("H m {}", hex_bytes(&data)), &mut out);
        }
        if len <= 24 {
            let data = gen_bytes(&mut r, len);
            emit(format!("H c {}", hex_bytes(&data)), &mut out);
        }
    }
    // every multiple / near-multiple of 16 up to 4 KiB, bytes >= 0x80 dense
    for k in 1..=256usize {
        for d in [-1i64, 0, 1] {
            let len = (16 * k as i64 + d) as usize;
            let data: Vec<u8> = (0..len).map(|_| if r.chance(7, 8) { 0x80 | (r.u64() as u8) } else { r.u64() as u8 }).collect();
            emit(format!("H m {}", hex_bytes(&data)), &mut out);
        }
    }
    // (ii) every 2-split and 3-split of a 48-byte string, both partitioners' boundaries
    let base: Vec<u8> = (0..48).map(|_| 0x80 | (r.u64() as u8)).collect();
    for i in 0..=48usize {
        for j in i..=48usize {
            let cs = vec![base[..i].to_vec(), base[i..j].to_vec(), base[j..].to_vec()];
            emit(format!("W m {}", chunks_to_string(&cs)), &mut out);
            if j <= 20 {
                emit(format!("W c {}", chunks_to_string(&cs)), &mut out);
            }
        }
    }
    // (iii) all placements of k <= 4 (thorough: 5) key markers among k..k+2 markers
    let kmax = if thorough { 5 } else { 4 };
    for k in 1..=kmax {
        for m in k..=k + 2 {
            let mut all = Vec::new();
            injections(k, m, &mut Vec::new(), &mut all);
            for wire in all {
                let mut vals: Vec<Val> = (0..m).map(|_| gen_nonkey(&mut r)).collect();
                for &i in &wire {
                    let len = r.range(0, 20) as usize;
                    vals[i as usize] = Val::Value(gen_bytes(&mut r, len));
                }
                let p = if r.chance(1, 5) { "c" } else { "m" };
                emit(format!("K {} {:x} {} {}", p, m, hex_list(&wire), values_to_string(&vals)), &mut out);
            }
        }
    }
    // the 2-byte length boundary of composite components, and a long single component
    for len in [65534usize, 65535, 65536, 65537] {
        let big = gen_bytes(&mut r, len);
        emit(format!("K m 2 1,0 V{},V0102", hex_bytes(&big)), &mut out);
        emit(format!("T m V0102,V{}", hex_bytes(&big)), &mut out);
    }
    let big = gen_bytes(&mut r, 65537);
    emit(format!("K m 1 0 V{}", hex_bytes(&big)), &mut out);
    // over-long components at seeded places of permuted composite keys (always present, unlike the
    // 1/4000 giants of the random stream)
    for j in 0..8usize {
        let k = 2 + j % 4;
        let mut wire: Vec<u16> = (0..k as u16).collect();
        r.shuffle(&mut wire);
        let at = r.below(k as u64) as usize;
        let vals: Vec<Val> = (0..k)
            .map(|i| {
                let len = if i == at { 65536 + r.below(300) as usize } else { r.range(0, 30) as usize };
                Val::Value(gen_bytes(&mut r, len))
            })
            .collect();
        emit(format!("K {} {:x} {} {}", if j % 3 == 0 { "c" } else { "m" }, k, hex_list(&wire), values_to_string(&vals)), &mut out);
    }

    // partitioner selection: the class names a table can carry
    for name in ["org.apache.cassandra.dht.Murmur3Partitioner", "com.scylladb.dht.CDCPartitioner",
                 "org.apache.cassandra.dht.RandomPartitioner", "CDCPartitioner", "Murmur3Partitioner", ""] {
        for data in ["0102030405060708090a0b0c0d0e0f10", "80ff", "-"] {
            let n = if name.is_empty() { "V".to_string() } else { format!("V{}", hex_bytes(name.as_bytes())) };
            emit(format!("P {} {}", n, data), &mut out);
        }
    }
    emit("P N 0102030405060708090a0b0c0d0e0f10".to_string(), &mut out);

    // typed keys, token -> shard, end-to-end partitioner lookup
    let ny = (a.n / 20).max(200);
    for _ in 0..ny {
        emit(gen_y_case(&mut r), &mut out);
    }
    for _ in 0..(a.n / 30).max(200) {
        emit(gen_z_case(&mut r), &mut out);
    }
    let ngroups = if thorough { 1500 } else { 300 };
    let mut ecases: Vec<String> = Vec::new();
    for _ in 0..ngroups {
        ecases.extend(gen_e_group(&mut r));
    }
    run_all(&rt, &ecases, &mut out);

    // seeded random part
    for _ in 0..a.n {
        let c = match r.below(20) {
            0..=4 => {
                let p = gen_partitioner(&mut r);
                let len = if p == "c" { r.range(0, 24) as usize } else { gen_len(&mut r, 4096) };
                format!("H {} {}", p, hex_bytes(&gen_bytes(&mut r, len)))
            }
            5..=10 => {
                let p = gen_partitioner(&mut r);
                let len = if p == "c" { r.range(0, 24) as usize } else { gen_len(&mut r, 1024) };
                let data = gen_bytes(&mut r, len);
                let cs = gen_chunking(&mut r, &data);
                format!("W {} {}", p, chunks_to_string(&cs))
            }
            11..=16 => gen_k_case(&mut r),
            17 => gen_p_case(&mut r),
            _ => gen_t_case(&mut r),
        };
        emit(c, &mut out);
    }
    out.finish();
}
