//! Self-test of the less common mocknode features against a real Session (complements
//! mocknode_demo.rs): metadata-id extension, NO_METADATA, UNPREPARED + eviction, USE tracking,
//! Reorder, tablet payload, warnings, typed errors, BATCH, stop/start node, add_node + event.
use scylla::client::session::Session;
use scylla::client::session_builder::SessionBuilder;
use scylla::errors::{DbError, ExecutionError, RequestAttemptError};
use scylla::statement::Statement;
use scylla::statement::batch::Batch;
use std::sync::Arc;
use std::time::{Duration, Instant};
use vh::mocknode::*;

fn check(ok: bool, what: &str) {
    if !ok {
        eprintln!("FAILED: {}", what);
        std::process::exit(1);
    }
    println!("ok: {}", what);
}

async fn wait_until(what: &str, mut f: impl FnMut() -> bool) {
    let t = Instant::now();
    while !f() {
        if t.elapsed() > Duration::from_secs(10) {
            check(false, what);
        }
        tokio::time::sleep(Duration::from_millis(10)).await;
    }
    println!("ok: {}", what);
}

fn executes_of(trace: &[TraceEvent], id: &[u8], ext: bool) -> Vec<ExecuteReq> {
    trace
        .iter()
        .filter_map(|e| match &e.ev {
            Ev::In { opcode, body, .. } if *opcode == op::EXECUTE => wire::decode_execute(body, ext).ok(),
            _ => None,
        })
        .filter(|x| x.id == id)
        .collect()
}

#[tokio::main(flavor = "multi_thread", worker_threads = 4)]
async fn main() {
    let table = TableDef::new("t", &[("pk", CqlType::Int)], &[], &[("v", CqlType::Text)]);
    let mut spec = ClusterSpec::uniform("selftest", &[("dc1", 3)], 1, 4, 2)
        .with_keyspace(KeyspaceDef::simple("ks", 2).with_table(table.clone()))
        .with_keyspace(KeyspaceDef::simple("tab", 1).with_tablets(8).with_table(table.clone()));
    spec.options.metadata_id_ext = true;
    let cluster = MockCluster::start(spec).await.expect("start");
    let session: Session = SessionBuilder::new()
        .known_node_addr(cluster.contact_point(0))
        .cluster_metadata_refresh_interval(Duration::from_secs(600))
        .build()
        .await
        .expect("session");
    wait_until("pools filled (3 nodes x 2 shards + control)", || cluster.connections(None).len() >= 7).await;

    // ---- metadata-id extension, NO_METADATA, new metadata id -----------------------------------
    let select = "SELECT pk, v FROM ks.t WHERE pk = ?";
    let mut pspec = table.prepared("ks", &["pk"], &["pk", "v"]);
    pspec.result_metadata_id = vec![1, 1, 1, 1];
    cluster.on_prepare(select, pspec.clone());
    let mut prepared = session.prepare(select).await.expect("prepare");
    prepared.set_use_cached_result_metadata(true);
    let id = cluster.prepared_id(select);
    check(prepared.get_id().as_ref() == id.as_slice(), "prepared id is the one mocknode reports");
    let cols = pspec.result_columns.clone();
    let row = |v: &str| vec![cell::int(1), cell::text(v)];
    cluster.script(NodeSel::Any, select, vec![Action::Rows(RowsSpec::new(cols.clone(), vec![row("a")]))]);
    let r = session.execute_unpaged(&prepared, (1i32,)).await.expect("exec 1").into_rows_result().unwrap();
    check(r.single_row::<(i32, String)>().unwrap() == (1, "a".to_string()), "row decoded from a NO_METADATA response with cached metadata");
    let tr = cluster.drain_trace();
    let ex = executes_of(&tr, &id, true);
    check(ex.len() == 1 && ex[0].result_metadata_id == Some(vec![1, 1, 1, 1]) && ex[0].params.skip_metadata, "EXECUTE carried result_metadata_id 01010101 and SKIP_METADATA");
    let out_no_meta = tr.iter().any(|e| matches!(&e.ev, Ev::Out { opcode, body, .. } if *opcode == op::RESULT && body.len() >= 8 && body[0..4] == [0, 0, 0, 2] && body[7] & 0x04 != 0));
    check(out_no_meta, "mock answered with the NO_METADATA flag (MetaMode::Auto)");
    // server announces changed metadata: new id + full metadata with a different column type order
    let cols2 = vec![ColSpec::new("ks", "t", "pk", CqlType::Int), ColSpec::new("ks", "t", "v", CqlType::Text), ColSpec::new("ks", "t", "w", CqlType::Int)];
    cluster.script(
        NodeSel::Any,
        select,
        vec![
            Action::Rows(RowsSpec::new(cols2.clone(), vec![vec![cell::int(1), cell::text("b"), cell::int(5)]]).with_meta(MetaMode::NewMetadataId(vec![2, 2, 2, 2]))),
            Action::Rows(RowsSpec::new(cols2.clone(), vec![vec![cell::int(1), cell::text("c"), cell::int(6)]])),
        ],
    );
    let r = session.execute_unpaged(&prepared, (1i32,)).await.expect("exec 2").into_rows_result().unwrap();
    check(r.single_row::<(i32, String, i32)>().unwrap() == (1, "b".to_string(), 5), "row decoded with the NEW metadata of a METADATA_CHANGED response");
    let r = session.execute_unpaged(&prepared, (1i32,)).await.expect("exec 3").into_rows_result().unwrap();
    check(r.single_row::<(i32, String, i32)>().unwrap() == (1, "c".to_string(), 6), "next NO_METADATA response decoded with the updated cached metadata");
    let ex = executes_of(&cluster.drain_trace(), &id, true);
    check(ex.len() == 2 && ex[1].result_metadata_id == Some(vec![2, 2, 2, 2]), "driver sent the new result_metadata_id 02020202 afterwards");

    // ---- UNPREPARED: scripted and by eviction -------------------------------------------------------
    cluster.script(NodeSel::Any, select, vec![Action::Unprepared, Action::Rows(RowsSpec::new(cols2.clone(), vec![vec![cell::int(1), cell::text("d"), cell::int(7)]]).with_meta(MetaMode::Full))]);
    let r = session.execute_unpaged(&prepared, (1i32,)).await.expect("exec after scripted unprepared");
    check(r.into_rows_result().unwrap().rows_num() == 1, "scripted UNPREPARED is repaired transparently (re-PREPARE + EXECUTE)");
    let tr = cluster.drain_trace();
    check(tr.iter().any(|e| e.is_in(op::PREPARE)), "trace shows the re-PREPARE");
    for n in 0..3 {
        cluster.evict_prepared(n, None);
    }
    let r = session.execute_unpaged(&prepared, (1i32,)).await;
    check(r.is_ok(), "after evict_prepared on all nodes the EXECUTE still succeeds (automatic UNPREPARED)");
    let tr = cluster.drain_trace();
    let unprep = tr.iter().any(|e| matches!(&e.ev, Ev::Out { opcode, body, .. } if *opcode == op::ERROR && body[0..4] == [0, 0, 0x25, 0]));
    check(unprep && tr.iter().any(|e| e.is_in(op::PREPARE)), "mock answered UNPREPARED (0x2500) and saw a PREPARE");

    // ---- USE keyspace tracking ---------------------------------------------------------------------------
    session.use_keyspace("ks", false).await.expect("use ks");
    wait_until("every pool connection acked keyspace ks", || {
        cluster.connections(None).iter().filter(|c| c.registered.is_empty()).all(|c| c.keyspace.as_deref() == Some("ks"))
    })
    .await;
    // the keyspace counts as acked only when the SetKeyspace reply has been WRITTEN: with a delayed reply
    // the request frames handled in between still see the old acked keyspace
    {
        use tokio::io::{AsyncReadExt, AsyncWriteExt};
        cluster.script(0, "USE tab", vec![Action::Delay(150), Action::Default]);
        let mut raw = tokio::net::TcpStream::connect(cluster.contact_point(0)).await.expect("raw connect");
        let q = |stream: i16, text: &str| {
            let mut w = wire::W::new();
            w.long_string(text).short(1).u8(0);
            Frame { version: 0x04, flags: 0, stream, opcode: op::QUERY, body: w.done() }.encode()
        };
        let mut startup = wire::W::new();
        startup.short(1).string("CQL_VERSION").string("4.0.0");
        raw.write_all(&Frame { version: 0x04, flags: 0, stream: 0, opcode: op::STARTUP, body: startup.done() }.encode()).await.unwrap();
        raw.write_all(&q(1, "USE ks")).await.unwrap();
        let mut buf = vec![0u8; 4096];
        tokio::time::sleep(Duration::from_millis(50)).await;
        let _ = raw.read(&mut buf).await;
        let seen = Arc::new(std::sync::Mutex::new(Vec::new()));
        let seen2 = seen.clone();
        cluster.set_handler(Some(Arc::new(move |ctx: &ReqCtx| {
            if ctx.text.as_deref() == Some("SELECT probe") {
                seen2.lock().unwrap().push((ctx.keyspace.clone(), ctx.requested_keyspace.clone()));
            }
            None
        })));
        raw.write_all(&q(2, "USE tab")).await.unwrap(); // reply delayed by 150 ms
        raw.write_all(&q(3, "SELECT probe")).await.unwrap(); // overtakes the ack
        tokio::time::sleep(Duration::from_millis(60)).await;
        let mine = cluster.connections(Some(0)).into_iter().find(|c| c.requested_keyspace.as_deref() == Some("tab")).expect("raw conn");
        check(mine.keyspace.as_deref() == Some("ks"), "ConnInfo.keyspace is still the old acked keyspace while the USE reply is delayed");
        tokio::time::sleep(Duration::from_millis(200)).await;
        raw.write_all(&q(4, "SELECT probe")).await.unwrap();
        tokio::time::sleep(Duration::from_millis(50)).await;
        let mine = cluster.connections(Some(0)).into_iter().find(|c| c.conn_id == mine.conn_id).unwrap();
        check(mine.keyspace.as_deref() == Some("tab"), "ConnInfo.keyspace changed when the SetKeyspace reply was written");
        let s = seen.lock().unwrap().clone();
        check(
            s == vec![(Some("ks".to_string()), Some("tab".to_string())), (Some("tab".to_string()), Some("tab".to_string()))],
            "ReqCtx.keyspace = acked (old) for the request that overtook the ack, requested_keyspace = new",
        );
        cluster.set_handler(None);
        drop(raw);
    }
    let e = session.use_keyspace("nope", false).await;
    check(e.is_err(), "USE of a keyspace that is not in the description fails (Invalid)");
    // NOTE (driver behaviour observed here): a failed use_keyspace leaves the pools' target keyspace
    // at the bad name, so every NEW connection is set up with `USE nope`, fails and is discarded
    // (a node that reconnects later never gets a pool back) until a use_keyspace succeeds again.
    session.use_keyspace("ks", false).await.expect("use ks again");

    // ---- Reorder: replies swapped on one connection -----------------------------------------------------
    let q = |m: i32| format!("SELECT v FROM ks.t WHERE pk = {}", m);
    let vcol = vec![ColSpec::new("ks", "t", "v", CqlType::Text)];
    cluster.set_handler(Some(Arc::new({
        let vcol = vcol.clone();
        move |ctx: &ReqCtx| {
            let t = ctx.text.as_deref()?;
            let m: i32 = t.strip_prefix("SELECT v FROM ks.t WHERE pk = ")?.parse().ok()?;
            let rows = Action::Rows(RowsSpec::new(vcol.clone(), vec![vec![cell::text(&format!("m{}", m))]]));
            Some(if m == 100 { vec![Action::Reorder(1), rows] } else { vec![rows] })
        }
    })));
    // both on node 0 / same connection is not guaranteed; Reorder falls back to its 2 s max hold then
    let s1 = session.query_unpaged(Statement::new(q(100)), ());
    let s2 = async {
        tokio::time::sleep(Duration::from_millis(20)).await;
        session.query_unpaged(Statement::new(q(101)), ()).await
    };
    let (r1, r2) = tokio::join!(s1, s2);
    let v1 = r1.unwrap().into_rows_result().unwrap().single_row::<(String,)>().unwrap().0;
    let v2 = r2.unwrap().into_rows_result().unwrap().single_row::<(String,)>().unwrap().0;
    check(v1 == "m100" && v2 == "m101", "reordered replies reach their own requests");
    cluster.set_handler(None);

    // ---- typed error, warnings, tablet payload, batch -------------------------------------------------
    let ins = "INSERT INTO tab.t (pk, v) VALUES (?, ?)";
    cluster.on_prepare(ins, table.prepared("tab", &["pk", "v"], &[]));
    let pins = session.prepare(ins).await.expect("prepare insert");
    cluster.script(
        NodeSel::Any,
        ins,
        vec![
            Action::Error(ErrorSpec::new(DbErr::WriteTimeout { consistency: 6, received: 1, required: 2, write_type: "SIMPLE".into() }, "scripted wt")),
            Action::Warnings(vec!["careful".into()]),
            Action::TabletPayload(tablet_payload_value(-100, 100, &[(host_id_for(1), 1), (host_id_for(2), 0)])),
            Action::Void,
        ],
    );
    let e = session.execute_unpaged(&pins, (3i32, "x")).await;
    let wt = matches!(&e, Err(ExecutionError::LastAttemptError(RequestAttemptError::DbError(DbError::WriteTimeout { received: 1, required: 2, .. }, m))) if m == "scripted wt");
    check(wt, "WriteTimeout with its fields reached the caller");
    let r = session.execute_unpaged(&pins, (3i32, "x")).await.expect("insert with payload");
    check(r.warnings().any(|w| w == "careful"), "warning delivered; response with tablet payload accepted");
    let mut b = Batch::default();
    b.append_statement(pins.clone());
    b.append_statement("INSERT INTO ks.t (pk, v) VALUES (9, 'q')");
    check(session.batch(&b, ((1i32, "a"), ())).await.is_ok(), "BATCH answered Void");
    let tr = cluster.drain_trace();
    let batch = tr.iter().find_map(|e| match &e.ev {
        Ev::In { opcode, body, .. } if *opcode == op::BATCH => wire::decode_batch(body).ok(),
        _ => None,
    });
    check(batch.is_some_and(|b| b.statements.len() == 2 && matches!(&b.statements[0], BatchStmt::Prepared { values, .. } if values.len() == 2)), "BATCH body decoded: prepared + query statement");

    // ---- RawFill: a streamed 3 MB blob cell that is never materialised by the mock ------------------
    const L: usize = 3_000_000;
    cluster.set_handler(Some(Arc::new(|ctx: &ReqCtx| {
        if ctx.text.as_deref() != Some("SELECT big FROM ks.t") {
            return None;
        }
        let spec = RowsSpec::new(vec![ColSpec::new("ks", "t", "big", CqlType::Blob)], vec![vec![cell::blob(&[])]]).with_meta(MetaMode::Full);
        let mut body = types::body_result_rows(&spec, false);
        let n = body.len();
        body[n - 4..].copy_from_slice(&(L as i32).to_be_bytes());
        let mut head = Frame::response(ctx.stream, op::RESULT, vec![]).encode();
        head[5..9].copy_from_slice(&((body.len() + L) as u32).to_be_bytes());
        head.extend_from_slice(&body);
        Some(vec![Action::RawFill { head, fill_len: L as u64, seed: 7, inserts: vec![(65534, vec![1, 2, 3, 4])], tail: vec![] }])
    })));
    let big = session.query_unpaged("SELECT big FROM ks.t", ()).await.expect("big").into_rows_result().unwrap().single_row::<(Vec<u8>,)>().unwrap().0;
    let mut expect: Vec<u8> = (0..L).map(|i| ((i + 7) % 251) as u8).collect();
    expect[65534..65538].copy_from_slice(&[1, 2, 3, 4]);
    check(big == expect, "RawFill streamed a 3 MB cell with the documented pattern and an insert across a chunk boundary");
    let tr = cluster.drain_trace();
    check(tr.iter().any(|e| matches!(&e.ev, Ev::RawFillOut { fill_len, seed: 7, .. } if *fill_len == L as u64)), "trace holds the RawFillOut description, not the bytes");
    cluster.set_handler(None);

    // ---- stop / start a node, add a node ----------------------------------------------------------------
    cluster.stop_node(2, CutKind::Rst);
    wait_until("node 2 has no connections after stop_node", || cluster.connections(Some(2)).is_empty()).await;
    check(session.query_unpaged("SELECT v FROM ks.t WHERE pk = 1", ()).await.is_ok(), "session works with node 2 down");
    cluster.start_node(2).await.expect("restart");
    cluster.push_event(None, wire::body_event_status_change(true, cluster.ip(2), 9042));
    check(!cluster.is_down(2), "node 2 listens again");
    let probe = tokio::net::TcpStream::connect(cluster.contact_point(2)).await;
    check(probe.is_ok(), "a plain TCP connect to node 2 succeeds");
    drop(probe);
    wait_until("driver reconnected to node 2 after start_node", || cluster.connections(Some(2)).iter().any(|c| c.requests > 0 || c.shard_aware_port)).await;
    let idx = cluster.add_node(NodeSpec::new(3, "dc1", "r1", vec![12345, -98765], 2)).await.expect("add node");
    cluster.push_event(None, wire::body_event_topology_change(true, cluster.ip(idx), 9042));
    session.refresh_metadata().await.expect("refresh");
    check(session.get_cluster_state().get_nodes_info().len() == 4, "driver sees the added node after NEW_NODE + refresh");
    wait_until("driver opened connections to the added node", || !cluster.connections(Some(idx)).is_empty()).await;
    // ---- remove a node; DC-less / rack-less node ---------------------------------------------------------
    cluster.remove_node(1, CutKind::Rst);
    cluster.set_node_location(2, false, false);
    cluster.push_event(None, wire::body_event_topology_change(false, cluster.ip(1), 9042));
    session.refresh_metadata().await.expect("refresh after removal");
    let st = session.get_cluster_state();
    check(st.get_nodes_info().len() == 3, "driver dropped the removed node after refresh (4 -> 3 nodes)");
    let n2 = st.get_nodes_info().iter().find(|n| n.address.ip() == cluster.ip(2)).cloned();
    check(n2.is_some_and(|n| n.datacenter.is_none() && n.rack.is_none()), "node with null data_center / rack cells has no DC and no rack in the driver");
    drop(session);
    cluster.shutdown();
    println!("selftest passed");
}
