//! C02 runner (state-machine tie): drives the REAL `ResponseHandlerMap` (stream-id bitmap,
//! handlers, request-id map, orphanage) through the hook `scylla::client::verif_streams` with
//! generated operation sequences and writes "<kind> <ops…> | <results…> <final state…>" lines
//! for the extracted model.
//!
//! ops      a<rid>.<tok>  allocate        -> s<sid> | f<tok given back> | panic
//!          o<rid>        orphan          -> -
//!          l<sid>        lookup          -> O | H<rid>.<tok> | M
//!          p<tok>        is the sender of <tok> still held by the map -> 1 | 0
//!          F<n>.<rid0>   n allocations with rid = tok = rid0+i   (expanded, n results)
//!          D<k>.<start>.<stride>  k lookups of (start + i*stride) mod 32768 (expanded)
//!          (runs of >= 3 results s<k> s<k+1> … are written S<k>.<count>)
//!          w<ms>         (kind T only) real time passes: sleep   -> -
//!          c             (kind T only) old_orphans_count()       -> n<count>
//!   kind T (timed): after the final state `K=<lo>.<hi>,…`: clock readings (ns since the case started)
//!          taken before and after every `o` and `c` operation, in order
//! End-to-end and reader kinds (P, R, N, S, X, K, G, O) are produced by ../c02_e2e.rs.
//! final    H=sid:rid:tok,…  into_handlers (sorted)   W=idx:word,…  non-zero bitmap words
//!          R=rid:sid,…  request_to_stream   O=sid,…  orphanage keys   B=len(by_orphaning_times)
//!          L=len(bitmap)
//! All numbers are lower-case hex.
use scylla::client::verif_streams::{VerifHandlerMap, VerifLookup};
use std::collections::{BTreeMap, BTreeSet};
use vh::*;

#[path = "../c02_e2e.rs"]
mod e2e;

#[derive(Clone, Copy, Debug)]
enum Op {
    Alloc(u64, u64),
    Orphan(u64),
    Lookup(i16),
    Probe(u64),
    Wait(u64),
    Count,
}

fn hx(s: &str) -> u64 {
    u64::from_str_radix(s, 16).expect("hex")
}

/// Expand the textual ops of a case (after the kind token) into elementary operations.
fn parse_ops(toks: &[&str]) -> Vec<Op> {
    let mut v = Vec::new();
    for t in toks {
        let (c, rest) = t.split_at(1);
        let parts: Vec<&str> = rest.split('.').collect();
        match c {
            "a" => v.push(Op::Alloc(hx(parts[0]), hx(parts[1]))),
            "o" => v.push(Op::Orphan(hx(parts[0]))),
            "l" => v.push(Op::Lookup(hx(parts[0]) as i16)),
            "p" => v.push(Op::Probe(hx(parts[0]))),
            "w" => v.push(Op::Wait(hx(parts[0]))),
            "c" => v.push(Op::Count),
            "F" => {
                let (n, r0) = (hx(parts[0]), hx(parts[1]));
                for i in 0..n {
                    v.push(Op::Alloc(r0 + i, r0 + i));
                }
            }
            "D" => {
                let (k, start, stride) = (hx(parts[0]), hx(parts[1]), hx(parts[2]));
                for i in 0..k {
                    v.push(Op::Lookup(((start + i * stride) % 32768) as i16));
                }
            }
            _ => panic!("bad op {t}"),
        }
    }
    v
}

fn apply(m: &mut VerifHandlerMap, op: Op) -> String {
    match op {
        Op::Alloc(rid, tok) => match m.allocate(rid, tok) {
            Ok(sid) => format!("s{:x}", sid),
            Err(t) => format!("f{:x}", t),
        },
        Op::Orphan(rid) => {
            m.orphan(rid);
            "-".into()
        }
        Op::Lookup(sid) => match m.lookup(sid) {
            VerifLookup::Orphaned => "O".into(),
            VerifLookup::Missing => "M".into(),
            VerifLookup::Handler { request_id, token } => format!("H{:x}.{:x}", request_id, token),
        },
        Op::Probe(tok) => (if m.is_pending(tok) { "1" } else { "0" }).into(),
        Op::Wait(ms) => {
            std::thread::sleep(std::time::Duration::from_millis(ms));
            "-".into()
        }
        Op::Count => format!("n{:x}", m.old_orphans_count()),
    }
}

/// Runs of >= 3 allocation results with consecutive ids `s<k> s<k+1> …` are written `S<k>.<count>`
/// (the driver applies the same compression to the model's results).
fn compress(v: Vec<String>) -> Vec<String> {
    let sid = |t: &String| -> Option<u64> {
        if t.len() > 1 && t.starts_with('s') { u64::from_str_radix(&t[1..], 16).ok() } else { None }
    };
    let mut out = Vec::with_capacity(v.len());
    let mut i = 0;
    while i < v.len() {
        if let Some(k) = sid(&v[i]) {
            let mut j = i + 1;
            while j < v.len() && sid(&v[j]) == Some(k + (j - i) as u64) {
                j += 1;
            }
            if j - i >= 3 {
                out.push(format!("S{:x}.{:x}", k, j - i));
                i = j;
                continue;
            }
        }
        out.push(v[i].clone());
        i += 1;
    }
    out
}

fn join<T>(v: &[T], f: impl Fn(&T) -> String) -> String {
    if v.is_empty() { "-".into() } else { v.iter().map(f).collect::<Vec<_>>().join(",") }
}

fn run_case(case: &str) -> String {
    let f: Vec<&str> = case.split_whitespace().collect();
    let ops = parse_ops(&f[1..]);
    let mut out: Vec<String> = Vec::with_capacity(ops.len() + 6);
    let mut m = VerifHandlerMap::new();
    let timed = f[0] == "T";
    let t0 = std::time::Instant::now();
    let mut stamps: Vec<String> = Vec::new();
    for op in ops {
        let stamped = timed && matches!(op, Op::Orphan(_) | Op::Count);
        let lo = t0.elapsed().as_nanos();
        let r = catch(std::panic::AssertUnwindSafe(|| apply(&mut m, op)));
        if stamped {
            stamps.push(format!("{:x}.{:x}", lo, t0.elapsed().as_nanos()));
        }
        match r {
            Ok(s) => out.push(s),
            Err(_) => {
                out.push("panic".into());
                out.push("X=panic".into());
                return compress(out).join(" ");
            }
        }
    }
    let mut out = compress(out);
    let fin = catch(std::panic::AssertUnwindSafe(|| {
        let snap = m.snapshot();
        let h = m.into_handlers();
        (snap, h)
    }));
    match fin {
        Ok((snap, h)) => {
            out.push(format!("H={}", join(&h, |(s, r, t)| format!("{:x}:{:x}:{:x}", s, r, t))));
            out.push(format!("W={}", join(&snap.bitmap_nonzero, |(i, w)| format!("{:x}:{:x}", i, w))));
            out.push(format!("R={}", join(&snap.request_to_stream, |(r, s)| format!("{:x}:{:x}", r, s))));
            out.push(format!("O={}", join(&snap.orphans, |s| format!("{:x}", s))));
            out.push(format!("B={:x}", snap.by_orphaning_times_len));
            out.push(format!("L={:x}", snap.bitmap_len));
            // the key set of `handlers` before into_handlers must be the key set it returns
            let keys: Vec<i16> = h.iter().map(|x| x.0).collect();
            if keys != snap.handler_ids {
                out.push("X=handler-keys-differ".into());
            }
            if timed {
                out.push(format!("K={}", if stamps.is_empty() { "-".to_string() } else { stamps.join(",") }));
            }
        }
        Err(_) => out.push("X=panic".into()),
    }
    out.join(" ")
}

// ------------------------------------------------------------------ generators

/// What the generator knows from the real results so far (only used to aim the next op).
struct Shadow {
    m: VerifHandlerMap,
    live_sids: BTreeSet<i16>,        // allocated, not yet looked up
    live_rids: Vec<u64>,             // request ids with a handler believed to be in the map
    old_rids: Vec<u64>,              // request ids used earlier
    freed: Vec<i16>,                 // ids looked up already
    toks: Vec<u64>,
    next_rid: u64,
    next_tok: u64,
    sid_of: BTreeMap<u64, i16>,
}

impl Shadow {
    fn new() -> Self {
        Shadow {
            m: VerifHandlerMap::new(),
            live_sids: BTreeSet::new(),
            live_rids: vec![],
            old_rids: vec![],
            freed: vec![],
            toks: vec![],
            next_rid: 1,
            next_tok: 0x100,
            sid_of: BTreeMap::new(),
        }
    }
    fn exec(&mut self, op: Op) {
        match op {
            Op::Alloc(rid, tok) => {
                self.toks.push(tok);
                if let Ok(sid) = self.m.allocate(rid, tok) {
                    self.live_sids.insert(sid);
                    self.live_rids.push(rid);
                    self.sid_of.insert(rid, sid);
                }
            }
            Op::Orphan(rid) => {
                self.m.orphan(rid);
                self.live_rids.retain(|r| *r != rid);
                self.old_rids.push(rid);
            }
            Op::Lookup(sid) => {
                if let VerifLookup::Handler { request_id, .. } = self.m.lookup(sid) {
                    self.live_rids.retain(|r| *r != request_id);
                    self.old_rids.push(request_id);
                }
                if self.live_sids.remove(&sid) {
                    self.freed.push(sid);
                }
            }
            Op::Probe(tok) => {
                let _ = self.m.is_pending(tok);
            }
            Op::Wait(_) | Op::Count => {}
        }
    }
    fn bulk_fill(&mut self, n: u64) -> String {
        let r0 = self.next_rid;
        for i in 0..n {
            self.exec(Op::Alloc(r0 + i, r0 + i));
        }
        self.next_rid += n;
        self.next_tok = self.next_tok.max(self.next_rid + 0x100);
        format!("F{:x}.{:x}", n, r0)
    }
}

fn op_text(op: Op) -> String {
    match op {
        Op::Alloc(r, t) => format!("a{:x}.{:x}", r, t),
        Op::Orphan(r) => format!("o{:x}", r),
        Op::Lookup(s) => format!("l{:x}", s),
        Op::Probe(t) => format!("p{:x}", t),
        Op::Wait(ms) => format!("w{:x}", ms),
        Op::Count => "c".into(),
    }
}

fn pick_sid(r: &mut Rng, sh: &Shadow, near: Option<i16>) -> i16 {
    let live: Vec<i16> = sh.live_sids.iter().copied().collect();
    match r.below(20) {
        0..=12 if !live.is_empty() => {
            if let Some(c) = near {
                // a live id close to a word boundary / the top of the filled region
                let lo = c.saturating_sub(70).max(0);
                let cand: Vec<i16> = sh.live_sids.range(lo..=c.saturating_add(3)).copied().collect();
                if !cand.is_empty() {
                    return *r.pick(&cand);
                }
            }
            *r.pick(&live)
        }
        13..=15 if !sh.freed.is_empty() => *r.pick(&sh.freed), // stale: already answered
        16 => *r.pick(&[0i16, 1, 62, 63, 64, 65, 127, 128, 32703, 32704, 32766, 32767]),
        17 => live.last().map(|s| s.saturating_add(1)).unwrap_or(0), // just above the top
        _ => r.below(32768) as i16,                                  // most likely never allocated
    }
}

fn gen_random_op(r: &mut Rng, sh: &mut Shadow, near: Option<i16>) -> Op {
    match r.below(100) {
        0..=39 => {
            let rid = match r.below(20) {
                0 if !sh.live_rids.is_empty() => *r.pick(&sh.live_rids), // duplicate of a live request id
                1 if !sh.old_rids.is_empty() => *r.pick(&sh.old_rids),   // request id used before
                _ => {
                    sh.next_rid += 1;
                    sh.next_rid - 1
                }
            };
            sh.next_tok += 1;
            Op::Alloc(rid, sh.next_tok - 1)
        }
        40..=54 => {
            let rid = match r.below(20) {
                0..=13 if !sh.live_rids.is_empty() => *r.pick(&sh.live_rids),
                14..=16 if !sh.old_rids.is_empty() => *r.pick(&sh.old_rids), // late notice
                17 => sh.next_rid + r.below(3),                              // not yet allocated
                _ => r.below(sh.next_rid + 2),
            };
            Op::Orphan(rid)
        }
        55..=91 => Op::Lookup(pick_sid(r, sh, near)),
        _ => {
            let tok = if !sh.toks.is_empty() && r.chance(9, 10) { *r.pick(&sh.toks) } else { r.below(0x400) };
            Op::Probe(tok)
        }
    }
}

fn gen_random_case(r: &mut Rng, kind: &str, prefill: u64, len: usize) -> String {
    let mut sh = Shadow::new();
    let mut toks: Vec<String> = vec![kind.to_string()];
    let mut near = None;
    if prefill > 0 {
        toks.push(sh.bulk_fill(prefill));
        near = Some((prefill.min(32767)) as i16);
    }
    for _ in 0..len {
        let op = gen_random_op(r, &mut sh, near);
        toks.push(op_text(op));
        sh.exec(op);
    }
    toks.join(" ")
}

/// All sequences of length <= maxlen over a 9-letter alphabet (2 request ids, 3 stream ids).
fn gen_exhaustive(maxlen: usize, emit: &mut dyn FnMut(String)) {
    // allocate tokens are made distinct by position: tok = 0x10 + position
    let alpha = ["a1", "a2", "o1", "o2", "o3", "l0", "l1", "l2", "p10"];
    let mut idx: Vec<usize> = vec![];
    loop {
        // emit current
        if !idx.is_empty() {
            let mut toks = vec!["E".to_string()];
            for (pos, &i) in idx.iter().enumerate() {
                let a = alpha[i];
                if a.starts_with('a') {
                    toks.push(format!("{}.{:x}", a, 0x10 + pos));
                } else {
                    toks.push(a.to_string());
                }
            }
            emit(toks.join(" "));
        }
        // next
        if idx.len() < maxlen {
            idx.push(0);
            continue;
        }
        loop {
            match idx.pop() {
                None => return,
                Some(i) if i + 1 < alpha.len() => {
                    idx.push(i + 1);
                    break;
                }
                Some(_) => {}
            }
        }
    }
}

fn gen_full(r: &mut Rng, fill: u64) -> String {
    // fill `fill` ids (32768 = everything), over-allocate, orphan some, drain in a scattered
    // order that visits every id once (odd stride), re-allocate in between
    let mut toks = vec!["Z".to_string()];
    toks.push(format!("F{:x}.{:x}", fill, 1));
    let extra = r.range(1, 3);
    for i in 0..extra {
        toks.push(format!("a{:x}.{:x}", 0x10000 + i, 0x10000 + i));
    }
    for _ in 0..r.range(3, 40) {
        toks.push(format!("o{:x}", r.range(1, fill + 2)));
    }
    let stride = r.range(0, 16383) * 2 + 1;
    let start = r.below(32768);
    let k1 = r.range(1, 32768);
    toks.push(format!("D{:x}.{:x}.{:x}", k1, start, stride));
    let re = r.range(1, 200).min(k1);
    toks.push(format!("F{:x}.{:x}", re, 0x20000));
    for _ in 0..10 {
        toks.push(format!("l{:x}", r.below(32768)));
        toks.push(format!("o{:x}", 0x20000 + r.below(re)));
    }
    toks.push(format!("D{:x}.{:x}.{:x}", 32768 - k1, (start + k1 * stride) % 32768, stride));
    toks.push(format!("a{:x}.{:x}", 0x30000, 0x30000));
    toks.join(" ")
}

/// Timed cases: real time passes between orphaning and the next allocation.  With all ids in use an
/// allocation must fail however old the orphans are; old_orphans_count is compared through the
/// bracket of the runner's clock readings.
fn gen_timed(r: &mut Rng, variant: u64) -> String {
    let mut t = vec!["T".to_string()];
    let pick_rids = |r: &mut Rng, kr: (u64, u64), lo: u64, hi: u64| -> Vec<u64> {
        let k = r.range(kr.0, kr.1);
        let mut v: Vec<u64> = Vec::new();
        while (v.len() as u64) < k {
            let x = r.range(lo, hi);
            if !v.contains(&x) {
                v.push(x);
            }
        }
        v
    };
    let mut next = 0x10000u64;
    let mut alloc = |t: &mut Vec<String>| {
        t.push(format!("a{:x}.{:x}", next, next));
        next += 1;
    };
    match variant {
        0 => {
            // exhaust, orphan, wait > 1 s, allocate (must fail), answer one orphan, allocate (that id), allocate (fail)
            t.push("F8000.1".into());
            let a = pick_rids(r, (3, 40), 1, 32768);
            for x in &a {
                t.push(format!("o{:x}", x));
            }
            t.push("w4b0".into());
            alloc(&mut t);
            alloc(&mut t);
            t.push("c".into());
            t.push(format!("l{:x}", a[0] - 1));
            alloc(&mut t);
            alloc(&mut t);
            t.push("c".into());
        }
        1 => {
            // old and young orphans
            t.push("F8000.1".into());
            let a = pick_rids(r, (3, 30), 1, 16000);
            let b = pick_rids(r, (3, 30), 16001, 32768);
            for x in &a {
                t.push(format!("o{:x}", x));
            }
            t.push("w4b0".into());
            for x in &b {
                t.push(format!("o{:x}", x));
            }
            t.push("c".into());
            alloc(&mut t);
            t.push(format!("l{:x}", b[0] - 1));
            t.push(format!("l{:x}", a[0] - 1));
            alloc(&mut t);
            alloc(&mut t);
            alloc(&mut t);
            t.push("c".into());
        }
        2 => {
            // staggered: 600 ms + 600 ms
            t.push("F8000.1".into());
            let a = pick_rids(r, (3, 20), 1, 16000);
            let b = pick_rids(r, (3, 20), 16001, 32768);
            for x in &a {
                t.push(format!("o{:x}", x));
            }
            t.push("w258".into());
            for x in &b {
                t.push(format!("o{:x}", x));
            }
            t.push("w258".into());
            t.push("c".into());
            alloc(&mut t);
            t.push("w1f4".into());
            t.push("c".into());
            alloc(&mut t);
        }
        3 => {
            // one id left
            t.push("F7fff.1".into());
            let a = pick_rids(r, (3, 20), 1, 32767);
            for x in &a {
                t.push(format!("o{:x}", x));
            }
            t.push("w44c".into());
            alloc(&mut t);
            alloc(&mut t);
            t.push("c".into());
        }
        4 => {
            // control: no time passes
            t.push("F8000.1".into());
            let a = pick_rids(r, (3, 40), 1, 32768);
            for x in &a {
                t.push(format!("o{:x}", x));
            }
            alloc(&mut t);
            t.push("c".into());
        }
        _ => {
            // small map, short random sleeps, many probes of the count
            t.push("F64.1".into());
            let mut budget = 1300u64;
            for _ in 0..r.range(10, 40) {
                match r.below(6) {
                    0 | 1 => t.push(format!("o{:x}", r.range(1, 100))),
                    2 => t.push(format!("l{:x}", r.below(100))),
                    3 => alloc(&mut t),
                    4 => t.push("c".into()),
                    _ => {
                        let ms = r.range(0, 400).min(budget);
                        budget -= ms;
                        t.push(format!("w{:x}", ms));
                    }
                }
            }
            t.push("c".into());
        }
    }
    t.join(" ")
}

/// runs the cases on `threads` worker threads; results in the order of the cases
fn run_parallel(cases: Vec<String>, threads: usize) -> Vec<(String, String)> {
    let n = cases.len();
    let next = std::sync::atomic::AtomicUsize::new(0);
    let results: std::sync::Mutex<Vec<Option<String>>> = std::sync::Mutex::new(vec![None; n]);
    std::thread::scope(|sc| {
        for _ in 0..threads.min(n).max(1) {
            sc.spawn(|| {
                loop {
                    let i = next.fetch_add(1, std::sync::atomic::Ordering::SeqCst);
                    if i >= n {
                        break;
                    }
                    let c = &cases[i];
                    let o = match catch(std::panic::AssertUnwindSafe(|| e2e::run_case(c).unwrap_or_else(|| run_case(c)))) {
                        Ok(o) => o,
                        Err(e) => format!("runner-panic {}", e.replace(' ', "_")),
                    };
                    results.lock().unwrap()[i] = Some(o);
                }
            });
        }
    });
    let res = results.into_inner().unwrap();
    cases.into_iter().zip(res.into_iter().map(|x| x.unwrap_or_else(|| "runner-missing".into()))).collect()
}

fn main() {
    quiet_panics();
    let a = parse_args();
    if let Some(i) = a.extra.iter().position(|x| x == "--case") {
        // development aid: run one case, print the line
        let c = a.extra[i + 1].clone();
        let t = std::time::Instant::now();
        let o = e2e::run_case(&c).unwrap_or_else(|| run_case(&c));
        eprintln!("{} ms, {} bytes", t.elapsed().as_millis(), o.len());
        println!("{} | {}", c, o);
        return;
    }
    let mut out = Out::create(&a.out);
    if let Some(rp) = &a.replay {
        for c in read_cases(rp) {
            let o = e2e::run_case(&c).unwrap_or_else(|| run_case(&c));
            out.case(&c, &o);
        }
        out.finish();
        return;
    }
    let thorough = a.tier == "thorough";
    let mut r = Rng::new(a.seed);
    let mut budget = a.n as i64;
    let mut cases: Vec<String> = Vec::new();

    // 1. exhaustive small sequences
    gen_exhaustive(if thorough { 6 } else { 4 }, &mut |c| cases.push(c));
    // 2. full / large fills
    let fills: Vec<u64> = if thorough { vec![32768, 32768, 32768, 32767, 4096] } else { vec![32768, 1024] };
    for f in fills {
        cases.push(gen_full(&mut r, f));
    }
    budget -= cases.len() as i64;
    // 3. boundary cases: prefilled so that whole words are full, then random ops near the top
    let nb = (budget / 4).max(0);
    for _ in 0..nb {
        let prefill = match r.below(8) {
            0 => *r.pick(&[62u64, 63, 64, 65, 126, 127, 128, 129, 191, 192, 193, 255, 256, 257]),
            1 => r.range(1, 64),
            2 => 64 * r.range(1, 12),
            3 => 64 * r.range(1, 12) - 1,
            4 => r.range(1, 800),
            _ => r.range(1, 130),
        };
        let len = r.range(1, 60) as usize;
        cases.push(gen_random_case(&mut r, "B", prefill, len));
    }
    budget -= nb;
    // 4. random sequences from the empty map
    for _ in 0..budget.max(0) {
        let len = match r.below(10) {
            0 => r.range(1, 6),
            1..=6 => r.range(6, 40),
            _ => r.range(40, 60),
        } as usize;
        cases.push(gen_random_case(&mut r, "Q", 0, len));
    }
    // 5. timed state-machine cases, end-to-end scenarios and reader cases: their own threads, started
    //    first so that the sleeps overlap with the sequential state-machine cases
    let mut par: Vec<String> = Vec::new();
    // the heavy ones first
    let nx = if thorough { 10 } else { 2 };
    for k in 0..nx {
        let (old, young) = match k % 3 {
            0 => (r.range(20, 300), r.range(0, 100)),
            1 => (r.range(1, 10), r.range(0, 5)),
            _ => (r.range(100, 900), 0),
        };
        par.push(format!("X {} 32768 {} {} {} {} {}", r.below(1 << 30), r.range(1, 6), old, young, r.range(1100, 1400), 2600));
    }
    par.push(format!("G {} {} {}", r.below(1 << 30), r.range(2, 12), e2e::BIG));
    par.push(format!("G {} {} {}", r.below(1 << 30), r.range(2, 12), (256u64 << 20) + r.range(100, 200000)));
    if thorough {
        for _ in 0..5 {
            par.push(format!("G {} {} {}", r.below(1 << 30), r.range(2, 40), (256u64 << 20) + r.range(100, 200000)));
        }
        par.push(format!("X {} 32767 3 50 10 1200 2600", r.below(1 << 30)));
    }
    let nt = if thorough { 18 } else { 6 };
    for k in 0..nt {
        par.push(gen_timed(&mut r, k % 6));
    }
    let (np, nr) = if thorough { (150, 450) } else { (16, 32) };
    for k in 0..np {
        let n = match k % 4 {
            0 => 2000,
            1 => r.range(1025, 2000),
            2 => r.range(200, 1024),
            _ => r.range(2, 200),
        };
        par.push(format!("P {} {}", r.below(1 << 30), n));
    }
    for k in 0..nr {
        let n = match k % 4 {
            0 => 2000,
            1 => r.range(1000, 2000),
            2 => r.range(100, 1000),
            _ => r.range(1, 100),
        };
        par.push(format!("R {} {} {}", r.below(1 << 30), n, r.range(1, 3)));
    }
    // N: like R, with answers on negative stream ids; K: the orphaner's threshold (1024 old orphans)
    for k in 0..(if thorough { 60 } else { 8 }) {
        let n = if k % 2 == 0 { 2000 } else { r.range(50, 2000) };
        par.push(format!("N {} {} {}", r.below(1 << 30), n, r.range(1, 3)));
    }
    // S: submit storm, up to 900 callers aborted within 3 ms while 1500-2000 submissions race for the channel
    for _ in 0..(if thorough { 60 } else { 8 }) {
        par.push(format!("S {} {}", r.below(1 << 30), r.range(1500, 2000)));
    }
    let ks: Vec<u64> = if thorough { vec![1025, 1024, 1100, 1000, 1026, 1023, 1500, 30, 1025, 1024] } else { vec![1025, 1024, 1200, 1000, 1020] };
    for (i, a) in ks.iter().enumerate() {
        // put them early: they take `hold` seconds
        par.insert(i.min(par.len()), format!("K {} {} {} 4500", r.below(1 << 30), a, r.range(1, 60)));
    }
    let big: Vec<u64> = if thorough { vec![e2e::BIG, (256 << 20) + 1, 256 << 20, (256 << 20) + 9, (300 << 20) + 12345] } else { vec![e2e::BIG] };
    par.extend(e2e::gen_reader_cases(&mut r, if thorough { 3000 } else { 300 }, &big));
    let handle = std::thread::spawn(move || run_parallel(par, 5));
    for c in cases {
        let o = run_case(&c);
        out.case(&c, &o);
    }
    for (c, o) in handle.join().expect("parallel part") {
        out.case(&c, &o);
    }
    out.finish();
}
