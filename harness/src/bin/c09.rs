//! C09 runner: generates abstract CQL requests from the seed, builds the REAL request structs of
//! scylla-cql, calls `SerializedRequest::make(..).get_data()` (and, for compressed frames, the
//! real `decompress` on the real body) and writes "<case> | <observed>" lines for the extracted
//! model.  No hook is needed: everything used here is public in scylla-cql.
//!
//! Case syntax (one line, blank-separated fields):
//!   Q <comp> <tr> <text> <qparams>                 QUERY
//!   P <comp> <tr> <text>                           PREPARE
//!   E <comp> <tr> <ver> <id> <mid|N> <qparams>     EXECUTE (ver 1 = deprecated Execute, 2 = ExecuteV2)
//!   B <comp> <tr> <mode> <type> <cons> <serial> <ts> <stmts> <vals>     BATCH
//!   S <comp> <tr> <entries>                        STARTUP
//!   R <comp> <tr> <ver> <events>                   REGISTER (ver 1 = Register, 2 = RegisterV2)
//!   O <comp> <tr>                                  OPTIONS
//!   A <comp> <tr> <token|N>                        AUTH_RESPONSE
//!   L <n> <textlen>                                uncompressed BATCH of n identical unprepared statements of
//!                                                  textlen bytes, empty value lists: only sizes are reported
//!                                                  (`len <body size> <header length field>` or the refusal
//!                                                  `err body-too-long <size>`), used for bodies around 4 GiB
//!                                                  (fixed finding F19 frame-len32-wrap, /repo a9f519c);
//!                                                  `skipped` when the machine has too little free memory
//! comp: n | l | s;  tr: 0 | 1
//! byte string: "-" (empty) | hex pairs | x<hh>^<count-hex> (one byte repeated)
//! qparams: <cons-code> <serial -|8|9> <timestamp -|hex> <page_size -|hex> <paging N|bytes> <skip 0|1> <cells>
//! cells:   "-" | comma list of  n | u | v<bytes>  each optionally followed by *<count-hex>
//! stmts:   "-" | comma list of  q<bytes> | p<bytes>  each optionally *<count-hex>
//! vals:    "0" (no value lists) | ';' list of <cells>[@<count-hex>]
//! entries: "-" | comma list of <key>=<value> | #<count-hex> (count generated keys "0","1",.. with empty values)
//! events:  "-" | comma list of t|s|c|r each optionally *<count-hex>
//! batch mode: c = value lists through a RawBatchValues implementation writing cell by cell,
//!             v = Vec<SerializedValues> (the implementation scylla-proxy uses),
//!             a = RawBatchValuesAdapter::new(BatchValues, one RowSerializationContext per STATEMENT): the way
//!                 the driver itself (scylla/src/network/connection.rs) hands batch values to Batch
//!   V <rowkind> <cols> <row> typed rows through the built-in SerializeRow impls (see c09_rows.rs)
//!   C census                 the public protocol constants (opcodes, consistency codes, batch types, header flags,
//!                            event names) as the crate defines them, compared with the model's tables; the private
//!                            query / batch flag bits are compared with a source scan by checks/c09.py
//!   G <p|q|a|c|b> <len>     one component of <len> untouched zero bytes (PREPARE text, QUERY text, AUTH token, a value
//!                            cell, a BATCH statement text), everything else minimal, uncompressed: the 2^31 boundary
//!                            of the [long string] / [bytes] / cell writers; observed `len <body> <field>` or `err ..`
//!   M <comp> <tr> <len>      make() of a SerializableRequest whose body is <len> untouched zero bytes (sizes only)
//!   N <serial>               end-to-end: a real Session against mocknode issues session-level calls with known
//!                            options; the frames the node received are reported next to what was asked
//! Observed: ok <s> <hdr0> <frame-hex> [<decompressed-body-hex|FAIL>]   where <hdr0> = the 9 header bytes as made,
//!              <s> = the stream id then given to set_stream, <frame-hex> = get_data() AFTER set_stream(s)
//!         | ok <order> <s> <hdr0> <frame-hex> [..] (STARTUP: map iteration order as entry indices)
//!         | err <class ...> | panic
//!         | len <payload size> <length field> (L, M) | skipped (L: not enough memory)
//!         | e2e <ext> <asked>[#<frames seen for this call, when not 1>]:<frame-hex> ... (N)
//!         | skip-env <why> (N: mock / session start, timeouts) | e2e-fail <why> (N: a call failed)
use scylla_cql::Consistency;
use scylla_cql::frame::frame_errors::{
    BatchSerializationError, BatchStatementSerializationError, CqlRequestSerializationError,
    ExecuteSerializationError, QuerySerializationError,
};
use scylla_cql::frame::request::batch::{BatchStatement, BatchType};
use scylla_cql::frame::request::execute::ExecuteV2;
use scylla_cql::frame::request::query::{PagingState, QueryParameters};
use scylla_cql::frame::request::register::{Register, RegisterV2};
use scylla_cql::frame::request::{
    AuthResponse, Batch, Options, Prepare, Query, SerializableRequest, Startup,
};
use scylla_cql::frame::response::result::cow_bytes::CowBytes;
use scylla_cql::frame::server_event_type::{EventType, EventTypeV2};
use scylla_cql::frame::types::SerialConsistency;
use scylla_cql::frame::{Compression, SerializedRequest, decompress};
use scylla_cql::frame::request::RequestOpcode;
use scylla_cql::serialize::raw_batch::{RawBatchValues, RawBatchValuesAdapter, RawBatchValuesIterator};
use scylla_cql::serialize::row::{RowSerializationContext, SerializeRow, SerializedValues};
use scylla_cql::serialize::writers::CellOverflowError;
use scylla_cql::serialize::{RowWriter, SerializationError};
use std::borrow::Cow;
use std::collections::HashMap;
use vh::*;

#[path = "../c09_e2e.rs"]
mod e2e;
#[path = "../c09_rows.rs"]
mod rows;

// ------------------------------------------------------------------ case text -> values

fn hx(s: &str) -> u64 {
    u64::from_str_radix(s, 16).expect("hex")
}
fn hxi(s: &str) -> i128 {
    if let Some(r) = s.strip_prefix('-') { -(i128::from_str_radix(r, 16).expect("hex")) } else { i128::from_str_radix(s, 16).expect("hex") }
}
fn parse_bytes(s: &str) -> Vec<u8> {
    if s == "-" {
        return vec![];
    }
    if let Some(r) = s.strip_prefix('x') {
        let (b, n) = r.split_once('^').expect("x<hh>^<count>");
        return vec![hx(b) as u8; hx(n) as usize];
    }
    (0..s.len() / 2).map(|i| u8::from_str_radix(&s[2 * i..2 * i + 2], 16).expect("hex")).collect()
}
#[derive(Clone, Debug)]
enum Cell {
    Null,
    Unset,
    Val(Vec<u8>),
}
fn split_rep(item: &str, sep: char) -> (&str, usize) {
    match item.rsplit_once(sep) {
        Some((a, n)) => (a, hx(n) as usize),
        None => (item, 1),
    }
}
fn parse_cells(s: &str) -> Vec<Cell> {
    let mut v = vec![];
    if s == "-" {
        return v;
    }
    for item in s.split(',') {
        let (c, n) = split_rep(item, '*');
        let cell = match &c[..1] {
            "n" => Cell::Null,
            "u" => Cell::Unset,
            "v" => Cell::Val(parse_bytes(&c[1..])),
            _ => panic!("bad cell"),
        };
        for _ in 0..n {
            v.push(cell.clone());
        }
    }
    v
}
fn consistency(code: u64) -> Consistency {
    Consistency::try_from(code as u16).expect("consistency code")
}
fn serial(s: &str) -> Option<SerialConsistency> {
    match s {
        "-" => None,
        "8" => Some(SerialConsistency::Serial),
        "9" => Some(SerialConsistency::LocalSerial),
        _ => panic!("bad serial"),
    }
}
fn comp(s: &str) -> Option<Compression> {
    match s {
        "n" => None,
        "l" => Some(Compression::Lz4),
        "s" => Some(Compression::Snappy),
        _ => panic!("bad comp"),
    }
}

fn write_cells(cells: &[Cell], w: &mut RowWriter) -> Result<(), SerializationError> {
    for c in cells {
        let cw = w.make_cell_writer();
        match c {
            Cell::Null => {
                cw.set_null();
            }
            Cell::Unset => {
                cw.set_unset();
            }
            Cell::Val(b) => {
                cw.set_value(b).map_err(SerializationError::new)?;
            }
        }
    }
    Ok(())
}
fn mk_values(cells: &[Cell]) -> Result<SerializedValues, String> {
    match SerializedValues::from_closure(|w| write_cells(cells, w)) {
        Ok((sv, ())) => Ok(sv),
        Err(e) => {
            if e.downcast_ref::<CellOverflowError>().is_some() {
                Err("err values-cell-overflow".into())
            } else {
                Err("err values-too-many".into())
            }
        }
    }
}

/// value lists handed to Batch through the RawBatchValues interface, written cell by cell
struct CellsBatch<'a>(&'a [Vec<Cell>]);
struct CellsIter<'a>(std::slice::Iter<'a, Vec<Cell>>);
impl RawBatchValues for CellsBatch<'_> {
    type RawBatchValuesIter<'r>
        = CellsIter<'r>
    where
        Self: 'r;
    fn batch_values_iter(&self) -> Self::RawBatchValuesIter<'_> {
        CellsIter(self.0.iter())
    }
}
impl<'r> RawBatchValuesIterator<'r> for CellsIter<'r> {
    fn serialize_next(&mut self, writer: &mut RowWriter) -> Option<Result<(), SerializationError>> {
        self.0.next().map(|l| write_cells(l, writer))
    }
    fn is_empty_next(&mut self) -> Option<bool> {
        self.0.next().map(|l| l.is_empty())
    }
    fn skip_next(&mut self) -> Option<()> {
        self.0.next().map(|_| ())
    }
}

/// one value list as a SerializeRow, for the BatchValues -> RawBatchValuesAdapter path
struct CellsRow(Vec<Cell>);
impl SerializeRow for CellsRow {
    fn serialize(&self, _ctx: &RowSerializationContext<'_>, writer: &mut RowWriter) -> Result<(), SerializationError> {
        write_cells(&self.0, writer)
    }
    fn is_empty(&self) -> bool {
        self.0.is_empty()
    }
}

/// `n` zero bytes from `alloc_zeroed` (calloc: pages are mapped lazily and never written here), or None when the
/// allocator refuses the mapping (RLIMIT_AS, overcommit heuristics, strict overcommit): `vec![0u8; n]` would abort
/// the process through handle_alloc_error, which no catch_unwind catches.
fn zeroed_vec(n: usize) -> Option<Vec<u8>> {
    if n == 0 {
        return Some(Vec::new());
    }
    let layout = std::alloc::Layout::array::<u8>(n).ok()?;
    // SAFETY: layout has non-zero size; a non-null result is n initialised (zero) bytes owned by nobody else, allocated
    // by the global allocator with the layout Vec<u8> uses for capacity n.
    unsafe {
        let p = std::alloc::alloc_zeroed(layout);
        if p.is_null() { None } else { Some(Vec::from_raw_parts(p, n, n)) }
    }
}

/// a request whose body is `len` zero bytes taken from a pre-allocated, never-written buffer: reaches the size checks of
/// make / compress_append at the 2^32 boundary without resident memory
struct Blob {
    len: usize,
    zeros: std::cell::RefCell<Option<Vec<u8>>>, // HEADER_SIZE + len zero bytes
}
impl SerializableRequest for Blob {
    const OPCODE: RequestOpcode = RequestOpcode::Options;
    fn serialize(&self, buf: &mut Vec<u8>) -> Result<(), CqlRequestSerializationError> {
        let keep = buf.len();
        let mut v = self.zeros.borrow_mut().take().expect("Blob serialised once");
        v.truncate(keep + self.len);
        v[..keep].copy_from_slice(buf);
        *buf = v;
        Ok(())
    }
}
/// sizes only; the component is calloc'ed and never written (the accepted side copies it once into the frame)
fn run_big_case(what: &str, len: usize) -> String {
    // Only the ACCEPTED big sizes copy the component into the frame (resident memory); from 2^31 on the length
    // check refuses before any copy and the zero pages are never read or written, so no MemAvailable guard applies.
    let need_kib = (len as u64 / 1024) * 3;
    if len > (1 << 28) && len < (1usize << 31) && (mem_available_kib() < need_kib + (4 << 20) || zeroed_vec(3 * len).is_none()) {
        return "skipped".into();
    }
    fn sizes<R: SerializableRequest>(r: &R) -> String {
        match SerializedRequest::make(r, None, false) {
            Err(e) => err_class(&e),
            Ok(sr) => {
                let d = sr.get_data();
                let field = u32::from_be_bytes([d[5], d[6], d[7], d[8]]);
                format!("len {} {}", hex_u((d.len() - 9) as u128), hex_u(field as u128))
            }
        }
    }
    let zeros = match zeroed_vec(len) {
        Some(v) => v,
        None => return "skipped".into(), // the host refuses the mapping: not-run, counted
    };
    match what {
        "a" => sizes(&AuthResponse { response: Some(zeros) }),
        "c" => {
            let cells = [Cell::Val(zeros)];
            match mk_values(&cells) {
                Err(e) => e,
                Ok(sv) => sizes(&Query {
                    contents: Cow::Borrowed(""),
                    parameters: QueryParameters { consistency: Consistency::One, values: Cow::Borrowed(&sv), ..Default::default() },
                }),
            }
        }
        _ => {
            // SAFETY: NUL bytes are valid UTF-8.  (The checked from_utf8 would READ all the pages: 2 GiB per case.)
            let text = unsafe { String::from_utf8_unchecked(zeros) };
            match what {
                "p" => sizes(&Prepare { query: &text }),
                "q" => sizes(&Query {
                    contents: Cow::Borrowed(&text),
                    parameters: QueryParameters { consistency: Consistency::One, ..Default::default() },
                }),
                "b" => {
                    let stmts = [BatchStatement::Query { text: Cow::Borrowed(text.as_str()) }];
                    sizes(&Batch {
                        statements: Cow::Borrowed(&stmts[..]),
                        batch_type: BatchType::Logged,
                        consistency: Consistency::One,
                        serial_consistency: None,
                        timestamp: None,
                        values: vec![SerializedValues::new()],
                    })
                }
                _ => "error unknown-case".into(),
            }
        }
    }
}

fn run_blob_case(c: Option<Compression>, tr: bool, len: usize) -> String {
    // the mapping may be refused by the host (not-run, counted): probe instead of aborting
    let zeros = match zeroed_vec(len + 9) {
        Some(v) => v,
        None => return "skipped".into(),
    };
    match SerializedRequest::make(&Blob { len, zeros: std::cell::RefCell::new(Some(zeros)) }, c, tr) {
        Err(e) => err_class(&e),
        Ok(sr) => {
            let d = sr.get_data();
            let field = u32::from_be_bytes([d[5], d[6], d[7], d[8]]);
            format!("len {} {}", hex_u((d.len() - 9) as u128), hex_u(field as u128))
        }
    }
}

fn stmt_err(e: &BatchStatementSerializationError) -> String {
    match e {
        BatchStatementSerializationError::StatementStringSerialization(_) => "string".into(),
        BatchStatementSerializationError::StatementIdSerialization(_) => "id".into(),
        BatchStatementSerializationError::ValuesSerialiation(_) => "values".into(),
        BatchStatementSerializationError::TooManyValues(n) => format!("too-many-values {}", hex_u(*n as u128)),
        _ => "other".into(),
    }
}
fn err_class(e: &CqlRequestSerializationError) -> String {
    use CqlRequestSerializationError as E;
    match e {
        E::StartupSerialization(_) => "err startup".into(),
        E::RegisterSerialization(_) => "err register".into(),
        E::AuthResponseSerialization(_) => "err auth".into(),
        E::PrepareSerialization(_) => "err prepare-string".into(),
        E::QuerySerialization(QuerySerializationError::StatementStringSerialization(_)) => "err query-string".into(),
        E::QuerySerialization(QuerySerializationError::QueryParametersSerialization(_)) => "err query-params".into(),
        E::ExecuteSerialization(ExecuteSerializationError::StatementIdSerialization(_)) => "err exec-id".into(),
        E::ExecuteSerialization(ExecuteSerializationError::ResultMetadataIdSerialization(_)) => "err exec-mid".into(),
        E::ExecuteSerialization(ExecuteSerializationError::QueryParametersSerialization(_)) => "err exec-params".into(),
        E::BatchSerialization(b) => match b {
            BatchSerializationError::TooManyStatements(n) => format!("err batch-too-many-statements {}", hex_u(*n as u128)),
            BatchSerializationError::ValuesAndStatementsLengthMismatch { n_value_lists, n_statements } => {
                format!("err batch-mismatch {} {}", hex_u(*n_value_lists as u128), hex_u(*n_statements as u128))
            }
            BatchSerializationError::StatementSerialization { statement_idx, error } => {
                format!("err batch-stmt {} {}", hex_u(*statement_idx as u128), stmt_err(error))
            }
            BatchSerializationError::BadBatchConstructed { n_announced_statements, n_serialized_statements } => {
                format!("err bad-batch {} {}", hex_u(*n_announced_statements as u128), hex_u(*n_serialized_statements as u128))
            }
            _ => "err batch-other".into(),
        },
        E::SnapCompressError(_) => "err snap".into(),
        // BodyTooLong(size) exists only since /repo a9f519c: classified through its Debug text, without naming the
        // variant, so that this runner also builds against a tree where the fix is reverted
        other => {
            let d = format!("{other:?}");
            match d.strip_prefix("BodyTooLong(").and_then(|r| r.strip_suffix(')')).and_then(|n| n.parse::<u128>().ok()) {
                Some(n) => format!("err body-too-long {}", hex_u(n)),
                None => "err other".into(),
            }
        }
    }
}

/// stream id handed to set_stream: derived from the case text (replays see the same id)
fn stream_for(case: &str) -> i16 {
    let mut h: u64 = 0xcbf29ce484222325;
    for b in case.bytes() {
        h = (h ^ b as u64).wrapping_mul(0x100000001b3);
    }
    match h % 8 {
        0 => 0,
        1 => -1,
        2 => i16::MIN,
        3 => i16::MAX,
        _ => (h >> 8) as i16,
    }
}

/// make, then set_stream(s), + (for compressed frames) the real decompress of the real body
fn observe<R: SerializableRequest>(req: &R, c: Option<Compression>, tr: bool, s: i16) -> String {
    match SerializedRequest::make(req, c, tr) {
        Err(e) => err_class(&e),
        Ok(mut sr) => {
            let hdr0 = hex_bytes(&sr.get_data()[..9.min(sr.get_data().len())]);
            sr.set_stream(s);
            let data = sr.get_data();
            let head = format!("ok {} {} {}", hex_i(s as i128), hdr0, hex_bytes(data));
            match c {
                None => head,
                Some(alg) => {
                    let d = if data.len() >= 9 {
                        match decompress(&data[9..], alg) {
                            Ok(b) => hex_bytes(&b),
                            Err(_) => "FAIL".into(),
                        }
                    } else {
                        "FAIL".into()
                    };
                    format!("{} {}", head, d)
                }
            }
        }
    }
}

fn qparams<'a>(f: &[&str], values: &'a SerializedValues) -> QueryParameters<'a> {
    QueryParameters {
        consistency: consistency(hx(f[0])),
        serial_consistency: serial(f[1]),
        timestamp: if f[2] == "-" { None } else { Some(hxi(f[2]) as i64) },
        page_size: if f[3] == "-" { None } else { Some(hxi(f[3]) as i32) },
        paging_state: if f[4] == "N" { PagingState::start() } else { PagingState::new_from_raw_bytes(parse_bytes(f[4])) },
        skip_metadata: f[5] == "1",
        values: Cow::Borrowed(values),
    }
}

fn run_case_inner(case: &str) -> String {
    let f: Vec<&str> = case.split_whitespace().collect();
    if f[0] == "L" {
        return run_len_case(hx(f[1]) as usize, hx(f[2]) as usize);
    }
    if f[0] == "N" {
        let serial = hx(f[1]);
        let rt = tokio::runtime::Builder::new_multi_thread().worker_threads(2).enable_all().build().unwrap();
        return match rt.block_on(e2e::run(serial)) {
            Ok(o) => o,
            // the scenario could not run (mock / session start, timeouts): counted, capped by checks/c09.py
            Err(e2e::E2eErr::Env(e)) => format!("skip-env {}", e.replace(' ', "_")),
            // the implementation deviated from what the scenario allows: never ok
            Err(e2e::E2eErr::Deviation(e)) => format!("e2e-fail {}", e.replace(' ', "_")),
        };
    }
    if f[0] == "C" {
        // census of the public protocol constants, in the order of the model's constructors
        use scylla_cql::frame::flag;
        let ops = [
            RequestOpcode::Startup as u8,
            RequestOpcode::Options as u8,
            RequestOpcode::Query as u8,
            RequestOpcode::Prepare as u8,
            RequestOpcode::Execute as u8,
            RequestOpcode::Register as u8,
            RequestOpcode::Batch as u8,
            RequestOpcode::AuthResponse as u8,
        ];
        let cons = [
            Consistency::Any as u16,
            Consistency::One as u16,
            Consistency::Two as u16,
            Consistency::Three as u16,
            Consistency::Quorum as u16,
            Consistency::All as u16,
            Consistency::LocalQuorum as u16,
            Consistency::EachQuorum as u16,
            Consistency::Serial as u16,
            Consistency::LocalSerial as u16,
            Consistency::LocalOne as u16,
        ];
        let ser = [SerialConsistency::Serial as u16, SerialConsistency::LocalSerial as u16];
        let bt = [BatchType::Logged as u8, BatchType::Unlogged as u8, BatchType::Counter as u8];
        let ff = [flag::COMPRESSION, flag::TRACING, flag::CUSTOM_PAYLOAD, flag::WARNING];
        let evs = [
            EventTypeV2::TopologyChange.to_string(),
            EventTypeV2::StatusChange.to_string(),
            EventTypeV2::SchemaChange.to_string(),
            EventTypeV2::ClientRoutesChange.to_string(),
        ];
        return format!(
            "ops={} cons={} serial={} bt={} fflags={} events={}",
            hex_list(&ops),
            hex_list(&cons),
            hex_list(&ser),
            hex_list(&bt),
            hex_list(&ff),
            evs.iter().map(|e| hex_bytes(e.as_bytes())).collect::<Vec<_>>().join(",")
        );
    }
    if f[0] == "G" {
        return run_big_case(f[1], hx(f[2]) as usize);
    }
    if f[0] == "V" {
        // typed row -> SerializedValues::from_serializable -> EXECUTE frame
        let sv = match rows::bind_case(f[1], f[2], f[3]) {
            Ok(sv) => sv,
            Err(line) => return line,
        };
        let id = [0x0cu8, 0x09];
        let e = ExecuteV2 {
            id: CowBytes::from(&id[..]),
            result_metadata_id: None,
            parameters: QueryParameters { consistency: Consistency::One, values: Cow::Borrowed(&sv), ..Default::default() },
        };
        return observe(&e, None, false, stream_for(case));
    }
    let c = comp(f[1]);
    let tr = f[2] == "1";
    if f[0] == "M" {
        return run_blob_case(c, tr, hx(f[3]) as usize);
    }
    let st = stream_for(case);
    match f[0] {
        "Q" => {
            let text = String::from_utf8(parse_bytes(f[3])).expect("utf8");
            let cells = parse_cells(f[10]);
            let sv = match mk_values(&cells) {
                Ok(sv) => sv,
                Err(e) => return e,
            };
            let q = Query { contents: Cow::Borrowed(&text), parameters: qparams(&f[4..11], &sv) };
            observe(&q, c, tr, st)
        }
        "P" => {
            let text = String::from_utf8(parse_bytes(f[3])).expect("utf8");
            observe(&Prepare { query: &text }, c, tr, st)
        }
        "E" => {
            let id = parse_bytes(f[4]);
            let mid = if f[5] == "N" { None } else { Some(parse_bytes(f[5])) };
            let cells = parse_cells(f[12]);
            let sv = match mk_values(&cells) {
                Ok(sv) => sv,
                Err(e) => return e,
            };
            if f[3] == "1" {
                assert!(mid.is_none(), "Execute v1 has no metadata id");
                #[allow(deprecated)]
                let e = scylla_cql::frame::request::Execute { id: id.clone().into(), parameters: qparams(&f[6..13], &sv) };
                observe(&e, c, tr, st)
            } else {
                let e = ExecuteV2 {
                    id: CowBytes::from(&id[..]),
                    result_metadata_id: mid.as_ref().map(|m| CowBytes::from(&m[..])),
                    parameters: qparams(&f[6..13], &sv),
                };
                observe(&e, c, tr, st)
            }
        }
        "B" => {
            let batch_type = BatchType::try_from(hx(f[4]) as u8).expect("batch type");
            let mut stmts: Vec<BatchStatement<'static>> = vec![];
            if f[8] != "-" {
                for item in f[8].split(',') {
                    let (s, n) = split_rep(item, '*');
                    let st = match &s[..1] {
                        "q" => BatchStatement::Query { text: Cow::Owned(String::from_utf8(parse_bytes(&s[1..])).expect("utf8")) },
                        "p" => BatchStatement::Prepared { id: Cow::Owned(parse_bytes(&s[1..])) },
                        _ => panic!("bad stmt"),
                    };
                    for _ in 0..n {
                        stmts.push(st.clone());
                    }
                }
            }
            let mut vals: Vec<Vec<Cell>> = vec![];
            if f[9] != "0" {
                for item in f[9].split(';') {
                    let (l, n) = split_rep(item, '@');
                    let cells = parse_cells(l);
                    for _ in 0..n {
                        vals.push(cells.clone());
                    }
                }
            }
            let consistency = consistency(hx(f[5]));
            let serial_consistency = serial(f[6]);
            let timestamp = if f[7] == "-" { None } else { Some(hxi(f[7]) as i64) };
            if f[3] == "v" {
                let mut svs = vec![];
                for l in &vals {
                    match mk_values(l) {
                        Ok(sv) => svs.push(sv),
                        Err(_) => return "error bad-case-for-mode-v".into(),
                    }
                }
                let b = Batch { statements: Cow::Borrowed(&stmts[..]), batch_type, consistency, serial_consistency, timestamp, values: svs };
                observe(&b, c, tr, st)
            } else if f[3] == "a" {
                // as the driver does: BatchValues + one context per statement through the adapter
                let rows: Vec<CellsRow> = vals.iter().map(|l| CellsRow(l.clone())).collect();
                let contexts = (0..stmts.len()).map(|_| RowSerializationContext::empty());
                let values = RawBatchValuesAdapter::new(&rows, contexts);
                let b = Batch { statements: Cow::Borrowed(&stmts[..]), batch_type, consistency, serial_consistency, timestamp, values };
                observe(&b, c, tr, st)
            } else {
                let b = Batch { statements: Cow::Borrowed(&stmts[..]), batch_type, consistency, serial_consistency, timestamp, values: CellsBatch(&vals) };
                observe(&b, c, tr, st)
            }
        }
        "S" => {
            let mut entries: Vec<(String, String)> = vec![];
            if f[3] != "-" {
                for item in f[3].split(',') {
                    if let Some(n) = item.strip_prefix('#') {
                        for i in 0..hx(n) {
                            entries.push((format!("{}", i), String::new()));
                        }
                    } else {
                        let (k, v) = item.split_once('=').expect("k=v");
                        entries.push((String::from_utf8(parse_bytes(k)).expect("utf8"), String::from_utf8(parse_bytes(v)).expect("utf8")));
                    }
                }
            }
            let mut index: HashMap<&str, usize> = HashMap::new();
            let mut options: HashMap<Cow<'_, str>, Cow<'_, str>> = HashMap::new();
            for (i, (k, v)) in entries.iter().enumerate() {
                if !index.contains_key(k.as_str()) {
                    index.insert(k, i);
                    options.insert(Cow::Borrowed(k), Cow::Borrowed(v));
                }
            }
            // the order in which THIS map iterates is the oracle the model is run with
            let order: Vec<u32> = options.iter().map(|(k, _)| index[k.as_ref()] as u32).collect();
            let s = Startup { options };
            let o = observe(&s, c, tr, st);
            match o.strip_prefix("ok ") {
                Some(rest) => format!("ok {} {}", hex_list(&order), rest),
                None => o,
            }
        }
        "R" => {
            let mut evs: Vec<char> = vec![];
            if f[4] != "-" {
                for item in f[4].split(',') {
                    let (e, n) = split_rep(item, '*');
                    for _ in 0..n {
                        evs.push(e.chars().next().unwrap());
                    }
                }
            }
            if f[3] == "1" {
                let l = evs
                    .iter()
                    .map(|e| match e {
                        't' => EventType::TopologyChange,
                        's' => EventType::StatusChange,
                        'c' => EventType::SchemaChange,
                        _ => panic!("bad event for Register v1"),
                    })
                    .collect();
                observe(&Register { event_types_to_register_for: l }, c, tr, st)
            } else {
                let l = evs
                    .iter()
                    .map(|e| match e {
                        't' => EventTypeV2::TopologyChange,
                        's' => EventTypeV2::StatusChange,
                        'c' => EventTypeV2::SchemaChange,
                        'r' => EventTypeV2::ClientRoutesChange,
                        _ => panic!("bad event"),
                    })
                    .collect();
                observe(&RegisterV2 { event_types_to_register_for: l }, c, tr, st)
            }
        }
        "O" => observe(&Options, c, tr, st),
        "A" => {
            let tok = if f[3] == "N" { None } else { Some(parse_bytes(f[3])) };
            observe(&AuthResponse { response: tok }, c, tr, st)
        }
        _ => "error unknown-case".into(),
    }
}

fn mem_available_kib() -> u64 {
    std::fs::read_to_string("/proc/meminfo")
        .ok()
        .and_then(|m| {
            m.lines().find(|l| l.starts_with("MemAvailable:")).and_then(|l| l.split_whitespace().nth(1).and_then(|v| v.parse().ok()))
        })
        .unwrap_or(0)
}
/// sizes only: body size and the header's length field of a BATCH of n statements sharing one text
fn run_len_case(n: usize, tlen: usize) -> String {
    let need = (n as u64 * tlen as u64 + tlen as u64) / 1024;
    if need > (1 << 20) && mem_available_kib() < 2 * need + (4 << 20) {
        return "skipped".into();
    }
    // the frame buffer grows by doubling: probe that the address space for it can be had at all (RLIMIT_AS, strict
    // overcommit) instead of aborting inside make()
    if need > (1 << 20) && zeroed_vec(2 * n * tlen + tlen).is_none() {
        return "skipped".into();
    }
    let text = "s".repeat(tlen);
    let stmts: Vec<BatchStatement<'_>> = (0..n).map(|_| BatchStatement::Query { text: Cow::Borrowed(text.as_str()) }).collect();
    let values: Vec<SerializedValues> = (0..n).map(|_| SerializedValues::new()).collect();
    let b = Batch {
        statements: Cow::Borrowed(&stmts[..]),
        batch_type: BatchType::Logged,
        consistency: Consistency::One,
        serial_consistency: None,
        timestamp: None,
        values,
    };
    match SerializedRequest::make(&b, None, false) {
        Err(e) => err_class(&e),
        Ok(sr) => {
            let d = sr.get_data();
            let field = u32::from_be_bytes([d[5], d[6], d[7], d[8]]);
            format!("len {} {}", hex_u((d.len() - 9) as u128), hex_u(field as u128))
        }
    }
}

fn run_case(case: &str) -> String {
    let owned = case.to_string();
    match catch(move || run_case_inner(&owned)) {
        Ok(s) => s,
        Err(_) => "panic".into(),
    }
}

// ------------------------------------------------------------------ generators

const TEXTS: &[&str] = &[
    "SELECT * FROM ks.t WHERE pk = ?",
    "INSERT INTO ks.t (a, b, c) VALUES (?, ?, ?)",
    "UPDATE ks.t SET v = ? WHERE pk = ? IF v = ?",
    "",
    "x",
    "SELECT \"żółw\" FROM ks.\"Ünïcode\" -- 日本語",
    "DELETE FROM t WHERE k = :k",
];

fn rbytes(r: &mut Rng, lo: u64, hi: u64) -> Vec<u8> {
    let n = r.range(lo, hi) as usize;
    r.bytes(n)
}
fn rep_bytes(b: u8, n: usize) -> String {
    if n == 0 { "-".into() } else { format!("x{:02x}^{:x}", b, n) }
}
fn gen_text(r: &mut Rng) -> String {
    if r.chance(1, 400) {
        return rep_bytes(b'a', *r.pick(&[65535usize, 65536, 65537, 70000]));
    }
    match r.below(40) {
        0 => hex_bytes(b"SELECT now() FROM system.local"),
        1 => rep_bytes(b' ', r.range(200, 3000) as usize),
        2 => "-".into(),
        3 => hex_bytes(b"?"),
        _ => {
            let mut s = r.pick(TEXTS).to_string();
            if r.chance(1, 3) {
                s.push_str(&format!(" /* {} */", r.below(1 << 20)));
            }
            hex_bytes(s.as_bytes())
        }
    }
}
/// prepared-statement ids / metadata ids: [short bytes], boundary at 2^16
fn gen_id(r: &mut Rng) -> String {
    if r.chance(1, 300) {
        return rep_bytes(r.below(256) as u8, *r.pick(&[65535usize, 65536, 65535, 65536, 65537, 70000, 131072]));
    }
    match r.below(40) {
        0 | 1 | 2 => hex_bytes(&r.bytes(8)),
        3 => "-".into(),
        4 => hex_bytes(&r.bytes(1)),
        5 => hex_bytes(&rbytes(r, 2, 300)),
        _ => hex_bytes(&r.bytes(16)),
    }
}
fn gen_cell(r: &mut Rng) -> String {
    match r.below(12) {
        0 | 1 => "n".into(),
        2 => "u".into(),
        3 => "v-".into(),
        4 => format!("v{}", hex_bytes(&rbytes(r, 20, 200))),
        5 => {
            if r.chance(1, 150) {
                format!("v{}", rep_bytes(r.below(256) as u8, r.range(1000, 70000) as usize))
            } else {
                format!("v{}", hex_bytes(&r.bytes(8)))
            }
        }
        // values that look like the null / unset markers or like lengths
        6 => format!("v{}", r.pick(&["ffffffff", "fffffffe", "00000000", "ff", "0000"])),
        _ => format!("v{}", hex_bytes(&rbytes(r, 1, 12))),
    }
}
fn gen_small_cell(r: &mut Rng) -> String {
    r.pick(&["n", "u", "v-", "v00", "vffffffff", "v0102"]).to_string()
}
/// value list: mostly small, sometimes a few hundred, rarely at the u16 boundary
fn gen_cells(r: &mut Rng, allow_huge: bool) -> String {
    let n = match r.below(100) {
        0..=24 => 0,
        25..=74 => r.range(1, 8),
        75..=96 => r.range(9, 60),
        97..=98 => r.range(61, 400),
        _ => {
            if allow_huge && r.chance(1, 8) {
                let n = *r.pick(&[65535u64, 65536, 65534, 65537]);
                // run-length form keeps the line short
                let a = r.range(0, 3);
                return format!("{}*{:x},{}*{:x}", gen_small_cell(r), a.max(1), gen_small_cell(r), n - a.max(1));
            }
            r.range(200, 700)
        }
    };
    if n == 0 {
        return "-".into();
    }
    (0..n).map(|_| gen_cell(r)).collect::<Vec<_>>().join(",")
}
fn gen_cons(r: &mut Rng) -> String {
    hex_u(r.below(11) as u128)
}
fn gen_ts(r: &mut Rng) -> String {
    let v: i64 = match r.below(8) {
        0 => *r.pick(&[i64::MIN, i64::MAX, -1, 0, 1, -2]),
        1 => r.i64(),
        _ => 1_700_000_000_000_000 + r.below(1 << 40) as i64,
    };
    hex_i(v as i128)
}
fn gen_page(r: &mut Rng) -> String {
    let v: i32 = match r.below(8) {
        0 => *r.pick(&[i32::MIN, i32::MAX, -1, 0, 1, -2]),
        1 => r.u64() as i32,
        _ => *r.pick(&[5000i32, 100, 1, 10, 65536]),
    };
    hex_i(v as i128)
}
fn gen_paging(r: &mut Rng) -> String {
    if r.chance(1, 200) {
        return rep_bytes(r.below(256) as u8, *r.pick(&[65535usize, 65536, 100000]));
    }
    match r.below(10) {
        0 => "-".into(),
        1 => hex_bytes(&r.bytes(200)),
        _ => hex_bytes(&rbytes(r, 1, 60)),
    }
}
/// query parameters for an explicit subset mask of the six optional parts
/// bit0 values, bit1 skip_metadata, bit2 page_size, bit3 paging_state, bit4 serial, bit5 timestamp
fn gen_qparams(r: &mut Rng, mask: u64, allow_huge: bool) -> String {
    let vals = if mask & 1 != 0 {
        let mut v = gen_cells(r, allow_huge);
        if v == "-" {
            v = gen_cell(r);
        }
        v
    } else {
        "-".into()
    };
    format!(
        "{} {} {} {} {} {} {}",
        gen_cons(r),
        if mask & 16 != 0 { r.pick(&["8", "9"]).to_string() } else { "-".into() },
        if mask & 32 != 0 { gen_ts(r) } else { "-".into() },
        if mask & 4 != 0 { gen_page(r) } else { "-".into() },
        if mask & 8 != 0 { gen_paging(r) } else { "N".into() },
        if mask & 2 != 0 { "1" } else { "0" },
        vals
    )
}
fn gen_mask(r: &mut Rng) -> u64 {
    match r.below(4) {
        0 => *r.pick(&[0u64, 63, 1, 5, 13, 37]),
        _ => r.below(64),
    }
}
fn gen_comp(r: &mut Rng) -> &'static str {
    match r.below(10) {
        0..=5 => "n",
        6 | 7 => "l",
        _ => "s",
    }
}
fn gen_tr(r: &mut Rng) -> &'static str {
    if r.chance(1, 3) { "1" } else { "0" }
}

fn gen_query(r: &mut Rng, mask: u64) -> String {
    format!("Q {} {} {} {}", gen_comp(r), gen_tr(r), gen_text(r), gen_qparams(r, mask, true))
}
fn gen_execute(r: &mut Rng, mask: u64) -> String {
    let mid = if r.chance(1, 2) { "N".to_string() } else { gen_id(r) };
    let ver = if mid == "N" && r.chance(1, 3) { "1" } else { "2" };
    format!("E {} {} {} {} {} {}", gen_comp(r), gen_tr(r), ver, gen_id(r), mid, gen_qparams(r, mask, true))
}
fn gen_stmt(r: &mut Rng) -> String {
    if r.bool() {
        let t = gen_text(r);
        format!("q{}", t)
    } else {
        format!("p{}", gen_id(r))
    }
}
fn gen_batch(r: &mut Rng) -> String {
    let shape = r.below(100);
    let ns: usize = match shape {
        0..=9 => 0,
        10..=69 => r.range(1, 6) as usize,
        70..=96 => r.range(7, 40) as usize,
        _ => r.range(41, 300) as usize,
    };
    let stmts: Vec<String> = (0..ns).map(|_| gen_stmt(r)).collect();
    // number of value lists: usually equal; sometimes fewer / more (mismatch errors)
    let nv: usize = match r.below(10) {
        0 => r.below(ns as u64 + 1) as usize,
        1 => ns + r.range(1, 4) as usize,
        _ => ns,
    };
    let mut huge = false;
    let vals: Vec<String> = (0..nv)
        .map(|_| {
            let h = r.chance(1, 3000);
            huge |= h;
            if h {
                format!("{}*{:x}", gen_small_cell(r), *r.pick(&[65535u64, 65536, 65537]))
            } else if ns > 8 || r.chance(3, 4) {
                // value lists of batch statements are short in practice; keeps long batches cheap
                let n = r.below(5);
                if n == 0 { "-".into() } else { (0..n).map(|_| gen_cell(r)).collect::<Vec<_>>().join(",") }
            } else {
                gen_cells(r, false)
            }
        })
        .collect();
    // mode v (Vec<SerializedValues>) cannot carry more than 65535 values per list
    let mode = if !huge && r.chance(1, 3) { "v" } else if r.chance(1, 2) { "a" } else { "c" };
    format!(
        "B {} {} {} {} {} {} {} {} {}",
        gen_comp(r),
        gen_tr(r),
        mode,
        r.below(3),
        gen_cons(r),
        if r.bool() { r.pick(&["8", "9"]).to_string() } else { "-".into() },
        if r.bool() { gen_ts(r) } else { "-".into() },
        if stmts.is_empty() { "-".into() } else { stmts.join(",") },
        if vals.is_empty() { "0".into() } else { vals.join(";") }
    )
}
const STARTUP_KEYS: &[&str] = &[
    "CQL_VERSION", "COMPRESSION", "DRIVER_NAME", "DRIVER_VERSION", "APPLICATION_NAME", "APPLICATION_VERSION",
    "CLIENT_ID", "SCYLLA_LWT_ADD_METADATA_MARK", "SCYLLA_RATE_LIMIT_ERROR", "TABLETS_ROUTING_V1", "SCYLLA_USE_METADATA_ID", "",
];
fn gen_startup(r: &mut Rng) -> String {
    let n = match r.below(10) {
        0 => 0,
        1..=7 => r.range(1, 6),
        _ => r.range(7, 12),
    } as usize;
    let mut keys: Vec<&str> = STARTUP_KEYS.to_vec();
    r.shuffle(&mut keys);
    let mut items: Vec<String> = keys[..n]
        .iter()
        .map(|k| {
            let v = match r.below(30) {
                0 if r.chance(1, 10) => rep_bytes(b'v', *r.pick(&[65535usize, 65536])),
                1 => "-".into(),
                _ => hex_bytes(r.pick(&["4.0.0", "lz4", "snappy", "ScyllaDB Rust Driver", "1.4.0", "app", "mask=1", "żółć"]).as_bytes()),
            };
            format!("{}={}", hex_bytes(k.as_bytes()), v)
        })
        .collect();
    if r.chance(1, 300) {
        items.push(format!("{}=-", rep_bytes(b'k', *r.pick(&[65535usize, 65536]))));
    }
    format!("S {} {} {}", gen_comp(r), gen_tr(r), if items.is_empty() { "-".into() } else { items.join(",") })
}
fn gen_register(r: &mut Rng) -> String {
    let ver = if r.bool() { "1" } else { "2" };
    let pool: &[&str] = if ver == "1" { &["t", "s", "c"] } else { &["t", "s", "c", "r"] };
    let n = match r.below(10) {
        0 => 0,
        _ => r.range(1, 5),
    };
    let items: Vec<String> = (0..n).map(|_| r.pick(pool).to_string()).collect();
    format!("R {} {} {} {}", gen_comp(r), gen_tr(r), ver, if items.is_empty() { "-".into() } else { items.join(",") })
}
fn gen_auth(r: &mut Rng) -> String {
    let t = match r.below(8) {
        0 => "N".into(),
        1 => "-".into(),
        2 if r.chance(1, 12) => rep_bytes(0, *r.pick(&[65535usize, 65536, 200000])),
        _ => {
            let mut b = vec![0u8];
            b.extend_from_slice(b"cassandra");
            b.push(0);
            b.extend_from_slice(&rbytes(r, 0, 24));
            hex_bytes(&b)
        }
    };
    format!("A {} {} {}", gen_comp(r), gen_tr(r), t)
}

/// fixed boundary cases: counts and lengths at 65535 / 65536, every request kind
fn boundary_cases() -> Vec<String> {
    let mut v: Vec<String> = vec![];
    let qp = |vals: &str| format!("6 - - - N 0 {}", vals);
    for c in ["n", "l", "s"] {
        for n in [65534u64, 65535, 65536, 65537] {
            v.push(format!("Q {} 0 {} {}", c, hex_bytes(b"INSERT"), qp(&format!("n*{:x}", n))));
            v.push(format!("E {} 1 2 {} N {}", c, hex_bytes(&[7u8; 16]), qp(&format!("v01*1,u*{:x}", n - 1))));
            v.push(format!("B {} 0 c 0 1 - - p{} u*{:x}", c, hex_bytes(&[9u8; 16]), n));
            v.push(format!("B {} 0 c 1 1 8 -1 q{}*{:x} -@{:x}", c, hex_bytes(b"I"), n, n));
            v.push(format!("B {} 0 v 2 a - 7b p{}*{:x} n@{:x}", c, hex_bytes(&[1u8, 2]), n, n));
            v.push(format!("R {} 0 2 t*{:x}", c, n));
            v.push(format!("S {} 0 #{:x}", c, n));
        }
        for n in [0usize, 1, 65535, 65536, 65537] {
            v.push(format!("Q {} 1 {} {}", c, rep_bytes(b's', n), qp("-")));
            v.push(format!("P {} 0 {}", c, rep_bytes(b's', n)));
            v.push(format!("E {} 0 2 {} N {}", c, rep_bytes(3, n), qp("-")));
            v.push(format!("E {} 0 1 {} N {}", c, rep_bytes(3, n), qp("n")));
            v.push(format!("E {} 0 2 {} {} {}", c, hex_bytes(&[5u8; 16]), rep_bytes(4, n), qp("-")));
            v.push(format!("B {} 0 c 0 4 - - p{},q{} -;-", c, rep_bytes(5, n), rep_bytes(b'z', n)));
            v.push(format!("B {} 0 c 0 4 - - q{},p{} n;v{}", c, hex_bytes(b"X"), hex_bytes(&[1u8]), rep_bytes(6, n)));
            v.push(format!("S {} 0 {}={}", c, rep_bytes(b'k', n), hex_bytes(b"v")));
            v.push(format!("S {} 0 {}={}", c, hex_bytes(b"k"), rep_bytes(b'v', n)));
            v.push(format!("A {} 0 {}", c, rep_bytes(0xff, n)));
            v.push(format!("Q {} 0 {} 6 - - - {} 0 -", c, hex_bytes(b"S"), rep_bytes(8, n)));
        }
        v.push(format!("O {} 0", c));
        v.push(format!("O {} 1", c));
        v.push(format!("A {} 1 N", c));
        // batch count mismatches in every position
        for (ns, nv) in [(0u64, 1u64), (1, 0), (3, 0), (3, 2), (3, 4), (3, 7), (2, 2)] {
            let st = if ns == 0 { "-".to_string() } else { format!("p{}*{:x}", hex_bytes(&[1u8; 4]), ns) };
            let va = if nv == 0 { "0".to_string() } else { format!("n,v02@{:x}", nv) };
            for m in ["c", "v", "a"] {
                v.push(format!("B {} 1 {} 0 6 9 10 {} {}", c, m, st, va));
            }
        }
        // error precedence inside a batch: oversize statement before / after a missing value list
        v.push(format!("B {} 0 c 0 6 - - p01,p{} -", c, rep_bytes(1, 65536)));
        v.push(format!("B {} 0 c 0 6 - - p{},p01 -", c, rep_bytes(1, 65536)));
        v.push(format!("B {} 0 c 0 6 - - p01,p02 -;n*10000", c));
        v.push(format!("B {} 0 c 0 6 - - p01,p02 n*10000", c));
    }
    // sizes only: small bodies and one body of 4 GiB + 34 bytes, which must be refused
    // (5.0 GiB resident, 3-13 s depending on load; skipped if memory is short)
    v.push("L 3 400".into());
    v.push("L 0 0".into());
    v.push("C census".into());
    // the 2^31 boundary of the [long string] / [bytes] / cell writers: refusals on untouched zero pages
    for w in ["p", "q", "a", "c", "b"] {
        for len in ["0", "3", "10000", "80000000", "80000001"] {
            v.push(format!("G {} {}", w, len));
        }
    }
    // the 2^32 boundary of make / compress_append(LZ4) / snap without resident memory
    for len in ["0", "a", "ffffffff", "100000000", "100000005"] {
        v.push(format!("M n 0 {}", len));
        v.push(format!("M n 1 {}", len));
    }
    for len in ["0", "a", "100000000", "100000005"] {
        v.push(format!("M l 0 {}", len));
        v.push(format!("M s 1 {}", len));
    }
    v
}

fn main() {
    let a = parse_args();
    quiet_panics();
    let mut out = Out::create(&a.out);
    if let Some(p) = &a.replay {
        for c in read_cases(p) {
            let o = run_case(&c);
            out.case(&c, &o);
        }
        out.finish();
        return;
    }
    let mut r = Rng::new(a.seed);
    let mut fixed = boundary_cases();
    fixed.extend(rows::boundary_cases());
    if a.tier == "thorough" {
        // a real 4 GiB + 34 byte BATCH body (5.0 GiB resident, 3-13 s depending on load; reported as skipped if memory is short)
        fixed.push("L 4 40000000".into());
        // the accepted side of the 2^31 boundary: 2 GiB - 1 component, copied once into the frame (2.0 GiB resident, 2-6 s each)
        for w in ["p", "q", "a", "c", "b"] {
            fixed.push(format!("G {} 7fffffff", w));
        }
    }
    for c in fixed {
        let o = run_case(&c);
        out.case(&c, &o);
    }
    // end-to-end: what Session puts into the request structs
    let n_e2e = if a.tier == "thorough" { 300 } else { 40 };
    for k in 0..n_e2e {
        let c = format!("N {:x}", a.seed.wrapping_mul(1000).wrapping_add(k));
        let o = run_case(&c);
        out.case(&c, &o);
    }
    // every subset of the six optional QUERY/EXECUTE parts, several times each
    let reps = if a.tier == "thorough" { 40 } else { 6 };
    for mask in 0..64u64 {
        for _ in 0..reps {
            for c in [gen_query(&mut r, mask), gen_execute(&mut r, mask)] {
                let o = run_case(&c);
                out.case(&c, &o);
            }
        }
    }
    for _ in 0..a.n {
        let c = match r.below(23) {
            20..=22 => rows::gen_case(&mut r),
            0..=5 => {
                let m = gen_mask(&mut r);
                gen_query(&mut r, m)
            }
            6..=10 => {
                let m = gen_mask(&mut r);
                gen_execute(&mut r, m)
            }
            11..=15 => gen_batch(&mut r),
            16 => format!("P {} {} {}", gen_comp(&mut r), gen_tr(&mut r), gen_text(&mut r)),
            17 => gen_startup(&mut r),
            18 => gen_register(&mut r),
            _ => {
                if r.chance(1, 6) {
                    format!("O {} {}", gen_comp(&mut r), gen_tr(&mut r))
                } else {
                    gen_auth(&mut r)
                }
            }
        };
        let o = run_case(&c);
        out.case(&c, &o);
    }
    out.finish();
}
