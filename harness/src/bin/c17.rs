//! C17 runner: the full matrix Rust carrier x CQL column type through the REAL
//! `SerializeValue::serialize` / `DeserializeValue::type_check`, and `SerializedValues`
//! operation sequences (add_value rollback, value count, 65535 cap, from_serializable).
//! Writes "<case> | <observed>" lines for the extracted model (ocaml/c17/driver.ml).
//!
//! Kinds: S serialize into a pre-filled buffer, D type_check, A add_value sequence, X long
//! sequence (the cap), R from_serializable of a slice row, N from_serializable of a row bound by
//! name (BTreeMap / HashMap), T TypedRowIterator::new on real rows, C from_closure value counts.
//! Formats: see ocaml/c17/driver.ml.
#[path = "../c17_carriers.rs"]
mod carriers;
#[path = "../c01_text.rs"]
mod text;

use carriers::*;
use scylla_cql_core::frame::response::result::{CollectionType, ColumnSpec, ColumnType, NativeType, TableSpec};
use scylla_cql_core::serialize::row::{RowSerializationContext, SerializedValues};
use scylla_cql_core::serialize::value::SerializeValue;
use scylla_cql_core::serialize::RowWriter;
use scylla_cql_core::value::{Counter, CqlDate, CqlDecimal, CqlDuration, CqlTime, CqlTimestamp, CqlTimeuuid, CqlValue, CqlVarint};
use std::collections::HashMap;
use std::panic::AssertUnwindSafe;
use text::*;
use vh::*;

const PREFIX: [u8; 3] = [0xc1, 0xc2, 0xc3];

struct Ctx {
    ser: Vec<SerEntry>,
    de: Vec<DeEntry>,
    rows: Vec<RowEntry>,
    row_idx: HashMap<String, usize>,
    ser_idx: HashMap<String, usize>,
    de_idx: HashMap<String, usize>,
}
impl Ctx {
    fn new() -> Ctx {
        let (ser, de) = registries();
        let ser_idx = ser.iter().enumerate().map(|(i, e)| (e.name.clone(), i)).collect();
        let de_idx = de.iter().enumerate().map(|(i, e)| (e.name.clone(), i)).collect();
        let rows = row_registry();
        let row_idx = rows.iter().enumerate().map(|(i, e)| (e.name.clone(), i)).collect();
        Ctx { ser, de, rows, row_idx, ser_idx, de_idx }
    }
    fn ser_entry(&self, name: &str) -> Result<&SerEntry, String> {
        self.ser_idx.get(name).map(|i| &self.ser[*i]).ok_or(format!("error unknown-ser-carrier:{}", name))
    }
}

// ------------------------------------------------------------------ running the real code

fn fnv(b: &[u8]) -> String {
    let mut h: u64 = 0xcbf29ce484222325;
    for x in b {
        h ^= *x as u64;
        h = h.wrapping_mul(0x100000001b3);
    }
    format!("#{:016x}", h)
}

fn token(res: &str, sv: &SerializedValues) -> String {
    let count = sv.element_count();
    let iter = match catch(AssertUnwindSafe(|| sv.iter().count())) {
        Ok(n) => format!("{:x}", n),
        Err(_) => "panic".into(),
    };
    let len = sv.buffer_size();
    let mut buf = Vec::new();
    sv.write_to_request(&mut buf);
    let body = &buf[2..];
    let b = if len <= 128 { hex_bytes(body) } else { fnv(body) };
    format!("{}/{:x}/{}/{:x}/{}", res, count, iter, len, b)
}

fn add_one(ctx: &Ctx, sv: &mut SerializedValues, c: &str, t: &str, v: &str) -> Result<String, String> {
    let e = ctx.ser_entry(c)?;
    let ty = type_of_str(t).map_err(|x| format!("error bad-type:{}", x))?;
    let kv = kv_of_str(v).map_err(|x| format!("error bad-value:{}", x.replace(' ', "_")))?;
    match catch(AssertUnwindSafe(|| (e.add)(sv, &kv, &ty))) {
        Ok(Some(Ok(()))) => Ok("ok".into()),
        Ok(Some(Err(l))) => Ok(format!("err:{}", l)),
        Ok(None) => Err("error not-buildable".into()),
        Err(_) => Ok("panic".into()),
    }
}

fn run_case(ctx: &Ctx, case: &str) -> String {
    let f: Vec<&str> = case.split_whitespace().collect();
    match f.as_slice() {
        ["S", ws, c, t, v] => {
            let e = match ctx.ser_entry(c) {
                Ok(e) => e,
                Err(x) => return x,
            };
            let (ty, kv) = match (type_of_str(t), kv_of_str(v)) {
                (Ok(a), Ok(b)) => (a, b),
                (Err(x), _) | (_, Err(x)) => return format!("error bad-case:{}", x.replace(' ', "_")),
            };
            match catch(AssertUnwindSafe(|| (e.ser)(&kv, &ty, *ws == "1", &PREFIX))) {
                Ok(Some((Ok(()), buf))) => format!("ok {}", hex_bytes(&buf)),
                Ok(Some((Err(l), buf))) => format!("err:{} {}", l, hex_bytes(&buf)),
                Ok(None) => "error not-buildable -".into(),
                Err(_) => "panic -".into(),
            }
        }
        ["D", c, t] => {
            let e = match ctx.de_idx.get(*c) {
                Some(i) => &ctx.de[*i],
                None => return format!("error unknown-de-carrier:{}", c),
            };
            let ty = match type_of_str(t) {
                Ok(a) => a,
                Err(x) => return format!("error bad-type:{}", x),
            };
            match catch(AssertUnwindSafe(|| (e.tck)(&ty))) {
                Ok(s) => s,
                Err(_) => "panic".into(),
            }
        }
        ["A", ops @ ..] if !ops.is_empty() && ops.len() % 3 == 0 => {
            let mut sv = SerializedValues::new();
            let mut out = vec![];
            for o in ops.chunks(3) {
                match add_one(ctx, &mut sv, o[0], o[1], o[2]) {
                    Ok(res) => out.push(token(&res, &sv)),
                    Err(x) => return x,
                }
            }
            out.join(" ")
        }
        ["X", rep, c1, t1, v1, others @ ..] if !others.is_empty() && others.len() % 3 == 0 => {
            let rep = usize::from_str_radix(rep, 16).unwrap_or(0);
            let mut sv = SerializedValues::new();
            let mut last = "ok".to_string();
            // parse once, add many times
            let e = match ctx.ser_entry(c1) {
                Ok(e) => e,
                Err(x) => return x,
            };
            let (ty, kv) = match (type_of_str(t1), kv_of_str(v1)) {
                (Ok(a), Ok(b)) => (a, b),
                _ => return "error bad-case".into(),
            };
            for _ in 0..rep {
                last = match catch(AssertUnwindSafe(|| (e.add)(&mut sv, &kv, &ty))) {
                    Ok(Some(Ok(()))) => "ok".into(),
                    Ok(Some(Err(l))) => format!("err:{}", l),
                    Ok(None) => return "error not-buildable".into(),
                    Err(_) => "panic".into(),
                };
            }
            let mut out = vec![token(&last, &sv)];
            for o in others.chunks(3) {
                match add_one(ctx, &mut sv, o[0], o[1], o[2]) {
                    Ok(res) => out.push(token(&res, &sv)),
                    Err(x) => return x,
                }
            }
            out.join(" ")
        }
        ["R", ncols, rest @ ..] => {
            let ncols = usize::from_str_radix(ncols, 16).unwrap_or(usize::MAX);
            if rest.len() < ncols + 1 {
                return "error bad-case".into();
            }
            let mut specs = vec![];
            for (i, t) in rest[..ncols].iter().enumerate() {
                match type_of_str(t) {
                    Ok(ty) => specs.push(ColumnSpec::owned(format!("c{}", i), ty, TableSpec::owned("ks".into(), "tbl".into()))),
                    Err(x) => return format!("error bad-type:{}", x),
                }
            }
            let vals = &rest[ncols + 1..];
            if vals.len() % 2 != 0 {
                return "error bad-case".into();
            }
            let mut row: Vec<Box<dyn SerializeValue>> = vec![];
            for p in vals.chunks(2) {
                let e = match ctx.ser_entry(p[0]) {
                    Ok(e) => e,
                    Err(x) => return x,
                };
                let kv = match kv_of_str(p[1]) {
                    Ok(k) => k,
                    Err(x) => return format!("error bad-value:{}", x.replace(' ', "_")),
                };
                match (e.boxed)(&kv) {
                    Some(b) => row.push(b),
                    None => return "error not-buildable".into(),
                }
            }
            let r = catch(AssertUnwindSafe(|| SerializedValues::from_serializable(&RowSerializationContext::from_specs(&specs), &row)));
            match r {
                Ok(Ok(sv)) => token("ok", &sv),
                Ok(Err(e)) => format!("err:{}", row_leaf(&e)),
                Err(_) => "panic".into(),
            }
        }
        ["T", ncols, rest @ ..] => {
            let ncols = usize::from_str_radix(ncols, 16).unwrap_or(usize::MAX);
            if rest.len() != ncols + 2 {
                return "error bad-case".into();
            }
            let mut specs = vec![];
            let mut types = vec![];
            for (i, t) in rest[..ncols].iter().enumerate() {
                match type_of_str(t) {
                    Ok(ty) => {
                        types.push(ty.clone());
                        specs.push(ColumnSpec::owned(format!("c{}", i), ty, TableSpec::owned("ks".into(), "tbl".into())));
                    }
                    Err(x) => return format!("error bad-type:{}", x),
                }
            }
            let e = match ctx.row_idx.get(rest[ncols]) {
                Some(i) => &ctx.rows[*i],
                None => return format!("error unknown-row-carrier:{}", rest[ncols]),
            };
            let nrows = usize::from_str_radix(rest[ncols + 1], 16).unwrap_or(0);
            // the rows: values of the COLUMN types (what a server sends), derived from the case text
            let mut r = Rng::new(fnv_u64(case.as_bytes()));
            let mut data = vec![];
            for _ in 0..nrows {
                for t in &types {
                    let v = cql_of_type(t, &mut r, false, 0);
                    match add_value_bytes(&v, t) {
                        Ok(b) => data.extend(b),
                        Err(_) => data.extend((-1i32).to_be_bytes()),
                    }
                }
            }
            let data = bytes::Bytes::from(data);
            match catch(AssertUnwindSafe(|| (e.new)(&specs, nrows, &data))) {
                Ok(s) => s,
                Err(_) => "panic".into(),
            }
        }
        ["N", mapkind, ncols, rest @ ..] => {
            let ncols = usize::from_str_radix(ncols, 16).unwrap_or(usize::MAX);
            if rest.len() < 2 * ncols + 1 {
                return "error bad-case".into();
            }
            let hexname = |h: &str| unhex(h).ok().and_then(|b| String::from_utf8(b).ok());
            let mut specs = vec![];
            for (i, p) in rest[..2 * ncols].chunks(2).enumerate() {
                match (hexname(p[0]), type_of_str(p[1])) {
                    (Some(n), Ok(ty)) => specs.push(ColumnSpec::owned(n, ty, TableSpec::owned("ks".into(), "tbl".into()))),
                    _ => return format!("error bad-column:{}", i),
                }
            }
            let vals = &rest[2 * ncols + 1..];
            if vals.len() % 3 != 0 {
                return "error bad-case".into();
            }
            let mut entries: Vec<(String, Box<dyn SerializeValue>)> = vec![];
            for p in vals.chunks(3) {
                let key = match hexname(p[0]) {
                    Some(k) => k,
                    None => return "error bad-key".into(),
                };
                let e = match ctx.ser_entry(p[1]) {
                    Ok(e) => e,
                    Err(x) => return x,
                };
                let kv = match kv_of_str(p[2]) {
                    Ok(k) => k,
                    Err(x) => return format!("error bad-value:{}", x.replace(' ', "_")),
                };
                match (e.boxed)(&kv) {
                    Some(b) => entries.push((key, b)),
                    None => return "error not-buildable".into(),
                }
            }
            let ctxr = RowSerializationContext::from_specs(&specs);
            let keys: Vec<String> = entries.iter().map(|(k, _)| k.clone()).collect();
            let r = catch(AssertUnwindSafe(|| match *mapkind {
                "bt" => SerializedValues::from_serializable(&ctxr, &entries.into_iter().collect::<std::collections::BTreeMap<String, _>>()),
                "ht" => SerializedValues::from_serializable(&ctxr, &entries.into_iter().collect::<HashMap<String, _>>()),
                "bs" => {
                    let m: std::collections::BTreeMap<&str, Box<dyn SerializeValue>> =
                        keys.iter().map(|k| k.as_str()).zip(entries.into_iter().map(|(_, v)| v)).collect();
                    SerializedValues::from_serializable(&ctxr, &m)
                }
                _ => {
                    let m: HashMap<&str, Box<dyn SerializeValue>> =
                        keys.iter().map(|k| k.as_str()).zip(entries.into_iter().map(|(_, v)| v)).collect();
                    SerializedValues::from_serializable(&ctxr, &m)
                }
            }));
            match r {
                Ok(Ok(sv)) => token("ok", &sv),
                Ok(Err(e)) => format!("err:{}", row_leaf(&e)),
                Err(_) => "panic".into(),
            }
        }
        ["C", parts @ ..] if !parts.is_empty() => {
            let mut plan = vec![];
            for p in parts {
                let n = usize::from_str_radix(&p[1..], 16).unwrap_or(0);
                match &p[..1] {
                    "c" => plan.push((false, n)),
                    "a" if n <= 65535 => {
                        plan.push((true, n))
                    }
                    _ => return "error bad-case".into(),
                }
            }
            let r = catch(AssertUnwindSafe(|| {
                SerializedValues::from_closure(|w: &mut RowWriter| {
                    for (append, n) in &plan {
                        if *append {
                            let mut part = SerializedValues::new();
                            for _ in 0..*n {
                                part.add_value(&Option::<i32>::None, &nat(NativeType::Int)).unwrap();
                            }
                            w.append_serialize_row(&part);
                        } else {
                            for _ in 0..*n {
                                w.make_cell_writer().set_null();
                            }
                        }
                    }
                    Ok(())
                })
            }));
            match r {
                Ok(Ok((sv, ()))) => token("ok", &sv),
                Ok(Err(e)) => format!("err:{}", row_leaf(&e)),
                Err(_) => "panic".into(),
            }
        }
        _ => "error unknown-case".into(),
    }
}

fn fnv_u64(b: &[u8]) -> u64 {
    let mut h: u64 = 0xcbf29ce484222325;
    for x in b {
        h ^= *x as u64;
        h = h.wrapping_mul(0x100000001b3);
    }
    h
}

// ------------------------------------------------------------------ generators

/// the CQL types the documentation gives for a leaf carrier
fn leaf_natives(name: &str) -> Vec<NativeType> {
    use NativeType::*;
    match name {
        "bool" => vec![Boolean],
        "i8" => vec![TinyInt],
        "i16" => vec![SmallInt],
        "i32" => vec![Int],
        "i64" => vec![BigInt],
        "f32" => vec![Float],
        "f64" => vec![Double],
        "str" | "String" | "SecretString" => vec![Text, Ascii],
        "Counter" => vec![Counter],
        "VecU8" | "SliceU8" | "Bytes" | "ArrU8" => vec![Blob],
        "IpAddr" => vec![Inet],
        "Uuid" => vec![Uuid],
        "Timeuuid" => vec![Timeuuid],
        "CqlDate" | "ChronoDate" | "TimeDate" => vec![Date],
        "CqlTime" | "ChronoTime" | "TimeTime" => vec![Time],
        "CqlTimestamp" | "ChronoDateTime" | "TimeOffsetDateTime" => vec![Timestamp],
        "CqlDuration" => vec![Duration],
        "CqlDecimal" | "CqlDecimalB" | "BigDecimal" => vec![Decimal],
        "CqlVarint" | "CqlVarintB" | "BigInt03" | "BigInt04" => vec![Varint],
        _ => NATIVES.iter().map(|(_, n)| n.clone()).collect(), // Unset, CqlValue, FrameSlice: anything
    }
}

fn small_bytes(r: &mut Rng) -> Vec<u8> {
    let n = r.range(0, 5) as usize;
    r.bytes(n)
}
fn small_str(r: &mut Rng) -> String {
    let n = r.range(0, 4);
    (0..n).map(|_| (b'a' + r.below(6) as u8) as char).collect()
}
fn native_value(n: &NativeType, r: &mut Rng) -> CqlValue {
    match n {
        NativeType::Ascii => CqlValue::Ascii(small_str(r)),
        NativeType::Text => CqlValue::Text(small_str(r)),
        NativeType::Boolean => CqlValue::Boolean(r.bool()),
        NativeType::Blob => CqlValue::Blob(small_bytes(r)),
        NativeType::Counter => CqlValue::Counter(Counter(r.i64() >> r.below(64))),
        NativeType::Date => CqlValue::Date(CqlDate((1u32 << 31).wrapping_add((r.u64() % 20000) as u32))),
        NativeType::Decimal => {
            let mut b = small_bytes(r);
            if b.is_empty() {
                b.push(1);
            }
            CqlValue::Decimal(CqlDecimal::from_signed_be_bytes_and_exponent(b, r.range(0, 9) as i32))
        }
        NativeType::Double => CqlValue::Double(f64::from_bits(r.u64())),
        NativeType::Float => CqlValue::Float(f32::from_bits(r.u64() as u32)),
        NativeType::Duration => CqlValue::Duration(CqlDuration { months: r.range(0, 30) as i32, days: -(r.range(0, 400) as i32), nanoseconds: r.i64() >> r.below(64) }),
        NativeType::Int => CqlValue::Int((r.i64() >> r.range(32, 63)) as i32),
        NativeType::BigInt => CqlValue::BigInt(r.i64() >> r.below(64)),
        NativeType::Timestamp => CqlValue::Timestamp(CqlTimestamp((r.u64() % 4_000_000_000_000) as i64)),
        NativeType::Inet => {
            let b = if r.bool() { r.bytes(4) } else { r.bytes(16) };
            CqlValue::Inet(inet_of(&b).unwrap())
        }
        NativeType::SmallInt => CqlValue::SmallInt(r.u64() as i16),
        NativeType::TinyInt => CqlValue::TinyInt(r.u64() as i8),
        NativeType::Time => CqlValue::Time(CqlTime((r.u64() % 86_400_000_000_000) as i64)),
        NativeType::Timeuuid => CqlValue::Timeuuid(CqlTimeuuid::from_bytes(r.bytes(16).try_into().unwrap())),
        NativeType::Uuid => CqlValue::Uuid(uuid::Uuid::from_bytes(r.bytes(16).try_into().unwrap())),
        NativeType::Varint => {
            let mut b = small_bytes(r);
            if b.is_empty() {
                b.push(0x7f);
            }
            CqlValue::Varint(CqlVarint::from_signed_bytes_be(b))
        }
        _ => CqlValue::Int(1),
    }
}
/// values the two converting carriers refuse with ValueOverflow: a leap second, an exponent beyond i32
fn overflowing_leaf(name: &str, r: &mut Rng) -> Option<KV> {
    match name {
        "ChronoTime" => Some(KV::Leaf(CqlValue::Time(CqlTime(86_400_000_000_000 + (r.u64() % 1_000_000_000) as i64)))),
        "BigDecimal" => {
            let sc = if r.bool() { (1i64 << 31) + r.below(5) as i64 } else { -(1i64 << 31) - 1 - r.below(5) as i64 };
            Some(KV::BigDec(sc, vec![1 + r.below(100) as u8]))
        }
        _ => None,
    }
}
fn leaf_payload(name: &str, r: &mut Rng) -> CqlValue {
    match name {
        "ArrU8" => CqlValue::Blob(r.bytes(4)),
        "str" | "String" | "SecretString" => CqlValue::Text(small_str(r)),
        _ => native_value(&leaf_natives(name)[0], r),
    }
}

fn elem_of(t: Option<&Ty>) -> Option<&Ty> {
    match t? {
        ColumnType::Collection { typ: CollectionType::List(e), .. } | ColumnType::Collection { typ: CollectionType::Set(e), .. } => Some(e),
        ColumnType::Vector { typ, .. } => Some(typ),
        _ => None,
    }
}
fn dim_of(t: Option<&Ty>) -> Option<usize> {
    match t? {
        ColumnType::Vector { dimensions, .. } => Some(*dimensions as usize),
        _ => None,
    }
}

/// a CqlValue of column type `t`; `holes`: nulls / Empty / short tuples / missing UDT fields
fn cql_of_type(t: &Ty, r: &mut Rng, holes: bool, depth: u32) -> CqlValue {
    if holes && r.chance(1, 12) {
        return CqlValue::Empty;
    }
    match t {
        ColumnType::Native(n) => native_value(n, r),
        ColumnType::Collection { typ: CollectionType::List(e), .. } | ColumnType::Collection { typ: CollectionType::Set(e), .. } => {
            let n = if holes { r.range(0, 3) } else { 2 };
            let l = (0..n).map(|_| cql_of_type(e, r, holes, depth + 1)).collect();
            if matches!(t, ColumnType::Collection { typ: CollectionType::Set(_), .. }) { CqlValue::Set(l) } else { CqlValue::List(l) }
        }
        ColumnType::Collection { typ: CollectionType::Map(k, v), .. } => {
            let n = if holes { r.range(0, 2) } else { 1 };
            CqlValue::Map((0..n).map(|_| (cql_of_type(k, r, holes, depth + 1), cql_of_type(v, r, holes, depth + 1))).collect())
        }
        ColumnType::Vector { typ, dimensions } => {
            let n = if holes && r.chance(1, 8) { *dimensions as usize + 1 } else { *dimensions as usize };
            CqlValue::Vector((0..n).map(|_| cql_of_type(typ, r, holes, depth + 1)).collect())
        }
        ColumnType::Tuple(ts) => {
            let n = if holes && r.chance(1, 4) { r.below(ts.len() as u64 + 1) as usize } else { ts.len() };
            CqlValue::Tuple((0..n).map(|i| if holes && r.chance(1, 5) { None } else { Some(cql_of_type(&ts[i], r, holes, depth + 1)) }).collect())
        }
        ColumnType::UserDefinedType { definition, .. } => {
            let mut fields = vec![];
            for (n, ft) in &definition.field_types {
                if holes && r.chance(1, 5) {
                    continue;
                }
                fields.push((n.to_string(), if holes && r.chance(1, 6) { None } else { Some(cql_of_type(ft, r, holes, depth + 1)) }));
            }
            if holes && r.chance(1, 3) {
                r.shuffle(&mut fields);
            }
            if holes && r.chance(1, 12) {
                fields.push(("zz".to_string(), Some(CqlValue::Int(1)))); // a field the type does not have
            }
            if holes && r.chance(1, 12) && !fields.is_empty() {
                let f = fields[0].clone();
                fields.push(f); // a duplicate entry: the last one counts
            }
            let name = if holes && r.chance(1, 12) { "other".to_string() } else { definition.name.to_string() };
            CqlValue::UserDefinedType { keyspace: definition.keyspace.to_string(), name, fields }
        }
        _ => CqlValue::Int(1),
    }
}

/// a value of the carrier; populated (every position filled) unless `holes`
#[derive(Clone, Copy, PartialEq)]
enum Mode {
    Pop,
    Holes,
    /// populated, except that every HashSet / BTreeSet is empty
    EmptySets,
}
fn witness(d: &Desc, t: Option<&Ty>, r: &mut Rng, mode: Mode) -> KV {
    let holes = mode == Mode::Holes;
    let hole = |r: &mut Rng| holes && r.chance(1, 5);
    match d.name {
        "CqlValue" => KV::Leaf(match t {
            Some(t) => cql_of_type(t, r, holes, 0),
            None => CqlValue::Int(1),
        }),
        "Unset" => KV::Unset,
        "Opt" => if hole(r) { KV::Null } else { wrap(witness(&d.args[0], t, r, mode)) },
        "MUnset" => if hole(r) { KV::Unset } else { wrap(witness(&d.args[0], t, r, mode)) },
        "MEmpty" => if hole(r) { KV::Empty } else { wrap(witness(&d.args[0], t, r, mode)) },
        "Ref" | "Box" | "Arc" | "Cow" | "Sec08" | "SecBox10" => wrap(witness(&d.args[0], t, r, mode)),
        "Vec" | "Slice" | "HSet" | "BSet" => {
            let mut n = match dim_of(t) {
                Some(dim) => dim,
                None => if d.name == "HSet" { 1 } else { 2 },
            };
            if d.name == "HSet" {
                n = n.min(1);
            }
            if holes {
                match r.below(8) {
                    0 => n = 0,
                    1 if d.name != "HSet" => n += 1,
                    _ => {}
                }
            }
            if mode == Mode::EmptySets && (d.name == "HSet" || d.name == "BSet") {
                n = 0;
            }
            KV::Seq((0..n).map(|_| witness(&d.args[0], elem_of(t), r, mode)).collect())
        }
        "HMap" | "BMap" => {
            let (kt, vt) = match t {
                Some(ColumnType::Collection { typ: CollectionType::Map(k, v), .. }) => (Some(&**k), Some(&**v)),
                _ => (None, None),
            };
            let n = if holes && r.chance(1, 6) { 0 } else if d.name == "BMap" && holes && r.chance(1, 4) { 2 } else { 1 };
            KV::Map((0..n).map(|_| (witness(&d.args[0], kt, r, mode), witness(&d.args[1], vt, r, mode))).collect())
        }
        "Tup" => {
            let ts = match t {
                Some(ColumnType::Tuple(ts)) => Some(ts),
                _ => None,
            };
            KV::Tup(d.args.iter().enumerate().map(|(i, a)| witness(a, ts.and_then(|ts| ts.get(i)), r, mode)).collect())
        }
        leaf => {
            if holes && r.chance(1, 6) {
                if let Some(kv) = overflowing_leaf(leaf, r) {
                    return kv;
                }
            }
            KV::Leaf(leaf_payload(leaf, r))
        }
    }
}

fn random_type(r: &mut Rng, depth: u32) -> Ty {
    if depth == 0 || r.chance(1, 3) {
        return nat(NATIVES[r.below(20) as usize].1.clone());
    }
    match r.below(7) {
        0 => list_t(random_type(r, depth - 1)),
        1 => set_t(random_type(r, depth - 1)),
        2 => map_t(random_type(r, depth - 1), random_type(r, depth - 1)),
        3 => ColumnType::Tuple((0..r.range(1, 3)).map(|_| random_type(r, depth - 1)).collect()),
        4 => udt_t("ks", "t", (0..r.range(1, 3)).map(|i| (format!("f{}", i), random_type(r, depth - 1))).collect()),
        _ => vec_t(random_type(r, depth - 1), r.range(0, 3) as u16),
    }
}

/// a column type the carrier fits (per the documentation)
fn fit_type(d: &Desc, r: &mut Rng) -> Ty {
    match d.name {
        "CqlValue" | "FrameSlice" => random_type(r, 2),
        "Unset" => random_type(r, 1),
        "Opt" | "MUnset" | "MEmpty" | "Ref" | "Box" | "Arc" | "Cow" | "Sec08" | "SecBox10" => fit_type(&d.args[0], r),
        "Vec" | "Slice" | "SecSlice" => {
            let e = fit_type(&d.args[0], r);
            match r.below(4) {
                0 => set_t(e),
                1 => vec_t(e, r.range(1, 3) as u16),
                _ => list_t(e),
            }
        }
        "HSet" | "BSet" => {
            let e = fit_type(&d.args[0], r);
            if r.chance(1, 4) { list_t(e) } else { set_t(e) }
        }
        "ListIter" => {
            let e = fit_type(&d.args[0], r);
            if r.bool() { list_t(e) } else { set_t(e) }
        }
        "VecIter" => vec_t(fit_type(&d.args[0], r), r.range(1, 3) as u16),
        "HMap" | "BMap" | "MapIter" => map_t(fit_type(&d.args[0], r), fit_type(&d.args[1], r)),
        "Tup" => {
            let mut ts: Vec<Ty> = d.args.iter().map(|a| fit_type(a, r)).collect();
            if r.chance(1, 5) {
                ts.push(random_type(r, 1));
            }
            ColumnType::Tuple(ts)
        }
        "UdtIter" => udt_t("ks", "t", vec![("a".into(), nat(NativeType::Int)), ("b".into(), nat(NativeType::Text))]),
        leaf => nat(r.pick(&leaf_natives(leaf)).clone()),
    }
}

/// change one position of a type: another native, another container kind, another arity / dimension
fn perturb(t: &Ty, r: &mut Rng) -> Ty {
    let other_native = |r: &mut Rng, n: &NativeType| loop {
        let m = NATIVES[r.below(20) as usize].1.clone();
        if &m != n {
            break m;
        }
    };
    match t {
        ColumnType::Native(n) => {
            if r.chance(1, 6) { list_t(t.clone()) } else { nat(other_native(r, n)) }
        }
        ColumnType::Collection { typ: CollectionType::List(e), .. } => match r.below(5) {
            0 => set_t((**e).clone()),
            1 => vec_t((**e).clone(), r.range(0, 3) as u16),
            2 => map_t((**e).clone(), (**e).clone()),
            _ => list_t(perturb(e, r)),
        },
        ColumnType::Collection { typ: CollectionType::Set(e), .. } => match r.below(5) {
            0 => list_t((**e).clone()),
            1 => vec_t((**e).clone(), r.range(0, 3) as u16),
            2 => ColumnType::Tuple(vec![(**e).clone()]),
            _ => set_t(perturb(e, r)),
        },
        ColumnType::Collection { typ: CollectionType::Map(k, v), .. } => match r.below(4) {
            0 => list_t((**k).clone()),
            1 => map_t(perturb(k, r), (**v).clone()),
            _ => map_t((**k).clone(), perturb(v, r)),
        },
        ColumnType::Vector { typ, dimensions } => match r.below(4) {
            0 => vec_t((**typ).clone(), dimensions.wrapping_add(1)),
            1 => list_t((**typ).clone()),
            _ => vec_t(perturb(typ, r), *dimensions),
        },
        ColumnType::Tuple(ts) => {
            let mut ts = ts.clone();
            match r.below(4) {
                0 if !ts.is_empty() => {
                    ts.pop();
                }
                1 => ts.push(nat(NativeType::Int)),
                _ if !ts.is_empty() => {
                    let i = r.below(ts.len() as u64) as usize;
                    ts[i] = perturb(&ts[i], r);
                }
                _ => return nat(NativeType::Int),
            }
            ColumnType::Tuple(ts)
        }
        _ => nat(NativeType::Int),
    }
}

/// the fixed two-level list of column types of the matrix
fn matrix_types() -> Vec<Ty> {
    let n = |x: &str| type_of_str(x).unwrap();
    let mut v: Vec<Ty> = NATIVES.iter().map(|(_, t)| nat(t.clone())).collect();
    for (_, e) in NATIVES.iter() {
        v.push(list_t(nat(e.clone())));
        v.push(set_t(nat(e.clone())));
        v.push(vec_t(nat(e.clone()), 2));
        v.push(ColumnType::Tuple(vec![nat(e.clone())]));
    }
    let six = ["int", "text", "bigint", "blob", "uuid", "boolean"];
    for k in six {
        for x in six {
            v.push(map_t(n(k), n(x)));
        }
    }
    for s in ["T(int;text)", "T(int;text;blob)", "T(int;int;int)", "T()", "T(int;int;int;bigint)",
              "U(6b73;7431;61:int;62:text)", "U(6b73;7432;78:L(int))"] {
        v.push(n(s));
    }
    for n in 5..=15 {
        v.push(ColumnType::Tuple(vec![nat(NativeType::Int); n]));
    }
    v.push(ColumnType::Tuple(vec![nat(NativeType::Int); 16]));
    v.push(ColumnType::Tuple(vec![nat(NativeType::Int); 17]));
    for e in ["int", "text", "bigint", "double", "blob", "uuid"] {
        for pat in ["L(L(E))", "L(S(E))", "S(L(E))", "V(L(E);2)", "L(V(E;2))", "V(V(E;2);2)", "M(int;L(E))", "L(M(int;E))",
                    "L(T(E;E))", "T(L(E);E)", "M(int;V(E;2))", "V(E;1)", "V(E;3)", "V(E;0)", "L(L(L(E)))", "T(E;int)", "M(E;S(E))",
                    "T(T(int;text);bigint)"] {
            v.push(n(&pat.replace('E', e)));
        }
    }
    let mut seen = std::collections::HashSet::new();
    v.retain(|t| seen.insert(s_type(t)));
    v
}

fn is_leaf_desc(d: &Desc) -> bool {
    d.args.is_empty() && d.name != "Tup"
}

struct Gen<'a> {
    ctx: &'a Ctx,
    r: Rng,
}
impl<'a> Gen<'a> {
    /// (carrier, type, value) that mostly serialises
    fn good_op(&mut self, holes: bool) -> (String, Ty, KV) {
        loop {
            let e = &self.ctx.ser[self.r.below(self.ctx.ser.len() as u64) as usize];
            let t = fit_type(&e.desc, &mut self.r);
            let kv = witness(&e.desc, Some(&t), &mut self.r, if holes { Mode::Holes } else { Mode::Pop });
            if let Some(c) = (e.canon)(&kv) {
                return (e.name.clone(), t, c);
            }
        }
    }
    fn op_of(&mut self, carrier: &str, t: &str, v: &str) -> (String, Ty, KV) {
        (carrier.to_string(), type_of_str(t).unwrap(), kv_of_str(v).unwrap())
    }
    /// an operation that (mostly) fails, of a random failure kind
    fn bad_op(&mut self) -> (String, Ty, KV) {
        match self.r.below(13) {
            // top-level type mismatch
            0 | 1 => {
                let (c, t, v) = self.good_op(false);
                let t2 = match self.r.below(3) {
                    0 => random_type(&mut self.r, 1),
                    _ => perturb(&t, &mut self.r),
                };
                (c, t2, v)
            }
            // nested element failures after siblings were written
            2 => self.op_of("Vec[CqlValue]", "L(int)", "seq[{int:1},{int:2},{text:61}]"),
            3 => self.op_of("Tup[i32,String]", "T(int;int)", "tup[{int:1},{text:61}]"),
            4 => self.op_of("BMap[i32,String]", "M(int;int)", "map[{int:1}~{text:61}]"),
            5 => self.op_of("Vec[CqlValue]", "L(L(int))", "seq[{list(int:1)},{list(int:2;text:61)}]"),
            6 => match self.r.below(4) {
                0 => self.op_of("CqlValue", "U(6b73;7431;61:int;62:text)", "{udt(6b73;7431;61=int:1;62=text:61;7a=int:3)}"),
                1 => self.op_of("CqlValue", "T(int;text)", "{tuple(int:1;text:61;int:3)}"),
                2 => self.op_of("CqlValue", "U(6b73;7431;61:int;62:text)", "{udt(6b73;7431;61=int:1;62=int:2)}"),
                _ => self.op_of("CqlValue", "M(int;L(text))", "{map(int:1=list(text:61;text:62);int:2=list(text:63;int:4))}"),
            },
            7 => match self.r.below(8) {
                0 => self.op_of("Vec[Opt[String]]", "L(int)", "seq[null,w[{text:61}]]"),
                // inside a vector element: packed (fixed width) and through the scratch buffer (variable width)
                1 => self.op_of("Vec[CqlValue]", "V(int;2)", "seq[{int:1},{text:61}]"),
                2 => self.op_of("Vec[CqlValue]", "V(text;2)", "seq[{text:61},{int:1}]"),
                // a map key after a complete entry
                3 => self.op_of("BMap[String,i32]", "M(text;text)", "map[{text:61}~{int:1}]"),
                4 => self.op_of("Vec[CqlValue]", "L(M(int;int))", "seq[{map(int:1=int:2)},{map(text:61=int:2)}]"),
                // through Box / Arc / & / secrecy
                5 => self.op_of("Vec[Box[i32]]", "L(text)", "seq[w[{int:1}],w[{int:2}]]"),
                6 => self.op_of("Box[Vec[i32]]", "L(text)", "w[seq[{int:1}]]"),
                _ => self.op_of("Sec08[String]", "int", "w[{text:61}]"),
            },
            // a conversion that fails (ValueOverflow), alone and after siblings; BigDecimal leaves a placeholder behind
            11 => match self.r.below(5) {
                0 => self.op_of("BigDecimal", "decimal", "bigdec[80000000,01]"),
                1 => self.op_of("ChronoTime", "time", "{time:4e94914f0001}"),
                2 => self.op_of("Vec[BigDecimal]", "L(decimal)", "seq[{decimal:2:01},bigdec[-80000001,7f]]"),
                3 => self.op_of("Vec[ChronoTime]", "V(time;2)", "seq[{time:1},{time:4e94914f0000}]"),
                _ => self.op_of("Opt[BigDecimal]", "text", "w[bigdec[80000000,01]]"),
            },
            // vector length mismatch
            8 => {
                let b = *self.r.pick(&["i32", "String", "f64", "Uuid"]);
                let e = self.ctx.ser_entry(&format!("Vec[{}]", b)).unwrap();
                let et = nat(leaf_natives(b)[0].clone());
                let dim = self.r.range(0, 3) as u16;
                let n = if self.r.bool() { dim as usize + 1 } else { (dim as usize).saturating_sub(1) };
                let kv = KV::Seq((0..n).map(|_| KV::Leaf(leaf_payload(b, &mut self.r))).collect());
                (e.name.clone(), vec_t(et, dim), kv)
            }
            // not emptyable
            9 => match self.r.below(3) {
                0 => self.op_of("MEmpty[i32]", "counter", "mempty"),
                1 => self.op_of("CqlValue", "L(int)", "{empty}"),
                _ => self.op_of("Vec[MEmpty[i64]]", "L(duration)", "seq[w[{bigint:1}],mempty]"),
            },
            // a nested position of a fitting type changed
            _ => {
                let (c, t, v) = self.good_op(false);
                let mut t2 = perturb(&t, &mut self.r);
                if self.r.bool() {
                    t2 = perturb(&t2, &mut self.r);
                }
                (c, t2, v)
            }
        }
    }
}

fn s_op(o: &(String, Ty, KV)) -> String {
    format!("{} {} {}", o.0, s_type(&o.1), o.2.show())
}

fn main() {
    let a = parse_args();
    quiet_panics();
    let ctx = Ctx::new();
    let mut out = Out::create(&a.out);
    if let Some(p) = &a.replay {
        for c in read_cases(p) {
            let o = run_case(&ctx, &c);
            out.case(&c, &o);
        }
        out.finish();
        return;
    }
    let thorough = a.tier == "thorough";
    let mut g = Gen { ctx: &ctx, r: Rng::new(a.seed) };
    let types = matrix_types();
    let emit = |out: &mut Out, c: String| {
        let o = run_case(&ctx, &c);
        out.case(&c, &o);
    };

    // ---- directed part (does not depend on the seed, except for WHICH quarter of the two-level
    //      matrix the quick tier visits: the quarter rotates with the seed)
    let mut dr = Rng::new(0xC17);
    let quarter = |i: usize, j: usize| i.wrapping_mul(7919).wrapping_add(j.wrapping_mul(104729)).wrapping_add(a.seed as usize) % 4 == 0;
    // 1. the serialisation matrix (populated witnesses)
    for (i, e) in ctx.ser.iter().enumerate() {
        for (j, t) in types.iter().enumerate() {
            let native = matches!(t, ColumnType::Native(_));
            if !thorough && !native && !is_leaf_desc(&e.desc) && !quarter(i, j) {
                continue;
            }
            let kv = witness(&e.desc, Some(t), &mut dr, Mode::Pop);
            if let Some(c) = (e.canon)(&kv) {
                emit(&mut out, format!("S 1 {} {} {}", e.name, s_type(t), c.show()));
                // size-less top-level writers for the leaves
                if native && is_leaf_desc(&e.desc) {
                    emit(&mut out, format!("S 0 {} {} {}", e.name, s_type(t), c.show()));
                }
            }
        }
    }
    // 2. empty sets (and values that hold only empty sets) against EVERY column type
    for e in ctx.ser.iter().filter(|e| e.name.contains("HSet[") || e.name.contains("BSet[")) {
        for t in &types {
            let kv = witness(&e.desc, Some(t), &mut dr, Mode::EmptySets);
            if let Some(c) = (e.canon)(&kv) {
                emit(&mut out, format!("S 1 {} {} {}", e.name, s_type(t), c.show()));
            }
        }
    }
    // 3. the deserialization type_check matrix
    for (i, e) in ctx.de.iter().enumerate() {
        for (j, t) in types.iter().enumerate() {
            let native = matches!(t, ColumnType::Native(_));
            if !thorough && !native && !is_leaf_desc(&e.desc) && !quarter(i, j) {
                continue;
            }
            emit(&mut out, format!("D {} {}", e.name, s_type(t)));
        }
    }
    // 4. typed rows: fitting columns, every single column perturbed, one column too few / too many
    for e in &ctx.rows {
        let cols: Vec<Ty> = e.desc.args.iter().map(|a| fit_type(a, &mut dr)).collect();
        let t_case = |cols: &[Ty], n: usize| {
            let mut p = vec![format!("T {:x}", cols.len())];
            p.extend(cols.iter().map(s_type));
            p.push(e.name.clone());
            p.push(format!("{:x}", n));
            p.join(" ")
        };
        emit(&mut out, t_case(&cols, 2));
        for i in 0..cols.len().min(4) {
            for _ in 0..2 {
                let mut c2 = cols.clone();
                c2[i] = perturb(&cols[i], &mut dr);
                emit(&mut out, t_case(&c2, 2));
            }
        }
        if !cols.is_empty() {
            emit(&mut out, t_case(&cols[..cols.len() - 1], 1));
        }
        let mut c3 = cols.clone();
        c3.push(nat(NativeType::Int));
        emit(&mut out, t_case(&c3, 1));
    }
    // 5. the 65535 cap, alone and combined with other failures before and after it
    for c in ["X ffff Opt[i32] int null i32 int {int:1}",
              "X ffff i32 int {int:1} String int {text:61} i32 int {int:2} Vec[CqlValue] L(int) seq[{int:1},{text:61}]",
              "X fffe i32 int {int:1} i32 int {int:2} i32 int {int:3}",
              "X fffe i32 int {int:1} String int {text:61} i32 int {int:2} i32 int {int:3} String int {text:61}",
              "X fffd i32 int {int:1} Vec[CqlValue] L(L(int)) seq[{list(int:1)},{list(int:2;text:61)}] Opt[i32] int null Vec[i32] V(int;2) seq[{int:1}] i32 int {int:9} i32 int {int:9}",
              "X ffff Vec[i32] L(int) seq[{int:1},{int:2}] Tup[i32,String] T(int;int) tup[{int:1},{text:61}]"] {
        emit(&mut out, c.to_string());
    }
    // 5b. rows bound by name: the four map types; another key order, a missing value, unknown keys
    //     (the lexicographically first is reported), a value that does not serialise, a repeated column name
    for k in ["bt", "bs", "ht", "hs"] {
        for c in ["2 62 int 61 text 2 61 String {text:78} 62 Opt[i32] null",
                  "2 62 int 61 text 3 61 String {text:78} 62 Opt[i32] null 63 i32 {int:1}",
                  "2 62 int 61 text 4 61 String {text:78} 7a62 i32 {int:1} 62 Opt[i32] null 4161 i32 {int:1}",
                  "2 62 int 61 text 1 61 String {text:78}",
                  "2 62 int 61 text 2 62 String {text:78} 61 String {text:78}",
                  "2 62 int 61 text 2 61 Vec[CqlValue] seq[{int:1},{text:61}] 62 i32 {int:1}",
                  "3 61 int 62 L(int) 61 int 2 61 i32 {int:7} 62 Vec[CqlValue] seq[{int:1},{text:61}]",
                  "2 61 int 61 text 1 61 i32 {int:7}",
                  "0 0", "0 1 61 i32 {int:1}", "1 61 V(int;2) 1 61 Vec[Opt[i32]] seq[w[{int:7}],null]"] {
            emit(&mut out, format!("N {} {}", k, c));
        }
    }
    // 6. value counts that pass through a RowWriter (from_closure): cells and appended rows
    for c in ["C c10000", "C a9c40 a9c40", "C cffff", "C cffff c1", "C affff c1", "C c8000 a8000", "C c7fff a8000", "C c0", "C c3 a2",
              "C affff affff", "C a1 cffff", "C c10001", "C a8000 a8000 a8000"] {
        emit(&mut out, c.to_string());
    }

    // ---- random part
    for _ in 0..a.n {
        let c = match g.r.below(100) {
            // serialisation of random values into fitting / perturbed types, sized and size-less writers
            0..=34 => {
                let holes = g.r.chance(2, 3);
                let (c, t, _) = g.good_op(false);
                let e = ctx.ser_entry(&c).unwrap();
                let t = if g.r.chance(1, 4) { perturb(&t, &mut g.r) } else { t };
                let kv = witness(&e.desc, Some(&t), &mut g.r, if holes { Mode::Holes } else { Mode::Pop });
                let kv = match (e.canon)(&kv) {
                    Some(k) => k,
                    None => continue,
                };
                let ws = if g.r.chance(1, 5) { 0 } else { 1 };
                format!("S {} {} {} {}", ws, c, s_type(&t), kv.show())
            }
            // the dynamic value against types it does / does not belong to
            35..=44 => {
                let t = random_type(&mut g.r, 3);
                let vt = if g.r.chance(1, 3) { perturb(&t, &mut g.r) } else { t.clone() };
                let h = g.r.bool();
                let v = cql_of_type(&vt, &mut g.r, h, 0);
                let (c, kv) = match g.r.below(4) {
                    0 => ("Vec[CqlValue]".to_string(), KV::Seq(vec![KV::Leaf(v.clone()), KV::Leaf(v)])),
                    1 => ("Opt[CqlValue]".to_string(), wrap(KV::Leaf(v))),
                    _ => ("CqlValue".to_string(), KV::Leaf(v)),
                };
                let t = if c.starts_with("Vec") { list_t(t) } else { t };
                format!("S 1 {} {} {}", c, s_type(&t), kv.show())
            }
            // typed rows over fitting / perturbed / mis-counted columns
            45..=48 => {
                let e = &ctx.rows[g.r.below(ctx.rows.len() as u64) as usize];
                let mut cols: Vec<Ty> = e.desc.args.iter().map(|a| fit_type(a, &mut g.r)).collect();
                match g.r.below(6) {
                    0 | 1 if !cols.is_empty() => {
                        let i = g.r.below(cols.len() as u64) as usize;
                        cols[i] = perturb(&cols[i], &mut g.r);
                    }
                    2 if !cols.is_empty() => {
                        cols.pop();
                    }
                    3 => cols.push(random_type(&mut g.r, 1)),
                    _ => {}
                }
                let mut p = vec![format!("T {:x}", cols.len())];
                p.extend(cols.iter().map(s_type));
                p.push(e.name.clone());
                p.push(format!("{:x}", g.r.below(4)));
                p.join(" ")
            }
            // type_check
            49..=54 => {
                let e = &ctx.de[g.r.below(ctx.de.len() as u64) as usize];
                let t = match g.r.below(3) {
                    0 => types[g.r.below(types.len() as u64) as usize].clone(),
                    1 => fit_type(&e.desc, &mut g.r),
                    _ => {
                        let t = fit_type(&e.desc, &mut g.r);
                        perturb(&t, &mut g.r)
                    }
                };
                format!("D {} {}", e.name, s_type(&t))
            }
            // add_value sequences: a prefix, a failing value of some kind, sometimes more
            55..=89 => {
                let mut ops = vec![];
                for _ in 0..g.r.below(7) {
                    let h = g.r.bool();
                    let o = g.good_op(h);
                    ops.push(s_op(&o));
                }
                if !g.r.chance(1, 10) {
                    let o = g.bad_op();
                    ops.push(s_op(&o));
                }
                for _ in 0..g.r.below(3) {
                    let o = if g.r.chance(1, 4) { g.bad_op() } else { g.good_op(false) };
                    ops.push(s_op(&o));
                }
                if ops.is_empty() {
                    continue;
                }
                format!("A {}", ops.join(" "))
            }
            // rows bound by name: BTreeMap / HashMap<String | &str, _>
            90..=94 => {
                let n = g.r.below(6) as usize;
                let mut cols: Vec<(String, Ty)> = vec![];
                let mut kvs: Vec<(String, String)> = vec![];
                for i in 0..n {
                    let h = g.r.bool();
                    let (c, t, v) = if g.r.chance(1, 10) { g.bad_op() } else { g.good_op(h) };
                    // mostly distinct names, in an order that is neither the column nor the key order; sometimes a repeated name
                    let name = if i > 0 && g.r.chance(1, 12) { cols[0].0.clone() } else { format!("{}{}", (b'a' + g.r.below(26) as u8) as char, i) };
                    if !cols.iter().any(|(n, _)| *n == name) {
                        kvs.push((name.clone(), format!("{} {}", c, v.show())));
                    }
                    cols.push((name, t));
                }
                match g.r.below(10) {
                    0 if !kvs.is_empty() => {
                        let i = g.r.below(kvs.len() as u64) as usize;
                        kvs.remove(i); // a column without a value
                    }
                    1 => kvs.push(("zz".into(), "i32 {int:1}".into())), // a key that names no column
                    2 => {
                        // two unknown keys: the lexicographically first is reported
                        kvs.push(("zb".into(), "i32 {int:1}".into()));
                        kvs.push(("Aa".into(), "String {text:61}".into()));
                    }
                    _ => {}
                }
                g.r.shuffle(&mut kvs);
                let mut parts = vec![format!("N {} {:x}", g.r.pick(&["bt", "bs", "ht", "hs"]), cols.len())];
                for (n, t) in &cols {
                    parts.push(hex_bytes(n.as_bytes()));
                    parts.push(s_type(t));
                }
                parts.push(format!("{:x}", kvs.len()));
                for (k, cv) in &kvs {
                    parts.push(format!("{} {}", hex_bytes(k.as_bytes()), cv));
                }
                parts.join(" ")
            }
            // rows
            _ => {
                let n = g.r.below(6) as usize;
                let mut cols = vec![];
                let mut vals = vec![];
                for _ in 0..n {
                    let h = g.r.bool();
                    let (c, t, v) = if g.r.chance(1, 8) { g.bad_op() } else { g.good_op(h) };
                    cols.push(s_type(&t));
                    vals.push(format!("{} {}", c, v.show()));
                }
                match g.r.below(8) {
                    0 if !vals.is_empty() => {
                        vals.pop();
                    }
                    1 => cols.push("int".into()),
                    _ => {}
                }
                let mut parts = vec![format!("R {:x}", cols.len())];
                parts.extend(cols);
                parts.push(format!("{:x}", vals.len()));
                parts.extend(vals);
                parts.join(" ")
            }
        };
        emit(&mut out, c);
    }
    out.finish();
}

