//! C20 runner.
//!
//! pure part (no I/O): the real keyspace-name validation (`VerifiedKeyspaceName::new`), the real
//! check of a USE response (`Connection::verify_use_keyspace_result`) and the real aggregation of
//! per-connection / per-node results (`cluster::use_keyspace_result`), through the pass-through
//! hooks `scylla::client::verif_keyspace`, on exhaustive-small and seeded random inputs.
//!
//! e2e part: a real `Session` against `vh::mocknode` (see `c20_e2e.rs`).
use scylla::client::verif_keyspace as hooks;
use scylla::errors::{BadKeyspaceName, RequestAttemptError, UseKeyspaceError};
use vh::*;

#[path = "../c20_e2e.rs"]
mod e2e;

pub fn enc_name(s: &str) -> String {
    if s.is_empty() {
        return "-".into();
    }
    s.chars().map(|c| format!("{:x}", c as u32)).collect::<Vec<_>>().join(",")
}
pub fn dec_name(s: &str) -> String {
    if s == "-" {
        return String::new();
    }
    s.split(',').map(|h| char::from_u32(u32::from_str_radix(h, 16).unwrap()).unwrap()).collect()
}

fn run_name(name: &str, cs: bool) -> String {
    let n = name.to_string();
    match catch(move || hooks::verify_keyspace_name(n, cs)) {
        Ok(Ok((stored, c))) => format!("ok {} {}", enc_name(&stored), c as u8),
        Ok(Err(BadKeyspaceName::Empty)) => "err empty".into(),
        Ok(Err(BadKeyspaceName::TooLong(_, len))) => format!("err toolong {:x}", len),
        Ok(Err(BadKeyspaceName::IllegalCharacter(_, c))) => format!("err illegal {:x}", c as u32),
        Ok(Err(_)) => "err other".into(),
        Err(_) => "panic".into(),
    }
}

fn run_verify(name: &str, cs: bool, reply: &str) -> String {
    let rep = match reply {
        "E" => hooks::VerifUseReply::DbError("scripted".into()),
        "V" => hooks::VerifUseReply::Void,
        "R" => hooks::VerifUseReply::Ready,
        s => hooks::VerifUseReply::SetKeyspace(dec_name(&s[2..])),
    };
    let n = name.to_string();
    match catch(move || hooks::verify_use_keyspace_reply(n, cs, rep)) {
        Ok(Ok(())) => "ok".into(),
        Ok(Err(UseKeyspaceError::KeyspaceNameMismatch { .. })) => "mismatch".into(),
        Ok(Err(UseKeyspaceError::RequestError(RequestAttemptError::DbError(..)))) => "dberror".into(),
        Ok(Err(UseKeyspaceError::RequestError(RequestAttemptError::UnexpectedResponse(_)))) => "unexpected".into(),
        Ok(Err(UseKeyspaceError::BadKeyspaceName(_))) => "badname".into(),
        Ok(Err(_)) => "other".into(),
        Err(_) => "panic".into(),
    }
}

fn run_agg(list: &str) -> String {
    use hooks::{VerifUseAggregate as A, VerifUseOutcome as O};
    let outs: Vec<O> = if list == "-" {
        vec![]
    } else {
        list.split(',')
            .map(|t| {
                let tag = || u16::from_str_radix(&t[1..], 16).unwrap();
                match t.as_bytes()[0] {
                    b'o' => O::Ok,
                    b'b' => O::Broken(tag()),
                    b't' => O::Timeout(tag()),
                    b'm' => O::Mismatch(tag()),
                    _ => O::NoStreamId,
                }
            })
            .collect()
    };
    match catch(move || hooks::use_keyspace_result(&outs)) {
        Ok(A::Ok) => "ok".into(),
        Ok(A::Broken(t)) => format!("b{:x}", t),
        Ok(A::Timeout(t)) => format!("t{:x}", t),
        Ok(A::Mismatch(t)) => format!("m{:x}", t),
        Ok(A::NoStreamId) => "n".into(),
        Ok(A::Unknown) => "unknown".into(),
        Err(_) => "panic".into(),
    }
}

fn run_case(case: &str) -> Option<String> {
    let f: Vec<&str> = case.split_whitespace().collect();
    Some(match f[0] {
        "N" => run_name(&dec_name(f[1]), f[2] == "1"),
        "V" => run_verify(&dec_name(f[1]), f[2] == "1", f[3]),
        "A" => run_agg(f[1]),
        _ => return None,
    })
}

/// the 12-character alphabet of the exhaustive part: valid characters of each class, the two
/// quotes, statement separators, blank, a 2-byte and a control character
const SMALL: [char; 12] = ['a', 'Z', '7', '_', '"', '\'', ';', ' ', '-', '.', 'é', '\n'];
const VALID: &[u8] = b"abcdefghijklmnopqrstuvwxyzABCDEFGHIJKLMNOPQRSTUVWXYZ0123456789_";
const NASTY: [char; 20] = [
    '"', '\'', ';', ' ', '-', '.', '/', '*', '\\', '\0', '\n', '\t', '@', '[', '`', '{', 'é', 'ß', '中', '😀',
];

fn gen_valid(r: &mut Rng, len: usize) -> String {
    (0..len).map(|_| *r.pick(VALID) as char).collect()
}
fn gen_len(r: &mut Rng) -> usize {
    match r.below(8) {
        0 => r.range(46, 50) as usize,
        1 => r.range(0, 3) as usize,
        2 => r.range(49, 60) as usize,
        _ => r.range(1, 48) as usize,
    }
}
fn gen_name(r: &mut Rng) -> String {
    let len = gen_len(r);
    match r.below(10) {
        // valid characters only (validity decided by the length alone)
        0..=3 => gen_valid(r, len),
        // one bad character at a random place
        4 | 5 => {
            let mut v: Vec<char> = gen_valid(r, len.max(1)).chars().collect();
            let i = r.below(v.len() as u64) as usize;
            v[i] = *r.pick(&NASTY);
            v.into_iter().collect()
        }
        // several bad characters: the FIRST one must be reported
        6 => {
            let mut v: Vec<char> = gen_valid(r, len.max(2)).chars().collect();
            for _ in 0..r.range(2, 4) {
                let i = r.below(v.len() as u64) as usize;
                v[i] = *r.pick(&NASTY);
            }
            v.into_iter().collect()
        }
        // multi-byte characters: the length check counts characters, not bytes
        7 => {
            let c = *r.pick(&['é', 'ß', '中', '😀']);
            std::iter::repeat_n(c, len).collect()
        }
        // characters next to the class boundaries: '/' ':' '@' '[' '`' '{'
        8 => {
            let mut v: Vec<char> = gen_valid(r, len.max(1)).chars().collect();
            let i = r.below(v.len() as u64) as usize;
            v[i] = *r.pick(&['/', ':', '@', '[', '`', '{', '^', '0', '9', 'A', 'Z', 'a', 'z', '_']);
            v.into_iter().collect()
        }
        // arbitrary scalar values
        _ => (0..len)
            .map(|_| loop {
                if let Some(c) = char::from_u32(r.below(0x11_0000) as u32) {
                    break c;
                }
            })
            .collect(),
    }
}
fn flip_case(r: &mut Rng, s: &str) -> String {
    s.chars()
        .map(|c| if r.bool() { c.to_ascii_uppercase() } else { c.to_ascii_lowercase() })
        .collect()
}
fn gen_reply(r: &mut Rng, name: &str) -> String {
    match r.below(12) {
        0 => "E".into(),
        1 => "V".into(),
        2 => "R".into(),
        3 | 4 => format!("S:{}", enc_name(name)),
        5 | 6 => format!("S:{}", enc_name(&flip_case(r, name))),
        7 => format!("S:{}", enc_name(&name.to_lowercase())),
        8 => {
            // one character off
            let mut v: Vec<char> = name.chars().collect();
            if v.is_empty() {
                v.push('x');
            } else {
                let i = r.below(v.len() as u64) as usize;
                v[i] = *r.pick(&['x', '_', 'K', 'k', 'İ', 'ı', 'ſ', '@', '`']);
            }
            format!("S:{}", enc_name(&v.into_iter().collect::<String>()))
        }
        9 => format!("S:{}", enc_name(&format!("{}x", name))),
        10 => {
            let v: Vec<char> = name.chars().collect();
            format!("S:{}", enc_name(&v[..v.len().saturating_sub(1)].iter().collect::<String>()))
        }
        _ => format!("S:{}", enc_name(&gen_name(r))),
    }
}
fn gen_outcomes(r: &mut Rng) -> String {
    let len = match r.below(10) {
        0 => 0,
        1 => 1,
        _ => r.range(1, 8),
    };
    if len == 0 {
        return "-".into();
    }
    let style = r.below(5);
    (0..len)
        .map(|i| {
            let k = match style {
                0 => r.below(2),          // ok / broken only
                1 => 1,                   // broken only
                2 => r.below(3),          // mostly fine, few errors
                _ => r.below(5),
            };
            match k {
                0 => "o".to_string(),
                1 => format!("b{:x}", i * 7 + 1),
                2 => format!("t{:x}", i * 5 + 2),
                3 => format!("m{:x}", i * 3 + 3),
                _ => "n".to_string(),
            }
        })
        .collect::<Vec<_>>()
        .join(",")
}

fn main() {
    let a = parse_args();
    if a.extra.iter().any(|x| x == "--probe-blocked-worker") {
        e2e::probe_blocked_worker();
        return;
    }
    quiet_panics();
    let mut out = Out::create(&a.out);
    // number of end-to-end scenarios: --e2e N, default by tier
    let e2e_n: u64 = a
        .extra
        .iter()
        .position(|x| x == "--e2e")
        .and_then(|i| a.extra.get(i + 1))
        .and_then(|v| v.parse().ok())
        // thorough: 1200, not the 6000 of DESIGN.md: 6000 scenarios (~250 k loopback connections in
        // 10 min) exhausted the ephemeral ports of the shared machine (see docs/C20.md)
        .unwrap_or(if a.tier == "thorough" { 1200 } else { 150 });
    if let Some(p) = &a.replay {
        for c in read_cases(p) {
            if let Some(o) = run_case(&c) {
                out.case(&c, &o);
            } else {
                e2e::replay_case(&c, &mut out);
            }
        }
        out.finish();
        return;
    }
    // ---- exhaustive: every string of length 0..3 over SMALL, both flags ----
    let mut small: Vec<String> = vec![String::new()];
    let mut layer: Vec<String> = vec![String::new()];
    for _ in 0..3 {
        let mut nxt = Vec::new();
        for s in &layer {
            for c in SMALL {
                let mut t = s.clone();
                t.push(c);
                nxt.push(t);
            }
        }
        small.extend(nxt.iter().cloned());
        layer = nxt;
    }
    for s in &small {
        for cs in [false, true] {
            let c = format!("N {} {}", enc_name(s), cs as u8);
            let o = run_case(&c).unwrap();
            out.case(&c, &o);
        }
    }
    // every length 0..=60 of a valid and of a two-byte character
    for len in 0..=60usize {
        for ch in ['k', 'é'] {
            let s: String = std::iter::repeat_n(ch, len).collect();
            let c = format!("N {} 0", enc_name(&s));
            let o = run_case(&c).unwrap();
            out.case(&c, &o);
        }
    }
    // every single ASCII character, alone and inside a valid name
    for b in 0u8..128 {
        for s in [format!("{}", b as char), format!("ab{}cd", b as char)] {
            let c = format!("N {} 1", enc_name(&s));
            let o = run_case(&c).unwrap();
            out.case(&c, &o);
        }
    }
    // every outcome list of length <= 3 over {o, b, t, m}
    let toks = ["o", "b1", "t2", "m3"];
    let mut lists: Vec<Vec<&str>> = vec![vec![]];
    let mut lay: Vec<Vec<&str>> = vec![vec![]];
    for _ in 0..3 {
        let mut nxt = Vec::new();
        for l in &lay {
            for t in toks {
                let mut m = l.clone();
                m.push(t);
                nxt.push(m);
            }
        }
        lists.extend(nxt.iter().cloned());
        lay = nxt;
    }
    for l in &lists {
        let c = format!("A {}", if l.is_empty() { "-".to_string() } else { l.join(",") });
        let o = run_case(&c).unwrap();
        out.case(&c, &o);
    }
    // ---- seeded random ----
    let mut r = Rng::new(a.seed);
    for _ in 0..a.n {
        let c = match r.below(10) {
            0..=5 => format!("N {} {}", enc_name(&gen_name(&mut r)), r.bool() as u8),
            6 | 7 => {
                let name = if r.chance(9, 10) { let l = r.range(1, 48) as usize; gen_valid(&mut r, l) } else { gen_name(&mut r) };
                let rep = gen_reply(&mut r, &name);
                format!("V {} {} {}", enc_name(&name), r.bool() as u8, rep)
            }
            _ => format!("A {}", gen_outcomes(&mut r)),
        };
        let o = run_case(&c).unwrap();
        out.case(&c, &o);
    }
    // ---- end to end ----
    if e2e_n > 0 {
        e2e::run(a.seed, e2e_n, &a.tier, &mut out);
    }
    out.finish();
}
