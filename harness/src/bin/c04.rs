//! C04 runner (`pure` engine, hook H2): builds REAL `ClusterState`s / `ReplicaLocator`s from
//! generated topologies through `scylla::cluster::verif_state::cluster_state_via_new` (the real
//! `ClusterState::new` with a reject-all host filter), and records every
//! view of `replicas_for_token(..)` for generated (strategy, datacenter restriction, token)
//! queries.
//!
//! One case line = one ring + set of precomputed strategies + one query, with all observed views:
//!   Q <nodes> <ring> <pre> <strategy> <dc> <token> | <len> <iter> <nth> <choose> <cf> <ordered> <ep> <np> <ops> <sh> <osh> <hints> <ohint> <vsh>
//!           vsh: shards yielded by nth(k) / by choose / by the first interleaving (`_` = nothing yielded)
//! nodes     id.dc.rack.sharder,... (hex; `_` = None; sharder = <nr_shards>-<msb_ignore>)   peers in metadata order
//! ring      token.id,...           (signed hex token)  ring entries in insertion order (peer by peer)
//! pre       strategy;strategy...   keyspace strategies registered in the ClusterState (precomputed)
//! strategy  S<rf> | N<dc>=<rf>+<dc>=<rf>.. | L | O
//! dc        `_` (no restriction) | dc
//! observed: len()  into_iter()  nth(k) for k = 0..len+1 (fresh iterator each)
//!           choose: E:<ids> (index k scripted exactly, k = 0..len-1) or M:<ids> (some index)
//!           cf: choose_filtered with predicate "id is odd" (id or `_`)
//!           into_replicas_ordered() (or `panic`)   ep: get_token_endpoints (or `x`)
//!           np: into_iter() on a ClusterState built from the same peers with NO keyspaces
//!           sh / osh: the shards yielded with into_iter() / into_replicas_ordered() (with_computed_shard)
//!           hints: size_hint() before and after every operation of the three interleavings (lo:hi, upper `_` = None),
//!                  ohint: size_hint() of the fresh ring-ordered iterator
//! second kind (tablet-backed sets):
//!   T <nodes> <ring> <tablets> <dc> <token> | <len> <iter> <nth> <choose> <ordered> <ops>
//!   tablets  first:last:host.shard+host.shard;...  learnt in this order through the real update_tablets
//!   iter/ordered  host:shard,...   ops  N,1,N,0,2,N with size_hint after each: host:shard@lo:hi
//!           ops: three fixed interleavings of next() / nth(n) on one iterator each, `/`-separated
//!                A = N,1,N,0,2,N   B = 0,0,N,3,N   C = N,N,5,N,0   (N = next, k = nth(k))
use scylla::cluster::ClusterState;
use scylla::cluster::verif_state::learn_tablet_from_payload;
use scylla::frame::response::result::TableSpec;
use scylla::routing::Token;
use scylla::routing::verif_locator as vloc;
use std::panic::AssertUnwindSafe;
use vh::*;

#[path = "../ring_util.rs"]
mod ru;
use ru::*;

/// a 64-bit draw that makes `random_range(0..len)` return k (checked by `calibrated`)
fn draw_for(k: usize, len: usize) -> u64 {
    (((2 * k as u128 + 1) << 64) / (2 * len as u128)) as u64
}
fn calibrated() -> bool {
    (1..=40usize).all(|len| (0..len).all(|k| vloc::scripted_index(vec![draw_for(k, len)], len) == k))
}

struct Ctx {
    rt: tokio::runtime::Runtime,
    key: String,
    with_pre: Option<ClusterState>,
    without: Option<ClusterState>,
    calibrated: bool,
}

fn ids<'a>(it: impl Iterator<Item = (&'a std::sync::Arc<scylla::cluster::Node>, u32)>) -> String {
    let v: Vec<u128> = it.map(|(n, _)| n.host_id.as_u128()).collect();
    hex_list(&v)
}

fn payload_bytes(a: i64, b: i64, raw: &[(u128, i32)]) -> Vec<u8> {
    let mut v = Vec::new();
    v.extend_from_slice(&8i32.to_be_bytes());
    v.extend_from_slice(&a.to_be_bytes());
    v.extend_from_slice(&8i32.to_be_bytes());
    v.extend_from_slice(&b.to_be_bytes());
    let mut l = Vec::new();
    l.extend_from_slice(&(raw.len() as i32).to_be_bytes());
    for (h, s) in raw {
        let mut e = Vec::new();
        e.extend_from_slice(&16i32.to_be_bytes());
        e.extend_from_slice(&h.to_be_bytes());
        e.extend_from_slice(&4i32.to_be_bytes());
        e.extend_from_slice(&s.to_be_bytes());
        l.extend_from_slice(&(e.len() as i32).to_be_bytes());
        l.extend_from_slice(&e);
    }
    v.extend_from_slice(&(l.len() as i32).to_be_bytes());
    v.extend_from_slice(&l);
    v
}

fn run_tablet_case(cx: &mut Ctx, f: &[&str]) -> String {
    let topo = parse_topo(f[1], f[2]);
    install_sharders(&topo);
    cx.key.clear();
    let rt = &cx.rt;
    let built = catch(AssertUnwindSafe(|| {
        let mut cs = build(rt, &topo, &[]);
        for tb in f[3].split(';').filter(|x| !x.is_empty() && *x != "-") {
            let p: Vec<&str> = tb.split(':').collect();
            let (first, last) = (parse_i(p[0]), parse_i(p[1]));
            let raw: Vec<(u128, i32)> = p[2]
                .split('+')
                .filter(|x| !x.is_empty() && *x != "-")
                .map(|e| {
                    let (h, s) = e.split_once('.').unwrap();
                    (u128::from_str_radix(h, 16).unwrap(), i32::from_str_radix(s, 16).unwrap())
                })
                .collect();
            // an accepted payload (a, b, ..) is the tablet [a+1, b]
            let payload = std::collections::HashMap::from([(
                "tablets-routing-v1".to_string(),
                bytes::Bytes::from(payload_bytes(first - 1, last, &raw)),
            )]);
            if !learn_tablet_from_payload(&mut cs, "tks", "tt", &payload) {
                return Err(());
            }
        }
        Ok(cs)
    }));
    let cs = match built {
        Ok(Ok(cs)) => cs,
        Ok(Err(())) => return "error tablet-refused".into(),
        Err(_) => return "panic".into(),
    };
    let dc_name = if f[4] == "_" { None } else { Some(format!("dc{}", u64::from_str_radix(f[4], 16).unwrap())) };
    let dc = dc_name.as_deref();
    let token = Token::new(parse_i(f[5]));
    let table = TableSpec::borrowed("tks", "tt");
    let strategy = scylla::cluster::metadata::Strategy::LocalStrategy;
    let r = catch(AssertUnwindSafe(|| {
        let loc = cs.replica_locator();
        let rs = || loc.replicas_for_token(token, &strategy, dc, &table);
        let t = |x: Option<(&std::sync::Arc<scylla::cluster::Node>, u32)>| match x {
            Some((n, s)) => format!("{}:{}", hex_u(n.host_id.as_u128()), hex_u(s as u128)),
            None => "_".into(),
        };
        let j = |v: Vec<String>| if v.is_empty() { "-".to_string() } else { v.join(",") };
        let len = rs().len();
        let iter = j(rs().into_iter().map(|x| t(Some(x))).collect());
        let nth = j((0..len + 2).map(|k| t(rs().into_iter().nth(k))).collect());
        let choose = j((0..len).map(|k| t(vloc::choose_filtered(rs(), vec![draw_for(k, len)], |_| true))).collect());
        let ordered = j(rs().into_replicas_ordered().into_iter().map(|x| t(Some(x))).collect());
        let mut it = rs().into_iter();
        let ops = j([-1i32, 1, -1, 0, 2, -1]
            .iter()
            .map(|o| {
                let x = if *o < 0 { it.next() } else { it.nth(*o as usize) };
                let h = it.size_hint();
                format!("{}@{}:{}", t(x), hex_u(h.0 as u128), h.1.map(|u| hex_u(u as u128)).unwrap_or("_".into()))
            })
            .collect());
        format!("{} {} {} {} {} {}", hex_u(len as u128), iter, nth, choose, ordered, ops)
    }));
    r.unwrap_or_else(|_| "panic".into())
}

fn run_case(cx: &mut Ctx, case: &str) -> String {
    let f: Vec<&str> = case.split_whitespace().collect();
    if f.len() == 6 && f[0] == "T" {
        return run_tablet_case(cx, &f);
    }
    if f.len() != 7 || f[0] != "Q" {
        return "error unknown-case".into();
    }
    let key = format!("{} {} {}", f[1], f[2], f[3]);
    let pre: Vec<Strat> = if f[3] == "-" { vec![] } else { f[3].split(';').map(parse_strat).collect() };
    if cx.key != key {
        let topo = parse_topo(f[1], f[2]);
        install_sharders(&topo);
        cx.key.clear();
        let rt = &cx.rt;
        match catch(AssertUnwindSafe(|| (build(rt, &topo, &pre), build(rt, &topo, &[])))) {
            Ok((a, b)) => {
                cx.with_pre = Some(a);
                cx.without = Some(b);
            }
            Err(_) => return "panic".into(),
        }
        cx.key = key;
    }
    let strat = parse_strat(f[4]);
    let strategy = to_strategy(&strat);
    let dc_name = if f[5] == "_" { None } else { Some(format!("dc{}", u64::from_str_radix(f[5], 16).unwrap())) };
    let dc = dc_name.as_deref();
    let token = Token::new(parse_i(f[6]));
    let cs = cx.with_pre.as_ref().unwrap();
    let cs0 = cx.without.as_ref().unwrap();
    let calibrated = cx.calibrated;
    let table = TableSpec::borrowed("some_ks", "some_table");
    let r = catch(AssertUnwindSafe(|| {
        let loc = cs.replica_locator();
        let rs = || loc.replicas_for_token(token, &strategy, dc, &table);
        let len = rs().len();
        let iter = ids(rs().into_iter());
        let shl = |v: Vec<u32>| if v.is_empty() { "-".to_string() } else { v.iter().map(|x| hex_u(*x as u128)).collect::<Vec<_>>().join(",") };
        let sh = shl(rs().into_iter().map(|(_, s)| s).collect());
        let mut nth_sh: Vec<String> = Vec::new();
        let nth: Vec<String> = (0..len + 2)
            .map(|k| match rs().into_iter().nth(k) {
                Some((n, s)) => {
                    nth_sh.push(hex_u(s as u128));
                    hex_u(n.host_id.as_u128())
                }
                None => {
                    nth_sh.push("_".into());
                    "_".into()
                }
            })
            .collect();
        let mut choose_sh: Vec<String> = Vec::new();
        let choose: Vec<String> = (0..len)
            .map(|k| match vloc::choose_filtered(rs(), vec![draw_for(k, len)], |_| true) {
                Some((n, s)) => {
                    choose_sh.push(hex_u(s as u128));
                    hex_u(n.host_id.as_u128())
                }
                None => {
                    choose_sh.push("_".into());
                    "_".into()
                }
            })
            .collect();
        let mut ops_sh: Vec<String> = Vec::new();
        let choose = format!("{}:{}", if calibrated && len <= 40 { "E" } else { "M" }, if choose.is_empty() { "-".into() } else { choose.join(",") });
        let cf = match vloc::choose_filtered(rs(), vec![token.value() as u64 ^ 0x5bd1e995], |(n, _)| n.host_id.as_u128() % 2 == 1) {
            Some((n, _)) => hex_u(n.host_id.as_u128()),
            None => "_".into(),
        };
        let ordered = match catch(AssertUnwindSafe(|| ids(rs().into_replicas_ordered().into_iter()))) {
            Ok(s) => s,
            Err(_) => "panic".into(),
        };
        let osh = match catch(AssertUnwindSafe(|| rs().into_replicas_ordered().into_iter().map(|(_, s)| s).collect::<Vec<u32>>())) {
            Ok(v) => shl(v),
            Err(_) => "panic".into(),
        };
        // get_token_endpoints goes through the keyspace name; only possible for registered strategies
        let ep = if dc.is_some() {
            "x".to_string()
        } else if let Some(i) = pre.iter().position(|p| *p == strat) {
            let v: Vec<u128> = cs.get_token_endpoints(&format!("ks{}", i), "t", token).iter().map(|(n, _)| n.host_id.as_u128()).collect();
            hex_list(&v)
        } else if strat == Strat::Local {
            // unknown keyspace => LocalStrategy
            let v: Vec<u128> = cs.get_token_endpoints("no_such_keyspace", "t", token).iter().map(|(n, _)| n.host_id.as_u128()).collect();
            hex_list(&v)
        } else {
            "x".to_string()
        };
        let np = ids(cs0.replica_locator().replicas_for_token(token, &strategy, dc, &table).into_iter());
        // next() and nth(n) interleaved on ONE iterator
        let seqs: [&[i32]; 3] = [&[-1, 1, -1, 0, 2, -1], &[0, 0, -1, 3, -1], &[-1, -1, 5, -1, 0]];
        let hs = |h: (usize, Option<usize>)| format!("{}:{}", hex_u(h.0 as u128), h.1.map(|x| hex_u(x as u128)).unwrap_or("_".into()));
        let mut hints: Vec<String> = Vec::new();
        let ops: Vec<String> = seqs
            .iter()
            .map(|sq| {
                let mut it = rs().into_iter();
                let mut hv = vec![hs(it.size_hint())];
                let r = sq
                    .iter()
                    .map(|o| {
                        let x = if *o < 0 { it.next() } else { it.nth(*o as usize) };
                        hv.push(hs(it.size_hint()));
                        match x {
                            Some((n, s)) => {
                                if hints.is_empty() {
                                    ops_sh.push(hex_u(s as u128));
                                }
                                hex_u(n.host_id.as_u128())
                            }
                            None => {
                                if hints.is_empty() {
                                    ops_sh.push("_".into());
                                }
                                "_".into()
                            }
                        }
                    })
                    .collect::<Vec<_>>()
                    .join(",");
                hints.push(hv.join(","));
                r
            })
            .collect();
        let ohint = hs(rs().into_replicas_ordered().into_iter().size_hint());
        let jl = |v: &Vec<String>| if v.is_empty() { "-".to_string() } else { v.join(",") };
        let vsh = format!("{}/{}/{}", jl(&nth_sh), jl(&choose_sh), jl(&ops_sh));
        format!("{} {} {} {} {} {} {} {} {} {} {} {} {} {}", hex_u(len as u128), iter, nth.join(","), choose, cf, ordered, ep, np, ops.join("/"), sh, osh, hints.join("/"), ohint, vsh)
    }));
    match r {
        Ok(s) => s,
        Err(_) => "panic".into(),
    }
}

fn main() {
    let a = parse_args();
    quiet_panics();
    let rt = tokio::runtime::Builder::new_current_thread().enable_all().build().unwrap();
    let mut cx = Ctx { rt, key: String::new(), with_pre: None, without: None, calibrated: calibrated() };
    let mut out = Out::create(&a.out);
    if let Some(p) = &a.replay {
        for c in read_cases(p) {
            let o = run_case(&mut cx, &c);
            out.case(&c, &o);
        }
        out.finish();
        return;
    }
    let mut r = Rng::new(a.seed);
    let thorough = a.tier == "thorough";
    let max_tokens = if thorough { 120 } else { 10 };
    while out.lines < a.n {
        let dup = r.chance(1, 6);
        let topo = gen_topo(&mut r, dup);
        let (ns, rs) = topo_s(&topo);
        let npre = r.below(5) as usize;
        let pre: Vec<Strat> = (0..npre).map(|_| gen_strat(&mut r, &topo)).collect();
        let pres = if pre.is_empty() { "-".to_string() } else { pre.iter().map(strat_s).collect::<Vec<_>>().join(";") };
        // queries: every registered strategy, variations of them, fresh ones
        let mut queries: Vec<Strat> = pre.clone();
        for p in &pre {
            if r.bool() {
                queries.push(vary(&mut r, p));
            }
            let d = directed(&mut r, &topo, p);
            if d != *p {
                queries.push(d);
            }
        }
        for _ in 0..r.range(1, 3) {
            queries.push(gen_strat(&mut r, &topo));
        }
        let mut pts = token_points(&topo);
        if pts.len() > max_tokens {
            // keep the extremes, sample the rest
            let keep: Vec<i64> = vec![pts[0], pts[pts.len() - 1]];
            r.shuffle(&mut pts);
            pts.truncate(max_tokens - 2);
            pts.extend(keep);
            pts.sort();
            pts.dedup();
        }
        let mut dcs: Vec<Option<u64>> = vec![None];
        for d in ring_dcs(&topo) {
            dcs.push(Some(d));
        }
        dcs.push(Some(ABSENT_DC));
        dcs.push(Some(2));
        dcs.dedup();
        // tablet-backed sets on the same topology: a few tablets (some overlapping, some naming an
        // unknown host), tokens inside, at the borders of and between them
        if !topo.ring.is_empty() {
            let ids: Vec<u64> = topo.nodes.iter().map(|n| n.0).collect();
            let mut tabs = Vec::new();
            let mut spans: Vec<(i64, i64)> = Vec::new();
            let mut lo: i64 = -60;
            for _ in 0..r.range(1, 4) {
                let first = lo + r.range(0, 6) as i64 - if r.chance(1, 5) { 8 } else { 0 };
                let last = first + r.range(0, 25) as i64;
                lo = last + 1;
                spans.push((first, last));
                let mut reps = Vec::new();
                let lo_n = if r.chance(1, 8) { 0 } else { 1 };
                for _ in 0..r.range(lo_n, 5) {
                    let h = if r.chance(1, 12) { 77 } else { *r.pick(&ids) };
                    reps.push(format!("{}.{}", hex_u(h as u128), hex_u(r.below(9) as u128)));
                }
                tabs.push(format!("{}:{}:{}", hex_i(first as i128), hex_i(last as i128), if reps.is_empty() { "-".to_string() } else { reps.join("+") }));
            }
            let tabs_s = tabs.join(";");
            let mut tdcs: Vec<Option<u64>> = vec![None];
            for d in ring_dcs(&topo) {
                tdcs.push(Some(d));
            }
            tdcs.push(Some(ABSENT_DC));
            for d in &tdcs {
                for _ in 0..(if thorough { 12 } else { 4 }) {
                    let tk = if r.chance(3, 4) {
                        let (a, b) = *r.pick(&spans);
                        *r.pick(&[a, b, a + (b - a) / 2, a - 1, b + 1])
                    } else {
                        r.range(0, 130) as i64 - 70
                    };
                    let c = format!("T {} {} {} {} {}", ns, rs, tabs_s, opt_s(d), hex_i(tk as i128));
                    let o = run_case(&mut cx, &c);
                    out.case(&c, &o);
                }
            }
        }
        for q in &queries {
            for d in &dcs {
                // the unrestricted query always; restricted ones sampled in the quick tier
                if d.is_some() && !thorough && !r.chance(1, 3) {
                    continue;
                }
                for tk in &pts {
                    let c = format!("Q {} {} {} {} {} {}", ns, rs, pres, strat_s(q), opt_s(d), hex_i(*tk as i128));
                    let o = run_case(&mut cx, &c);
                    out.case(&c, &o);
                }
            }
        }
    }
    out.finish();
}
