//! C04 runner (`pure` engine, hook H2): builds REAL `ClusterState`s / `ReplicaLocator`s from
//! generated topologies through `scylla::cluster::verif_state::cluster_state`, and records every
//! view of `replicas_for_token(..)` for generated (strategy, datacenter restriction, token)
//! queries.
//!
//! One case line = one ring + set of precomputed strategies + one query, with all observed views:
//!   Q <nodes> <ring> <pre> <strategy> <dc> <token> | <len> <iter> <nth> <choose> <cf> <ordered> <ep> <np>
//! nodes     id.dc.rack,...         (hex; `_` = None)   peers in metadata order
//! ring      token.id,...           (signed hex token)  ring entries in insertion order (peer by peer)
//! pre       strategy;strategy...   keyspace strategies registered in the ClusterState (precomputed)
//! strategy  S<rf> | N<dc>=<rf>+<dc>=<rf>.. | L | O
//! dc        `_` (no restriction) | dc
//! observed: len()  into_iter()  nth(k) for k = 0..len+1 (fresh iterator each)
//!           choose: E:<ids> (index k scripted exactly, k = 0..len-1) or M:<ids> (some index)
//!           cf: choose_filtered with predicate "id is odd" (id or `_`)
//!           into_replicas_ordered() (or `panic`)   ep: get_token_endpoints (or `x`)
//!           np: into_iter() on a ClusterState built from the same peers with NO keyspaces
use scylla::cluster::metadata::Strategy;
use scylla::cluster::verif_state::{VerifPeer, cluster_state, keyspace};
use scylla::cluster::{ClusterState, NodeAddr};
use scylla::frame::response::result::TableSpec;
use scylla::routing::Token;
use scylla::routing::verif_locator as vloc;
use std::collections::{BTreeSet, HashMap};
use std::net::SocketAddr;
use std::panic::AssertUnwindSafe;
use uuid::Uuid;
use vh::*;

const ABSENT_DC: u64 = 9;

#[derive(Clone, Debug, PartialEq)]
enum Strat {
    Simple(u64),
    Nts(Vec<(u64, u64)>),
    Local,
    Other,
}

#[derive(Clone, Debug)]
struct Topo {
    nodes: Vec<(u64, Option<u64>, Option<u64>)>,
    ring: Vec<(i64, u64)>,
}

fn opt_s(o: &Option<u64>) -> String {
    match o {
        Some(v) => hex_u(*v as u128),
        None => "_".into(),
    }
}
fn strat_s(s: &Strat) -> String {
    match s {
        Strat::Simple(rf) => format!("S{}", hex_u(*rf as u128)),
        Strat::Nts(m) => format!(
            "N{}",
            m.iter().map(|(d, rf)| format!("{}={}", hex_u(*d as u128), hex_u(*rf as u128))).collect::<Vec<_>>().join("+")
        ),
        Strat::Local => "L".into(),
        Strat::Other => "O".into(),
    }
}
fn parse_strat(s: &str) -> Strat {
    let h = |x: &str| u64::from_str_radix(x, 16).unwrap();
    match &s[..1] {
        "S" => Strat::Simple(h(&s[1..])),
        "N" => Strat::Nts(
            s[1..]
                .split('+')
                .filter(|e| !e.is_empty())
                .map(|e| {
                    let (d, rf) = e.split_once('=').unwrap();
                    (h(d), h(rf))
                })
                .collect(),
        ),
        "L" => Strat::Local,
        _ => Strat::Other,
    }
}
fn to_strategy(s: &Strat) -> Strategy {
    match s {
        Strat::Simple(rf) => Strategy::SimpleStrategy { replication_factor: *rf as usize },
        Strat::Nts(m) => Strategy::NetworkTopologyStrategy {
            datacenter_repfactors: m.iter().map(|(d, rf)| (format!("dc{}", d), *rf as usize)).collect(),
        },
        Strat::Local => Strategy::LocalStrategy,
        Strat::Other => Strategy::Other { name: "org.example.Custom".into(), data: HashMap::new() },
    }
}
fn topo_s(t: &Topo) -> (String, String) {
    let nodes = t.nodes.iter().map(|(i, d, r)| format!("{}.{}.{}", hex_u(*i as u128), opt_s(d), opt_s(r))).collect::<Vec<_>>().join(",");
    let ring = if t.ring.is_empty() {
        "-".to_string()
    } else {
        t.ring.iter().map(|(tk, i)| format!("{}.{}", hex_i(*tk as i128), hex_u(*i as u128))).collect::<Vec<_>>().join(",")
    };
    (nodes, ring)
}
fn parse_i(s: &str) -> i64 {
    if let Some(r) = s.strip_prefix('-') {
        (-(i128::from_str_radix(r, 16).unwrap())) as i64
    } else {
        i128::from_str_radix(s, 16).unwrap() as i64
    }
}
fn parse_topo(nodes: &str, ring: &str) -> Topo {
    let h = |x: &str| u64::from_str_radix(x, 16).unwrap();
    let o = |x: &str| if x == "_" { None } else { Some(u64::from_str_radix(x, 16).unwrap()) };
    let nodes = nodes
        .split(',')
        .filter(|e| !e.is_empty() && *e != "-")
        .map(|e| {
            let f: Vec<&str> = e.split('.').collect();
            (h(f[0]), o(f[1]), o(f[2]))
        })
        .collect();
    let ring = if ring == "-" {
        vec![]
    } else {
        ring.split(',')
            .map(|e| {
                let (t, i) = e.rsplit_once('.').unwrap();
                (parse_i(t), h(i))
            })
            .collect()
    };
    Topo { nodes, ring }
}

fn build(rt: &tokio::runtime::Runtime, t: &Topo, pre: &[Strat]) -> ClusterState {
    // peers in node order; each peer's tokens in ring-list order (the ring list is generated
    // peer by peer, so this reproduces it exactly)
    let peers: Vec<VerifPeer> = t
        .nodes
        .iter()
        .map(|(id, dc, rack)| VerifPeer {
            host_id: Uuid::from_u128(*id as u128),
            address: NodeAddr::Translatable(SocketAddr::from(([127, 0, 0, 1], *id as u16))),
            datacenter: dc.map(|d| format!("dc{}", d)),
            rack: rack.map(|r| format!("r{}", r)),
            tokens: t.ring.iter().filter(|(_, n)| n == id).map(|(tk, _)| Token::new(*tk)).collect(),
        })
        .collect();
    let keyspaces = pre.iter().enumerate().map(|(i, s)| (format!("ks{}", i), keyspace(to_strategy(s), false))).collect();
    rt.block_on(cluster_state(peers, keyspaces))
}

/// a 64-bit draw that makes `random_range(0..len)` return k (checked by `calibrated`)
fn draw_for(k: usize, len: usize) -> u64 {
    (((2 * k as u128 + 1) << 64) / (2 * len as u128)) as u64
}
fn calibrated() -> bool {
    (1..=40usize).all(|len| (0..len).all(|k| vloc::scripted_index(vec![draw_for(k, len)], len) == k))
}

struct Ctx {
    rt: tokio::runtime::Runtime,
    key: String,
    with_pre: Option<ClusterState>,
    without: Option<ClusterState>,
    calibrated: bool,
}

fn ids<'a>(it: impl Iterator<Item = (&'a std::sync::Arc<scylla::cluster::Node>, u32)>) -> String {
    let v: Vec<u128> = it.map(|(n, _)| n.host_id.as_u128()).collect();
    hex_list(&v)
}

fn run_case(cx: &mut Ctx, case: &str) -> String {
    let f: Vec<&str> = case.split_whitespace().collect();
    if f.len() != 7 || f[0] != "Q" {
        return "error unknown-case".into();
    }
    let key = format!("{} {} {}", f[1], f[2], f[3]);
    let pre: Vec<Strat> = if f[3] == "-" { vec![] } else { f[3].split(';').map(parse_strat).collect() };
    if cx.key != key {
        let topo = parse_topo(f[1], f[2]);
        cx.with_pre = Some(build(&cx.rt, &topo, &pre));
        cx.without = Some(build(&cx.rt, &topo, &[]));
        cx.key = key;
    }
    let strat = parse_strat(f[4]);
    let strategy = to_strategy(&strat);
    let dc_name = if f[5] == "_" { None } else { Some(format!("dc{}", u64::from_str_radix(f[5], 16).unwrap())) };
    let dc = dc_name.as_deref();
    let token = Token::new(parse_i(f[6]));
    let cs = cx.with_pre.as_ref().unwrap();
    let cs0 = cx.without.as_ref().unwrap();
    let calibrated = cx.calibrated;
    let table = TableSpec::borrowed("some_ks", "some_table");
    let r = catch(AssertUnwindSafe(|| {
        let loc = cs.replica_locator();
        let rs = || loc.replicas_for_token(token, &strategy, dc, &table);
        let len = rs().len();
        let iter = ids(rs().into_iter());
        let nth: Vec<String> = (0..len + 2)
            .map(|k| match rs().into_iter().nth(k) {
                Some((n, _)) => hex_u(n.host_id.as_u128()),
                None => "_".into(),
            })
            .collect();
        let choose: Vec<String> = (0..len)
            .map(|k| match vloc::choose_filtered(rs(), vec![draw_for(k, len)], |_| true) {
                Some((n, _)) => hex_u(n.host_id.as_u128()),
                None => "_".into(),
            })
            .collect();
        let choose = format!("{}:{}", if calibrated && len <= 40 { "E" } else { "M" }, if choose.is_empty() { "-".into() } else { choose.join(",") });
        let cf = match vloc::choose_filtered(rs(), vec![token.value() as u64 ^ 0x5bd1e995], |(n, _)| n.host_id.as_u128() % 2 == 1) {
            Some((n, _)) => hex_u(n.host_id.as_u128()),
            None => "_".into(),
        };
        let ordered = match catch(AssertUnwindSafe(|| ids(rs().into_replicas_ordered().into_iter()))) {
            Ok(s) => s,
            Err(_) => "panic".into(),
        };
        // get_token_endpoints goes through the keyspace name; only possible for registered strategies
        let ep = if dc.is_some() {
            "x".to_string()
        } else if let Some(i) = pre.iter().position(|p| *p == strat) {
            let v: Vec<u128> = cs.get_token_endpoints(&format!("ks{}", i), "t", token).iter().map(|(n, _)| n.host_id.as_u128()).collect();
            hex_list(&v)
        } else if strat == Strat::Local {
            // unknown keyspace => LocalStrategy
            let v: Vec<u128> = cs.get_token_endpoints("no_such_keyspace", "t", token).iter().map(|(n, _)| n.host_id.as_u128()).collect();
            hex_list(&v)
        } else {
            "x".to_string()
        };
        let np = ids(cs0.replica_locator().replicas_for_token(token, &strategy, dc, &table).into_iter());
        format!("{} {} {} {} {} {} {} {}", hex_u(len as u128), iter, nth.join(","), choose, cf, ordered, ep, np)
    }));
    match r {
        Ok(s) => s,
        Err(_) => "panic".into(),
    }
}

// ---------------------------------------------------------------- generators

fn gen_topo(r: &mut Rng, dup_tokens: bool) -> Topo {
    let n = match r.below(10) {
        0..=2 => r.range(1, 4),
        3..=6 => r.range(5, 8),
        _ => r.range(9, 12),
    } as usize;
    let ndc = r.range(1, 3);
    let racks_per_dc: Vec<u64> = (0..ndc).map(|_| r.range(1, 4)).collect();
    let some_dcless = r.chance(1, 8);
    let some_rackless = r.chance(1, 6);
    let mut nodes = Vec::new();
    for i in 0..n {
        let dc = if some_dcless && r.chance(1, 4) { None } else { Some(r.below(ndc)) };
        let rack = if some_rackless && r.chance(1, 3) {
            None
        } else {
            Some(r.below(racks_per_dc[dc.unwrap_or(0) as usize]))
        };
        nodes.push((i as u64 + 1, dc, rack));
    }
    let fixed_v = if r.bool() { Some(r.range(1, 8)) } else { None };
    let style = r.below(4);
    let mut used: HashMap<i64, Vec<Option<u64>>> = HashMap::new();
    let mut ring = Vec::new();
    for (id, dc, _) in &nodes {
        let v = if r.chance(1, 25) { 0 } else { fixed_v.unwrap_or_else(|| r.range(1, 8)) };
        for _ in 0..v {
            for _attempt in 0..50 {
                let tk: i64 = match style {
                    0 => r.range(0, (n as u64) * 10) as i64 - (n as i64) * 5,
                    1 => (r.range(0, (n as u64) * 12) as i64 - (n as i64) * 6) * 100,
                    2 => match r.below(12) {
                        0 => i64::MAX,
                        1 => i64::MIN + 1,
                        2 => i64::MAX - 1,
                        _ => r.i64(),
                    },
                    _ => r.range(0, 40) as i64,
                };
                let tk = if tk == i64::MIN { i64::MAX } else { tk };
                match used.get(&tk) {
                    None => {}
                    // the same token again only for a node of a different datacenter
                    Some(dcs) if dup_tokens && !dcs.contains(dc) => {}
                    Some(_) => continue,
                }
                used.entry(tk).or_default().push(*dc);
                ring.push((tk, *id));
                break;
            }
        }
    }
    Topo { nodes, ring }
}

fn ring_dcs(t: &Topo) -> Vec<u64> {
    let mut s = BTreeSet::new();
    for (_, id) in &t.ring {
        if let Some(d) = t.nodes.iter().find(|n| n.0 == *id).unwrap().1 {
            s.insert(d);
        }
    }
    s.into_iter().collect()
}
fn nodes_in(t: &Topo, d: u64) -> u64 {
    t.nodes.iter().filter(|n| n.1 == Some(d) && t.ring.iter().any(|e| e.1 == n.0)).count() as u64
}

fn gen_strat(r: &mut Rng, t: &Topo) -> Strat {
    let n = t.nodes.len() as u64;
    match r.below(20) {
        0 => Strat::Local,
        1 => Strat::Other,
        2..=7 => Strat::Simple(if r.chance(1, 3) { r.range(0, n + 2) } else { r.range(0, 4.min(n + 2)) }),
        _ => {
            let mut m = Vec::new();
            let mut dcs = ring_dcs(t);
            // datacenters known to nodes but absent from the ring, and one nobody knows
            for d in 0..3 {
                if !dcs.contains(&d) && r.chance(1, 4) {
                    dcs.push(d);
                }
            }
            if r.chance(1, 5) {
                dcs.push(ABSENT_DC);
            }
            r.shuffle(&mut dcs);
            for d in dcs {
                if r.chance(1, 6) {
                    continue;
                }
                let k = nodes_in(t, d);
                let rf = match r.below(8) {
                    0 => 0,
                    1 => k + r.range(0, 2),
                    2 | 3 => r.range(0, k + 2),
                    _ => r.range(1, 4),
                };
                m.push((d, rf));
            }
            Strat::Nts(m)
        }
    }
}

/// variations of a registered strategy: same shape, replication factors moved by one or more
fn vary(r: &mut Rng, s: &Strat) -> Strat {
    match s {
        Strat::Simple(rf) => Strat::Simple(if r.bool() { rf + r.range(1, 2) } else { rf.saturating_sub(r.range(1, 2)) }),
        Strat::Nts(m) => Strat::Nts(
            m.iter()
                .map(|(d, rf)| (*d, match r.below(3) { 0 => *rf, 1 => rf + r.range(1, 2), _ => rf.saturating_sub(r.range(1, 2)) }))
                .collect(),
        ),
        o => o.clone(),
    }
}

fn token_points(t: &Topo) -> Vec<i64> {
    let mut s = BTreeSet::new();
    for (tk, _) in &t.ring {
        let tk = if *tk == i64::MIN { i64::MAX } else { *tk };
        s.insert(tk);
        s.insert(tk.saturating_sub(1).max(i64::MIN + 1));
        s.insert(tk.saturating_add(1));
    }
    s.insert(i64::MIN + 1);
    s.insert(i64::MAX);
    s.insert(0);
    s.into_iter().collect()
}

fn main() {
    let a = parse_args();
    quiet_panics();
    let rt = tokio::runtime::Builder::new_current_thread().enable_all().build().unwrap();
    let mut cx = Ctx { rt, key: String::new(), with_pre: None, without: None, calibrated: calibrated() };
    let mut out = Out::create(&a.out);
    if let Some(p) = &a.replay {
        for c in read_cases(p) {
            let o = run_case(&mut cx, &c);
            out.case(&c, &o);
        }
        out.finish();
        return;
    }
    let mut r = Rng::new(a.seed);
    let thorough = a.tier == "thorough";
    let max_tokens = if thorough { 400 } else { 14 };
    while out.lines < a.n {
        let dup = r.chance(1, 6);
        let topo = gen_topo(&mut r, dup);
        let (ns, rs) = topo_s(&topo);
        let npre = r.below(5) as usize;
        let pre: Vec<Strat> = (0..npre).map(|_| gen_strat(&mut r, &topo)).collect();
        let pres = if pre.is_empty() { "-".to_string() } else { pre.iter().map(strat_s).collect::<Vec<_>>().join(";") };
        // queries: every registered strategy, variations of them, fresh ones
        let mut queries: Vec<Strat> = pre.clone();
        for p in &pre {
            if r.bool() {
                queries.push(vary(&mut r, p));
            }
        }
        for _ in 0..r.range(1, 3) {
            queries.push(gen_strat(&mut r, &topo));
        }
        let mut pts = token_points(&topo);
        if pts.len() > max_tokens {
            // keep the extremes, sample the rest
            let keep: Vec<i64> = vec![pts[0], pts[pts.len() - 1]];
            r.shuffle(&mut pts);
            pts.truncate(max_tokens - 2);
            pts.extend(keep);
            pts.sort();
            pts.dedup();
        }
        let mut dcs: Vec<Option<u64>> = vec![None];
        for d in ring_dcs(&topo) {
            dcs.push(Some(d));
        }
        dcs.push(Some(ABSENT_DC));
        dcs.push(Some(2));
        dcs.dedup();
        for q in &queries {
            for d in &dcs {
                // the unrestricted query always; restricted ones sampled in the quick tier
                if d.is_some() && !thorough && !r.chance(1, 3) {
                    continue;
                }
                for tk in &pts {
                    let c = format!("Q {} {} {} {} {} {}", ns, rs, pres, strat_s(q), opt_s(d), hex_i(*tk as i128));
                    let o = run_case(&mut cx, &c);
                    out.case(&c, &o);
                }
            }
        }
    }
    out.finish();
}
