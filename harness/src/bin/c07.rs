//! C07 runner: a real `Session` pages through scripted result sets served by `mocknode`.
//! Per case the mock gets a script (pages with rows + paging state, per-page faults), the caller
//! consumes the row stream (fully, slowly, or drops it early); the runner records the items the
//! caller saw and, from the mock's trace, the paging_state of every QUERY/EXECUTE frame of the
//! statement together with the number of Rows pages the mock had served before it arrived.
//!
//! case : <kind F|S|J|D|U|P|T|E> <mode s|c> <api q|e|E> <cons full|slowMS|jit|dropN|st<state>> <nodes> <policy x|xd|di|dn|f> <script>
//!   kinds: F full read, S slow consumer, J every Pending poll cancelled, D early drop, U UNPREPARED on a later
//!          page, P single page with caller state, T client timeout (4 s), E forced early timeout (400 ms vs 2 s),
//!          X full read right after ANOTHER pager on the same (only) connection abandoned a page request whose
//!          response the mock releases 3 s later, while this pager's first page (delayed 1.5 s) is in flight
//!   mode s : Session::query_iter (api q) / Session::execute_iter (api e; E = with cached result metadata)
//!   mode c : Connection::execute_iter on a bare connection (hook scylla::client::verif_pager), policy f
//!   script : pages joined by ';' ; page = <faults>/<resp>
//!     faults : '-' | f(,f)*  f = T (no reply: client timeout) | D<ms> (delayed reply) |
//!              U (ERROR UNPREPARED: the driver re-prepares and re-sends the EXECUTE) |
//!              E<hexcode><s|n|d|i> (ERROR with that code; the retry decision the policy takes:
//!              same target / next target / don't retry / ignore); code 10004 = the mock resets
//!              the connection instead of answering
//!     resp   : R<rows>:<state> | V (RESULT/Void) | X (READY frame)
//!              rows = '-' | hex(.hex)*   state = N (no more pages) | '-' (empty) | hexbytes
//!   cons st<state> (kind P): not a pager -- one page through query_single_page / execute_single_page
//!          resumed with that caller-supplied paging state; observation `p<rows>:<next state>` | `e<code>`
//!   policy x : scripted retry policy (decision carried in the error message; a broken connection is retried on
//!          the next target); xd : the same, but a broken connection is not retried;
//!          di/dn : DefaultRetryPolicy, statement idempotent / not (the generator only emits
//!          faults whose decision under that policy is the one written in the script)
//! observation : <items> <keys>
//!   items : '-' | i(,i)*  i = r<hex> | e<hex> | $ (stream ended);  f<hex> = constructor error
//!   keys  : 'none' | k(,k)*  k = <pages served before, hex>:<paging state N|-|hex>:<mock node that received it>
use futures::StreamExt;
use scylla::client::session::Session;
use scylla::client::session_builder::SessionBuilder;
use scylla::errors::{NextPageError, NextRowError, PagerExecutionError, RequestAttemptError, RequestError};
use scylla::policies::retry::{DefaultRetryPolicy, RequestInfo, RetryDecision, RetryPolicy, RetrySession};
use scylla::statement::Statement;
use scylla::value::{CqlValue, Row};
use scylla_cql::frame::protocol_features::ProtocolFeatures;
use std::sync::Arc;
use std::time::{Duration, Instant};
use vh::mocknode::*;
use vh::*;

const E_TIMEOUT: u32 = 0x10000;
const E_UNEXPECTED: u32 = 0x10001;
const E_EMPTY_PLAN: u32 = 0x10002;
const E_POOL: u32 = 0x10003;
const E_BROKEN: u32 = 0x10004;
const E_OTHER: u32 = 0x1ffff;
/// client-side timeout of the cases that contain a `T` fault.  If the machine freezes for longer
/// than this while another reply of such a case is outstanding, the timeout strikes earlier than
/// scripted; the driver accepts that (a timeout at or before the scripted one), see driver.ml
const TIMEOUT_MS: u64 = 4000;
/// kind E: a short client timeout with one reply scripted to take far longer (2 s), so that the
/// timeout strikes that earlier attempt on purpose (exercises the early-timeout acceptance)
const SHORT_TIMEOUT_MS: u64 = 400;
/// kind X: how long the mock holds the response to the page request pager A gave up on
const STALE_DELAY_MS: u64 = 3000;
static REPLAY: std::sync::atomic::AtomicBool = std::sync::atomic::AtomicBool::new(false);
/// observation of a case that could not run: `error ..` in a generated run (counted and capped by
/// checks/c07.py), `replay-error ..` in a replay (a replay must never pass by not running)
fn not_run(why: String) -> String {
    let tag = if REPLAY.load(std::sync::atomic::Ordering::Relaxed) { "replay-error" } else { "error" };
    format!("{} {}", tag, why.replace(' ', "_"))
}

#[derive(Clone, Debug, PartialEq)]
enum Fault {
    Timeout,
    /// EXECUTE answered UNPREPARED: the driver re-prepares and re-sends inside the same attempt
    Unprep,
    Delay(u64),
    Err(u32, char),
}
#[derive(Clone, Debug, PartialEq)]
enum Resp {
    Rows(Vec<u32>, Option<Vec<u8>>),
    Void,
    NonResult,
}
#[derive(Clone, Debug, PartialEq)]
enum Cons {
    Full,
    Slow(u64),
    /// every poll of next() that returns Pending is a cancelled future (cancel safety)
    Jitter,
    Drop(usize),
    /// not a pager: one page through query_single_page / execute_single_page with this
    /// caller-supplied paging state
    Single(Option<Vec<u8>>),
}
#[derive(Clone, Debug)]
struct Case {
    kind: char,
    mode: char,
    api: char,
    cons: Cons,
    nodes: usize,
    policy: String,
    script: Vec<(Vec<Fault>, Resp)>,
}

fn state_str(s: &Option<Vec<u8>>) -> String {
    match s {
        None => "N".into(),
        Some(b) => hex_bytes(b),
    }
}

impl Case {
    fn line(&self) -> String {
        let cons = match &self.cons {
            Cons::Full => "full".to_string(),
            Cons::Slow(ms) => format!("slow{:x}", ms),
            Cons::Jitter => "jit".to_string(),
            Cons::Single(st) => format!("st{}", state_str(st)),
            Cons::Drop(n) => format!("drop{:x}", n),
        };
        let pages: Vec<String> = self
            .script
            .iter()
            .map(|(fs, r)| {
                let f = if fs.is_empty() {
                    "-".to_string()
                } else {
                    fs.iter()
                        .map(|f| match f {
                            Fault::Timeout => "T".to_string(),
                            Fault::Unprep => "U".to_string(),
                            Fault::Delay(ms) => format!("D{:x}", ms),
                            Fault::Err(c, d) => format!("E{:x}{}", c, d),
                        })
                        .collect::<Vec<_>>()
                        .join(",")
                };
                let r = match r {
                    Resp::Void => "V".to_string(),
                    Resp::NonResult => "X".to_string(),
                    Resp::Rows(rows, st) => {
                        let rs = if rows.is_empty() { "-".to_string() } else { rows.iter().map(|x| format!("{:x}", x)).collect::<Vec<_>>().join(".") };
                        format!("R{}:{}", rs, state_str(st))
                    }
                };
                format!("{}/{}", f, r)
            })
            .collect();
        format!("{} {} {} {} {:x} {} {}", self.kind, self.mode, self.api, cons, self.nodes, self.policy, pages.join(";"))
    }

    fn parse(s: &str) -> Option<Case> {
        let f: Vec<&str> = s.split_whitespace().collect();
        if f.len() != 7 || (f[1] != "s" && f[1] != "c") {
            return None;
        }
        let cons = if f[3] == "full" {
            Cons::Full
        } else if f[3] == "jit" {
            Cons::Jitter
        } else if let Some(st) = f[3].strip_prefix("st") {
            if st == "N" {
                Cons::Single(None)
            } else if st == "-" {
                Cons::Single(Some(vec![]))
            } else {
                Cons::Single(Some((0..st.len() / 2).map(|i| u8::from_str_radix(&st[2 * i..2 * i + 2], 16).ok()).collect::<Option<Vec<u8>>>()?))
            }
        } else if let Some(ms) = f[3].strip_prefix("slow") {
            Cons::Slow(u64::from_str_radix(ms, 16).ok()?)
        } else if let Some(n) = f[3].strip_prefix("drop") {
            Cons::Drop(usize::from_str_radix(n, 16).ok()?)
        } else {
            return None;
        };
        let hexb = |h: &str| -> Option<Vec<u8>> {
            if h == "-" {
                return Some(vec![]);
            }
            (0..h.len() / 2).map(|i| u8::from_str_radix(&h[2 * i..2 * i + 2], 16).ok()).collect()
        };
        let mut script = Vec::new();
        for pg in f[6].split(';') {
            let (fs, r) = pg.split_once('/')?;
            let mut faults = Vec::new();
            if fs != "-" {
                for t in fs.split(',') {
                    faults.push(match t.as_bytes()[0] {
                        b'T' => Fault::Timeout,
                        b'U' => Fault::Unprep,
                        b'D' => Fault::Delay(u64::from_str_radix(&t[1..], 16).ok()?),
                        b'E' => Fault::Err(u32::from_str_radix(&t[1..t.len() - 1], 16).ok()?, t.chars().last()?),
                        _ => return None,
                    });
                }
            }
            let resp = match r.as_bytes()[0] {
                b'V' => Resp::Void,
                b'X' => Resp::NonResult,
                b'R' => {
                    let (rows, st) = r[1..].split_once(':')?;
                    let rows = if rows == "-" { vec![] } else { rows.split('.').map(|x| u32::from_str_radix(x, 16).ok()).collect::<Option<Vec<_>>>()? };
                    let st = if st == "N" { None } else { Some(hexb(st)?) };
                    Resp::Rows(rows, st)
                }
                _ => return None,
            };
            script.push((faults, resp));
        }
        Some(Case { kind: f[0].chars().next()?, mode: f[1].chars().next()?, api: f[2].chars().next()?, cons, nodes: usize::from_str_radix(f[4], 16).ok()?, policy: f[5].to_string(), script })
    }

    fn has_timeout(&self) -> bool {
        self.script.iter().any(|(fs, _)| fs.contains(&Fault::Timeout))
    }
    /// cases that wait on wall-clock time get an environment of their own and run side by side
    fn own_env(&self) -> bool {
        self.has_timeout() || self.kind == 'X'
    }
    fn has_break(&self) -> bool {
        self.mode == 's' && self.script.iter().any(|(fs, _)| fs.iter().any(|f| matches!(f, Fault::Err(c, _) if *c == E_BROKEN)))
    }
}

// ------------------------------------------------------------------------------------------
// scripted retry policy: the decision travels in the error message ("verif:<s|n|d|i>")
// ------------------------------------------------------------------------------------------
#[derive(Debug)]
struct ScriptedPolicy {
    /// policy "x": a broken connection is retried on the next target; "xd": it is not retried
    broken_next: bool,
}
struct ScriptedSession {
    broken_next: bool,
}
impl RetryPolicy for ScriptedPolicy {
    fn new_session(&self) -> Box<dyn RetrySession> {
        Box::new(ScriptedSession { broken_next: self.broken_next })
    }
}
impl RetrySession for ScriptedSession {
    fn decide_should_retry(&mut self, info: RequestInfo) -> RetryDecision {
        match info.error {
            RequestAttemptError::DbError(_, msg) => match msg.strip_prefix("verif:") {
                Some("s") => RetryDecision::RetrySameTarget(None),
                Some("n") => RetryDecision::RetryNextTarget(None),
                Some("i") => RetryDecision::IgnoreWriteError,
                _ => RetryDecision::DontRetry,
            },
            RequestAttemptError::BrokenConnectionError(_) if self.broken_next => RetryDecision::RetryNextTarget(None),
            _ => RetryDecision::DontRetry,
        }
    }
    fn reset(&mut self) {}
}

fn dberr_for(code: u32) -> DbErr {
    match code {
        0x0000 => DbErr::ServerError,
        0x000A => DbErr::ProtocolError,
        0x1000 => DbErr::Unavailable { consistency: 1, required: 2, alive: 1 },
        0x1001 => DbErr::Overloaded,
        0x1002 => DbErr::IsBootstrapping,
        0x1003 => DbErr::TruncateError,
        0x1100 => DbErr::WriteTimeout { consistency: 1, received: 0, required: 1, write_type: "SIMPLE".into() },
        0x1200 => DbErr::ReadTimeout { consistency: 1, received: 1, required: 1, data_present: false },
        0x1300 => DbErr::ReadFailure { consistency: 1, received: 0, required: 1, numfailures: 1, data_present: false },
        0x2000 => DbErr::SyntaxError,
        0x2100 => DbErr::Unauthorized,
        0x2200 => DbErr::Invalid,
        0x2300 => DbErr::ConfigError,
        c => DbErr::Other { code: c as i32, extra: vec![] },
    }
}

fn request_error_code(e: &RequestError) -> u32 {
    match e {
        RequestError::EmptyPlan => E_EMPTY_PLAN,
        RequestError::ConnectionPoolError(_) => E_POOL,
        RequestError::RequestTimeout(_) => E_TIMEOUT,
        RequestError::LastAttemptError(a) => match a {
            RequestAttemptError::DbError(db, _) => db.code(&ProtocolFeatures::default()) as u32,
            RequestAttemptError::UnexpectedResponse(_) => E_UNEXPECTED,
            RequestAttemptError::BrokenConnectionError(_) => E_BROKEN,
            _ => E_OTHER,
        },
        _ => E_OTHER,
    }
}
fn next_page_error_code(e: &NextPageError) -> u32 {
    match e {
        NextPageError::RequestFailure(r) => request_error_code(r),
        _ => E_OTHER - 1,
    }
}

// ------------------------------------------------------------------------------------------
// one mock cluster + session per node count
// ------------------------------------------------------------------------------------------
struct Env {
    cluster: MockCluster,
    session: Session,
    nodes: usize,
    table: TableDef,
    cols: Vec<ColSpec>,
    counter: u64,
}

/// every node has a pool connection (one that never sent REGISTER); the driver adds a
/// connection to its pool right after the handshake, the extra sleep covers that step
async fn wait_pools(cluster: &MockCluster, nodes: usize) {
    let t0 = Instant::now();
    loop {
        let ok = (0..nodes).all(|n| cluster.connections(Some(n)).iter().any(|c| c.registered.is_empty()))
            && cluster.connections(None).len() > nodes;
        if ok || t0.elapsed() > Duration::from_secs(10) {
            break;
        }
        tokio::time::sleep(Duration::from_millis(5)).await;
    }
    tokio::time::sleep(Duration::from_millis(80)).await;
}

async fn make_env(nodes: usize) -> Env {
    let table = TableDef::new("t", &[("pk", CqlType::Int)], &[("ck", CqlType::Int)], &[("v", CqlType::Int)]);
    let spec = ClusterSpec::uniform("c07", &[("dc1", nodes)], 1, 4, 1).with_keyspace(KeyspaceDef::simple("ks", nodes as u32).with_table(table.clone()));
    // environment trouble (address probing, listener start) gets three tries before the whole
    // group is reported as not run
    let mut cluster = None;
    for attempt in 0..3 {
        match MockCluster::start(spec.clone()).await {
            Ok(c) => {
                cluster = Some(c);
                break;
            }
            Err(e) => {
                eprintln!("c07: mock cluster start failed (attempt {}): {}", attempt, e);
                tokio::time::sleep(Duration::from_millis(300)).await;
            }
        }
    }
    let cluster = cluster.expect("start mock cluster");
    // no wall-clock bound the runner did not choose: no default request timeout (30 s in the
    // default profile), no keepalive or metadata traffic that could time out when the machine
    // freezes for a while
    let profile = scylla::client::execution_profile::ExecutionProfile::builder().request_timeout(None).build();
    let session: Session = SessionBuilder::new()
        .known_node_addr(cluster.contact_point(0))
        .local_ip_address(Some(cluster.client_ip()))
        .connection_timeout(Duration::from_secs(60))
        .default_execution_profile_handle(profile.into_handle())
        .keepalive_interval(Duration::from_secs(3600))
        .keepalive_timeout(Duration::from_secs(3600))
        .cluster_metadata_refresh_interval(Duration::from_secs(3600))
        .metadata_request_clientside_timeout(Duration::from_secs(600))
        .build()
        .await
        .expect("session");
    wait_pools(&cluster, nodes).await;
    let cols = vec![table.col_spec("ks", "v").expect("column v")];
    Env { cluster, session, nodes, table, cols, counter: 0 }
}

fn actions_for(env: &Env, c: &Case) -> Vec<Action> {
    let mut out = Vec::new();
    for (fs, r) in &c.script {
        for f in fs {
            match f {
                Fault::Timeout => out.push(Action::NoReply),
                Fault::Unprep => out.push(Action::Unprepared),
                Fault::Delay(ms) => out.push(Action::Delay(*ms)),
                Fault::Err(code, _) if *code == E_BROKEN => out.push(Action::Close(CutKind::Rst)),
                Fault::Err(code, d) => out.push(Action::Error(ErrorSpec::new(dberr_for(*code), &format!("verif:{}", d)))),
            }
        }
        out.push(match r {
            Resp::Void => Action::Void,
            Resp::NonResult => Action::RawBody { opcode: op::READY, body: vec![] },
            Resp::Rows(rows, st) => {
                let mut spec = RowsSpec::new(env.cols.clone(), rows.iter().map(|v| vec![cell::int(*v as i32)]).collect()).with_meta(MetaMode::Auto);
                if let Some(s) = st {
                    spec = spec.with_paging_state(s.clone());
                }
                Action::Rows(spec)
            }
        });
    }
    out
}

/// (pages served before, paging state) of every QUERY/EXECUTE of the statement, in arrival order
fn keys_from_trace(trace: &[TraceEvent], text: &str, id: &[u8]) -> Vec<(usize, Option<Vec<u8>>, usize)> {
    let mut keys = Vec::new();
    let mut served = 0usize;
    // (conn, stream) of our requests that still wait for their reply
    let mut pending: Vec<(u64, i16)> = Vec::new();
    for e in trace {
        match &e.ev {
            Ev::In { opcode, body, stream, .. } if *opcode == op::QUERY => {
                if let Ok(q) = wire::decode_query(body) {
                    if q.text == text {
                        keys.push((served, q.params.paging_state.clone(), e.node));
                        pending.push((e.conn_id, *stream));
                    }
                }
            }
            Ev::In { opcode, body, stream, .. } if *opcode == op::EXECUTE => {
                if let Ok(x) = wire::decode_execute(body, false) {
                    if x.id == id {
                        keys.push((served, x.params.paging_state.clone(), e.node));
                        pending.push((e.conn_id, *stream));
                    }
                }
            }
            Ev::Out { opcode, body, stream, .. } => {
                if let Some(i) = pending.iter().position(|p| *p == (e.conn_id, *stream)) {
                    pending.remove(i);
                    // RESULT whose kind is Rows (0x0002)
                    if *opcode == op::RESULT && body.len() >= 4 && body[0..4] == [0, 0, 0, 2] {
                        served += 1;
                    }
                }
            }
            _ => {}
        }
    }
    keys
}

fn fmt_keys(keys: &[(usize, Option<Vec<u8>>, usize)]) -> String {
    if keys.is_empty() {
        return "none".into();
    }
    keys.iter().map(|(p, s, n)| format!("{:x}:{}:{:x}", p, state_str(s), n)).collect::<Vec<_>>().join(",")
}

async fn run_case(env: &mut Env, c: &Case) -> String {
    env.counter += 1;
    let uniq = env.counter;
    let text = if c.mode == 'c' {
        format!("SELECT v FROM ks.t WHERE ck = {}", uniq)
    } else if c.api != 'q' {
        format!("SELECT v FROM ks.t WHERE pk = ? AND ck = {}", uniq)
    } else {
        format!("SELECT v FROM ks.t WHERE pk = {}", uniq)
    };
    if c.mode == 'c' {
        env.cluster.on_prepare(&text, env.table.prepared("ks", &[], &["v"]));
    } else if c.api != 'q' {
        env.cluster.on_prepare(&text, env.table.prepared("ks", &["pk"], &["v"]));
    }
    let id = env.cluster.prepared_id(&text);
    env.cluster.script(NodeSel::Any, text.as_str(), actions_for(env, c));
    let timeout = if c.kind == 'E' {
        Some(Duration::from_millis(SHORT_TIMEOUT_MS))
    } else if c.has_timeout() {
        Some(Duration::from_millis(TIMEOUT_MS))
    } else {
        None
    };
    let retry: Arc<dyn RetryPolicy> = if c.policy.starts_with('x') { Arc::new(ScriptedPolicy { broken_next: c.policy != "xd" }) } else { Arc::new(DefaultRetryPolicy::new()) };
    let idem = c.policy != "dn";

    // kind X: before the pager of the case (B) runs, ANOTHER pager (A) on the same, only
    // connection times out on its second page while the mock holds that response for 3 s; B is
    // started 2.2 s after A gave up and its first page (delayed 1.5 s by its script) is in flight
    // when A's stale response arrives.  B must deliver exactly its own pages.
    let mut stale_text: Option<String> = None;
    if c.kind == 'X' {
        let text_a = format!("SELECT v FROM ks.t WHERE pk = {} AND other = 1", uniq);
        let a_rows = |base: u32, n: u32| -> Vec<Vec<Cell>> { (0..n).map(|i| vec![cell::int((base + i) as i32)]).collect() };
        env.cluster.script(
            NodeSel::Any,
            text_a.as_str(),
            vec![
                Action::Rows(RowsSpec::new(env.cols.clone(), a_rows(0xa000, 3)).with_paging_state(b"pg-A-1".to_vec()).with_meta(MetaMode::Auto)),
                Action::Delay(STALE_DELAY_MS),
                Action::Rows(RowsSpec::new(env.cols.clone(), a_rows(0xa100, 3)).with_paging_state(b"pg-A-2".to_vec()).with_meta(MetaMode::Auto)),
            ],
        );
        let mut st = Statement::new(text_a.clone());
        st.set_page_size(3);
        st.set_retry_policy(Some(Arc::new(ScriptedPolicy { broken_next: true })));
        st.set_request_timeout(Some(Duration::from_millis(300)));
        let mut a_items = Vec::new();
        match env.session.query_iter(st, ()).await {
            Ok(p) => {
                if let Ok(mut stream) = p.rows_stream::<Row>() {
                    while let Some(x) = stream.next().await {
                        match x {
                            Ok(_) => a_items.push('r'),
                            Err(NextRowError::NextPageError(e)) if next_page_error_code(&e) == E_TIMEOUT => a_items.push('t'),
                            Err(_) => a_items.push('e'),
                        }
                    }
                }
            }
            Err(_) => a_items.push('f'),
        }
        if a_items != ['r', 'r', 'r', 't'] {
            return not_run(format!("stale-schedule:pager-A-saw-{}", a_items.iter().collect::<String>()));
        }
        tokio::time::sleep(Duration::from_millis(2200)).await;
        stale_text = Some(text_a);
    }

    if let Cons::Single(st) = &c.cons {
        use scylla::errors::ExecutionError;
        use scylla::response::PagingState;
        let ps = match st {
            None => PagingState::start(),
            Some(b) => PagingState::new_from_raw_bytes(b.clone()),
        };
        let res = if c.api == 'q' {
            let mut stm = Statement::new(text.clone());
            stm.set_page_size(5);
            stm.set_retry_policy(Some(retry));
            stm.set_is_idempotent(idem);
            env.session.query_single_page(stm, (), ps).await
        } else {
            let mut stm = Statement::new(text.clone());
            stm.set_page_size(5);
            match env.session.prepare(stm).await {
                Ok(mut p) => {
                    p.set_retry_policy(Some(retry));
                    p.set_is_idempotent(idem);
                    env.session.execute_single_page(&p, (uniq as i32,), ps).await
                }
                Err(e) => return not_run(format!("prepare-failed:{:?}", e)),
            }
        };
        let out = match res {
            Ok((qr, psr)) => {
                let next = match psr.into_paging_control_flow() {
                    std::ops::ControlFlow::Continue(p) => p.as_bytes_slice().map(|b| b.to_vec()),
                    std::ops::ControlFlow::Break(()) => None,
                };
                match qr.into_rows_result() {
                    Ok(rr) => {
                        let rows: Vec<String> = match rr.rows::<(i32,)>() {
                            Ok(it) => it.map(|r| r.map(|(v,)| format!("{:x}", v as u32)).unwrap_or_else(|_| "?".into())).collect(),
                            Err(_) => vec!["?".into()],
                        };
                        format!("p{}:{}", if rows.is_empty() { "-".to_string() } else { rows.join(".") }, state_str(&next))
                    }
                    Err(_) => "pv".to_string(),
                }
            }
            Err(ExecutionError::LastAttemptError(a)) => format!("e{:x}", request_error_code(&RequestError::LastAttemptError(a))),
            Err(ExecutionError::RequestTimeout(_)) => format!("e{:x}", E_TIMEOUT),
            Err(ExecutionError::EmptyPlan) => format!("e{:x}", E_EMPTY_PLAN),
            Err(ExecutionError::ConnectionPoolError(_)) => format!("e{:x}", E_POOL),
            Err(_) => format!("e{:x}", E_OTHER),
        };
        let trace = env.cluster.drain_trace();
        let keys = keys_from_trace(&trace, &text, &id);
        return format!("{} {}", out, fmt_keys(&keys));
    }
    let mut items: Vec<String> = Vec::new();
    let ctor_err = |e: &PagerExecutionError| match e {
        PagerExecutionError::NextPageError(e) => format!("f{:x}", next_page_error_code(e)),
        _ => format!("f{:x}", E_OTHER - 2),
    };
    let pager: Result<scylla::client::pager::QueryPager, String> = if c.mode == 'c' {
        // Connection::execute_iter (the control connection's pager) on a bare connection to node 0
        let mut st = Statement::new(text.clone());
        st.set_page_size(5);
        st.set_request_timeout(timeout);
        match scylla::client::verif_pager::execute_iter_on_new_connection(env.cluster.contact_point(0), st).await {
            Err(e) => return not_run(format!("setup:{}", e)),
            Ok(Err(NextRowError::NextPageError(e))) => Err(format!("f{:x}", next_page_error_code(&e))),
            Ok(Err(_)) => Err(format!("f{:x}", E_OTHER - 5)),
            Ok(Ok(p)) => Ok(p),
        }
    } else if c.api != 'q' {
        let mut st = Statement::new(text.clone());
        st.set_page_size(5);
        match env.session.prepare(st).await {
            Ok(mut p) => {
                // 'E': result metadata cached at PREPARE time, pages arrive with NO_METADATA
                p.set_use_cached_result_metadata(c.api == 'E');
                p.set_retry_policy(Some(retry));
                p.set_is_idempotent(idem);
                p.set_request_timeout(timeout);
                env.session.execute_iter(p, (uniq as i32,)).await.map_err(|e| ctor_err(&e))
            }
            Err(e) => return not_run(format!("prepare-failed:{:?}", e)),
        }
    } else {
        let mut st = Statement::new(text.clone());
        st.set_page_size(5);
        st.set_retry_policy(Some(retry));
        st.set_is_idempotent(idem);
        st.set_request_timeout(timeout);
        env.session.query_iter(st, ()).await.map_err(|e| ctor_err(&e))
    };
    match pager {
        Err(f) => items.push(f),
        Ok(pager) => match pager.rows_stream::<Row>() {
            Err(_) => items.push(format!("f{:x}", E_OTHER - 3)),
            Ok(mut stream) => {
                let limit = match c.cons {
                    Cons::Drop(n) => n,
                    _ => usize::MAX,
                };
                while items.len() < limit {
                    let nxt = if c.cons == Cons::Jitter {
                        // poll once; a Pending poll drops (cancels) the future, then try again
                        loop {
                            if let Some(x) = futures::FutureExt::now_or_never(stream.next()) {
                                break x;
                            }
                            tokio::time::sleep(Duration::from_micros(100)).await;
                        }
                    } else {
                        stream.next().await
                    };
                    match nxt {
                        None => {
                            items.push("$".into());
                            break;
                        }
                        Some(Ok(row)) => match row.columns.first() {
                            Some(Some(CqlValue::Int(v))) => items.push(format!("r{:x}", *v as u32)),
                            _ => items.push("r?".into()),
                        },
                        Some(Err(NextRowError::NextPageError(e))) => items.push(format!("e{:x}", next_page_error_code(&e))),
                        Some(Err(_)) => items.push(format!("e{:x}", E_OTHER - 4)),
                    }
                    if let Cons::Slow(ms) = c.cons {
                        tokio::time::sleep(Duration::from_millis(ms)).await;
                    }
                }
                drop(stream);
            }
        },
    }
    if matches!(c.cons, Cons::Drop(_)) || c.has_timeout() {
        // drop: let the worker task notice the drop; timeout: the client may return its error
        // before the frame it queued last has reached the mock.  Wait until the mock has seen
        // nothing new from this statement for a while.  An early snapshot only makes the request list shorter,
        // which the acceptor allows; it never makes a correct run look wrong.
        // timeout cases: the frame queued last must have reached the mock before the trace is
        // read, so the quiet window is long (300 ms without a new request, at most 3 s)
        let (quiet, max_ms) = if c.has_timeout() { (60, 3000) } else { (4, 400) };
        let t0 = Instant::now();
        let mut last = usize::MAX;
        let mut stable = 0;
        while t0.elapsed() < Duration::from_millis(max_ms) && stable < quiet {
            tokio::time::sleep(Duration::from_millis(5)).await;
            let n = env.cluster.script_len(NodeSel::Any, text.as_str());
            if n == last {
                stable += 1;
            } else {
                stable = 0;
                last = n;
            }
        }
    }
    let trace = env.cluster.drain_trace();
    let keys = keys_from_trace(&trace, &text, &id);
    if let Some(text_a) = &stale_text {
        // the schedule only counts when A's stale response was written while B's first request
        // was in flight (received by the mock before, answered after)
        let mut a_second: Option<(u64, i16)> = None;
        let mut t_a_second = 0u64;
        let mut a_seen = 0;
        let mut t_stale: Option<u64> = None;
        let mut b_first_in: Option<u64> = None;
        let mut b_first: Option<(u64, i16)> = None;
        for e in &trace {
            match &e.ev {
                Ev::In { opcode, body, stream, .. } if *opcode == op::QUERY || *opcode == op::EXECUTE => {
                    let is_a = *opcode == op::QUERY && wire::decode_query(body).is_ok_and(|q| &q.text == text_a);
                    let is_b = (*opcode == op::QUERY && wire::decode_query(body).is_ok_and(|q| q.text == text))
                        || (*opcode == op::EXECUTE && wire::decode_execute(body, false).is_ok_and(|x| x.id == id));
                    if is_a {
                        a_seen += 1;
                        if a_seen == 2 {
                            a_second = Some((e.conn_id, *stream));
                            t_a_second = e.t_ns;
                        }
                    } else if is_b && b_first.is_none() {
                        b_first = Some((e.conn_id, *stream));
                        b_first_in = Some(e.t_ns);
                    }
                }
                // the held response is recognised by its content (A's second page carries the
                // paging state "pg-A-2"); the stream id may have been reused in between
                Ev::Out { stream, body, .. }
                    if t_stale.is_none() && Some((e.conn_id, *stream)) == a_second && body.windows(6).any(|w| w == b"pg-A-2") =>
                {
                    t_stale = Some(e.t_ns);
                }
                _ => {}
            }
        }
        let same_conn = matches!((a_second, b_first), (Some((ca, _)), Some((cb, _))) if ca == cb);
        let overlapped = matches!((b_first_in, t_stale), (Some(tb), Some(ts)) if tb < ts);
        if !(same_conn && overlapped) {
            return not_run(format!("stale-schedule:same_conn={},overlapped={},a2={:?}@{},b1={:?}@{:?},stale@{:?}", same_conn, overlapped, a_second, t_a_second / 1_000_000, b_first, b_first_in.map(|t| t / 1_000_000), t_stale.map(|t| t / 1_000_000)));
        }
    }
    if c.has_break() {
        wait_pools(&env.cluster, env.nodes).await;
    }
    let items = if items.is_empty() { "-".to_string() } else { items.join(",") };
    format!("{} {}", items, fmt_keys(&keys))
}

// ------------------------------------------------------------------------------------------
// generators
// ------------------------------------------------------------------------------------------
fn gen_state(r: &mut Rng) -> Vec<u8> {
    match r.below(12) {
        0 => vec![],
        1 => vec![r.u64() as u8],
        2 => r.bytes(300),
        3 => vec![0; 4],
        _ => {
            let n = r.range(1, 24) as usize;
            r.bytes(n)
        }
    }
}

/// a retried fault for the given policy: (code, decision)
fn gen_retried(r: &mut Rng, policy: &str, used_rt: &mut bool) -> Fault {
    match policy {
        "x" => {
            let code = *r.pick(&[0x1001u32, 0x1002, 0x1003, 0x0000, 0x1200, 0x1100, 0x1000, 0x2200, 0x1300]);
            Fault::Err(code, if r.bool() { 's' } else { 'n' })
        }
        "di" => {
            if !*used_rt && r.chance(1, 4) {
                *used_rt = true;
                Fault::Err(0x1200, 's')
            } else {
                Fault::Err(*r.pick(&[0x1001u32, 0x0000, 0x1003, 0x1002]), 'n')
            }
        }
        _ => {
            if !*used_rt && r.chance(1, 3) {
                *used_rt = true;
                Fault::Err(0x1200, 's')
            } else {
                Fault::Err(0x1002, 'n')
            }
        }
    }
}
/// a fault the policy does not retry
fn gen_fatal(r: &mut Rng, policy: &str) -> Fault {
    match policy {
        "x" => Fault::Err(*r.pick(&[0x2200u32, 0x2000, 0x2100, 0x2300, 0x1001, 0x1200, 0x0000]), 'd'),
        "di" => Fault::Err(*r.pick(&[0x2200u32, 0x2000, 0x2100, 0x2300, 0x1300, 0x1100]), 'd'),
        // Connection::execute_iter: every error is final, retryable-looking ones and a reset included
        "f" => Fault::Err(*r.pick(&[0x2200u32, 0x1001, 0x1002, 0x1200, 0x1000, 0x0000, E_BROKEN]), 'd'),
        _ => Fault::Err(*r.pick(&[0x2200u32, 0x2000, 0x1001, 0x0000, 0x1003, 0x1100]), 'd'),
    }
}

fn gen_case(r: &mut Rng, max_rows: usize, tier_thorough: bool) -> Case {
    let nodes = r.range(1, 4) as usize;
    // a fifth of the cases go through Connection::execute_iter (no retries there: policy "f")
    let mode = if r.chance(1, 5) { 'c' } else { 's' };
    let mut policy = if mode == 'c' {
        "f"
    } else {
        match r.below(10) {
            0..=5 => "x",
            6 | 7 => "di",
            _ => "dn",
        }
    }
    .to_string();
    let api = if mode == 'c' { 'e' } else { *r.pick(&['q', 'e', 'E']) };
    // result set 0..N rows with distinct values, split into pages (empty pages anywhere)
    let total = match r.below(8) {
        0 => 0,
        1 => r.range(0, 3) as usize,
        2 => max_rows,
        _ => r.range(0, max_rows as u64) as usize,
    };
    let max_pages = if tier_thorough { 24 } else { 9 };
    let npages = r.range(1, max_pages) as usize;
    let mut cuts: Vec<usize> = (0..npages - 1).map(|_| r.range(0, total as u64) as usize).collect();
    cuts.sort();
    if r.chance(1, 4) {
        // clusters of empty pages
        for i in 1..cuts.len() {
            if r.bool() {
                cuts[i] = cuts[i - 1];
            }
        }
    }
    let base = r.below(1 << 20) as u32;
    let mut pages: Vec<Vec<u32>> = Vec::new();
    let mut prev = 0;
    for k in 0..npages {
        let end = if k == npages - 1 { total } else { cuts[k] };
        pages.push((prev..end).map(|i| base + i as u32).collect());
        prev = end;
    }
    let same_state = r.chance(1, 10);
    let fixed = gen_state(r);
    let mut script: Vec<(Vec<Fault>, Resp)> = Vec::new();
    // cases with a reset connection run in an environment of their own (4 nodes).  A reset pool
    // may still be empty when a later target is picked, which silently skips that target; so
    // such cases use at most ONE next-target decision per page and at most one reset: two of
    // the four targets always suffice, whatever the refill timing.
    let bcase = nodes == 4 && r.chance(1, 5);
    for (k, rows) in pages.iter().enumerate() {
        let st = if k == npages - 1 { None } else if same_state { Some(fixed.clone()) } else { Some(gen_state(r)) };
        let mut faults = Vec::new();
        let mut used_rt = false;
        if mode == 's' && r.chance(1, 3) {
            let nf = r.range(1, 3);
            let mut adv = 0;
            for _ in 0..nf {
                let f = gen_retried(r, &policy, &mut used_rt);
                if let Fault::Err(_, d) = &f {
                    if *d == 'n' {
                        // keep the plan from running out here (exhaustion is generated separately)
                        let budget = if bcase { 1 } else { nodes - 1 };
                        if adv + 1 > budget {
                            continue;
                        }
                        adv += 1;
                    }
                }
                faults.push(f);
            }
        }
        if r.chance(1, 6) {
            let at = r.below(faults.len() as u64 + 1) as usize;
            faults.insert(at, Fault::Delay(r.range(1, 12)));
        }
        script.push((faults, Resp::Rows(rows.clone(), st)));
    }
    if bcase && mode == 's' {
        // exactly one reset connection, as the only next-target decision of its page.  With the
        // scripted policy and with DefaultRetryPolicy on an idempotent statement the broken
        // connection is retried on the next target; DefaultRetryPolicy on a non-idempotent
        // statement does not retry it (the error surfaces after the earlier pages)
        let kb = r.below(npages as u64) as usize;
        script[kb].0.retain(|f| !matches!(f, Fault::Err(_, 'n')));
        let at = r.below(script[kb].0.len() as u64 + 1) as usize;
        if policy == "dn" || (policy == "x" && r.chance(1, 3)) {
            if policy == "x" {
                policy = "xd".to_string();
            }
            script[kb].0.truncate(at);
            script[kb].0.push(Fault::Err(E_BROKEN, 'd'));
        } else {
            script[kb].0.insert(at, Fault::Err(E_BROKEN, 'n'));
        }
    }
    if api != 'q' && npages >= 2 && r.chance(1, 8) {
        // the prepared statement is evicted while the caller pages
        let k = r.range(1, npages as u64 - 1) as usize;
        script[k].0.insert(0, Fault::Unprep);
    }
    if r.chance(1, 30) {
        // a reply that takes long compared with everything else (but there is no timeout)
        let k = r.below(npages as u64) as usize;
        script[k].0.insert(0, Fault::Delay(r.range(50, 300)));
    }
    let mut kind = 'F';
    // boundary / failing stream
    match r.below(16) {
        0 | 1 | 2 => {
            // a non-retried failure on page k
            let k = r.below(npages as u64) as usize;
            let f = gen_fatal(r, &policy);
            script[k].0.push(f);
        }
        3 if policy == "x" => {
            let k = r.below(npages as u64) as usize;
            script[k].0.push(Fault::Err(0x1100, 'i'));
        }
        4 if !bcase && mode == 's' => {
            // the plan runs out: more next-target decisions than nodes
            let k = r.below(npages as u64) as usize;
            let code = if policy == "x" { 0x1001 } else { 0x1002 };
            for _ in 0..nodes {
                script[k].0.push(Fault::Err(code, 'n'));
            }
        }
        5 => {
            let k = r.below(npages as u64) as usize;
            script[k].1 = if r.bool() { Resp::Void } else { Resp::NonResult };
        }
        6 if r.chance(1, 3) => {
            // the server announces "no more pages" before the script ends: the rest must not be read
            let k = r.below(npages as u64) as usize;
            if let Resp::Rows(rows, _) = script[k].1.clone() {
                script[k].1 = Resp::Rows(rows, None);
            }
        }
        _ => {}
    }
    let items_total: usize = pages.iter().map(|p| p.len()).sum::<usize>() + 1;
    let cons = match r.below(10) {
        0..=5 => Cons::Full,
        6 => {
            kind = 'S';
            Cons::Slow(r.range(1, 3))
        }
        7 => {
            kind = 'J';
            Cons::Jitter
        }
        _ => {
            kind = 'D';
            Cons::Drop(r.below(items_total as u64 + 1) as usize)
        }
    };
    // slow consumers only on short streams (keeps the run inside its budget)
    let cons = match cons {
        Cons::Slow(_) if items_total > 25 => {
            kind = 'F';
            Cons::Full
        }
        c => c,
    };
    Case { kind, mode, api, cons, nodes, policy, script }
}

/// all page-size sequences over {0,1,2} of length <= 3, read fully (systematic empty-page coverage)
fn small_exhaustive() -> Vec<Case> {
    let mut out = Vec::new();
    for len in 1..=3usize {
        for code in 0..3usize.pow(len as u32) {
            let mut sizes = Vec::new();
            let mut x = code;
            for _ in 0..len {
                sizes.push(x % 3);
                x /= 3;
            }
            let mut next = 0x100u32;
            let script = sizes
                .iter()
                .enumerate()
                .map(|(k, s)| {
                    let rows: Vec<u32> = (0..*s).map(|_| { next += 1; next }).collect();
                    let st = if k + 1 == len { None } else { Some(vec![k as u8, 0xAB]) };
                    (vec![], Resp::Rows(rows, st))
                })
                .collect();
            out.push(Case { kind: 'F', mode: 's', api: if code % 2 == 0 { 'q' } else { 'e' }, cons: Cons::Full, nodes: 1 + code % 3, policy: "x".into(), script });
        }
    }
    out
}

fn timeout_cases(r: &mut Rng, n: usize) -> Vec<Case> {
    (0..n)
        .map(|i| {
            // modes alternate in pairs so that every consumer kind (i % 4) meets both modes
            let mode = if i % 4 == 3 {
                // the dropping case alternates between a Session pager and the connection pager
                if (i / 4) % 2 == 0 { 's' } else { 'c' }
            } else if i % 2 == 1 {
                'c'
            } else {
                's'
            };
            let nodes = r.range(2, 4) as usize;
            let npages = r.range(1, 4) as usize;
            let k = r.below(npages as u64) as usize;
            let mut next = 0x7000u32 + (i as u32) * 64;
            let script = (0..npages)
                .map(|p| {
                    let rows: Vec<u32> = (0..r.below(4)).map(|_| { next += 1; next }).collect();
                    let st = if p + 1 == npages { None } else { Some(gen_state(r)) };
                    let mut fs = vec![];
                    if p == k {
                        // the timeout covers all attempts of the page: also after a retry on the
                        // same or on the next target (Session pagers only: the connection pager
                        // never retries, an error before the T would end the read)
                        if mode == 's' {
                            match r.below(3) {
                                0 => fs.push(Fault::Err(0x1001, 's')),
                                1 => fs.push(Fault::Err(0x1002, 'n')),
                                _ => {}
                            }
                        }
                        fs.push(Fault::Timeout);
                    }
                    (fs, Resp::Rows(rows, st))
                })
                .collect();
            // one in four drops the stream early (before or after the timeout surfaced)
            let cons = match i % 4 {
                1 => Cons::Jitter,
                2 => Cons::Slow(1),
                3 => Cons::Drop(r.below(6) as usize),
                _ => Cons::Full,
            };
            Case { kind: 'T', mode, api: if mode == 'c' || r.bool() { 'e' } else { 'q' }, cons, nodes, policy: if mode == 'c' { "f".into() } else { "x".into() }, script }
        })
        .collect()
}

/// kind E: the client timeout is short (400 ms) and one reply BEFORE the scripted `T` is delayed
/// by 2 s: the timeout strikes that earlier attempt, deterministically.  The driver must accept
/// the observation through the early-timeout acceptor (and only through it).
fn forced_early_timeout_cases(r: &mut Rng, n: usize) -> Vec<Case> {
    (0..n)
        .map(|i| {
            // i % 3 == 2: a Session pager whose caller drops the stream after the early timeout
            // surfaced (delay on a page >= 1, so that the constructor succeeds): the observation
            // can only be explained by accept_drop_timeout
            let dropping = i % 3 == 2;
            let mode = if !dropping && i % 2 == 1 { 'c' } else { 's' };
            let npages = r.range(2, 4) as usize;
            let kt = r.range(1, npages as u64 - 1) as usize; // page of the scripted T
            let kd = if dropping { r.range(1, kt as u64) as usize } else { r.below(kt as u64 + 1) as usize }; // page of the long delay (<= kt)
            let mut next = 0xe000u32 + (i as u32) * 64;
            let mut rows_before = 0usize;
            let script = (0..npages)
                .map(|p| {
                    let rows: Vec<u32> = (0..r.range(1, 3)).map(|_| { next += 1; next }).collect();
                    if p < kd {
                        rows_before += rows.len();
                    }
                    let st = if p + 1 == npages { None } else { Some(gen_state(r)) };
                    let mut fs = vec![];
                    if p == kd {
                        fs.push(Fault::Delay(2000));
                    }
                    if p == kt {
                        if p == kd {
                            // the delayed reply is a retried error; the scripted T comes after it
                            fs.push(Fault::Err(0x1001, if mode == 's' { 's' } else { 'd' }));
                        }
                        fs.push(Fault::Timeout);
                    }
                    (fs, Resp::Rows(rows, st))
                })
                .collect();
            // take the rows before the struck page and the error (and sometimes the end as well)
            let cons = if dropping { Cons::Drop(rows_before + 1 + r.below(2) as usize) } else { Cons::Full };
            Case { kind: 'E', mode, api: if mode == 'c' || r.bool() { 'e' } else { 'q' }, cons, nodes: 2, policy: if mode == 'c' { "f".into() } else { "x".into() }, script }
        })
        .collect()
}

/// kind X (seeded change C07-3): the pager of the case runs on the only connection of a one-node
/// session right after another pager gave up on a page whose response the mock still holds; its
/// first page is delayed (1.5 s) so that it is in flight when the stale response is released.
/// A response that belongs to an abandoned request must never reach this pager.
fn stale_response_cases(r: &mut Rng, n: usize) -> Vec<Case> {
    (0..n)
        .map(|i| {
            let npages = r.range(2, 5) as usize;
            let mut next = 0xc000u32 + (i as u32) * 64;
            let script = (0..npages)
                .map(|p| {
                    let rows: Vec<u32> = (0..r.range(1, 3)).map(|_| { next += 1; next }).collect();
                    let st = if p + 1 == npages { None } else { Some(gen_state(r)) };
                    let fs = if p == 0 { vec![Fault::Delay(1500)] } else { vec![] };
                    (fs, Resp::Rows(rows, st))
                })
                .collect();
            Case { kind: 'X', mode: 's', api: *r.pick(&['q', 'e', 'E']), cons: if i % 2 == 0 { Cons::Full } else { Cons::Jitter }, nodes: 1, policy: "x".into(), script }
        })
        .collect()
}

/// slow consumer x error on a later page: the worker is ahead (page 1 sits in the channel while
/// the caller still reads page 0) when the request of page k >= 2 fails; the error must still
/// reach the caller after every row of the earlier pages
fn slow_error_cases(r: &mut Rng, n: usize) -> Vec<Case> {
    (0..n)
        .map(|i| {
            let mode = if i % 4 == 3 { 'c' } else { 's' };
            let npages = r.range(3, 5) as usize;
            let k = r.range(2, npages as u64 - 1) as usize;
            let mut next = 0x9000u32 + (i as u32) * 64;
            let script = (0..npages)
                .map(|p| {
                    let nrows = if p == 0 { r.range(3, 6) } else { r.below(4) };
                    let rows: Vec<u32> = (0..nrows).map(|_| { next += 1; next }).collect();
                    let st = if p + 1 == npages { None } else { Some(gen_state(r)) };
                    let mut fs = vec![];
                    if p == k {
                        if mode == 's' && r.bool() {
                            fs.push(Fault::Err(0x1001, 's'));
                        }
                        fs.push(Fault::Err(*r.pick(&[0x2200u32, 0x2000, 0x1001, 0x1200]), 'd'));
                    }
                    (fs, Resp::Rows(rows, st))
                })
                .collect();
            Case {
                kind: 'S',
                mode,
                api: if mode == 'c' { 'e' } else { *r.pick(&['q', 'e', 'E']) },
                cons: Cons::Slow(r.range(2, 4)),
                nodes: r.range(1, 3) as usize,
                policy: if mode == 'c' { "f".into() } else { "x".into() },
                script,
            }
        })
        .collect()
}

/// prepared statement evicted on the server while the caller pages: UNPREPARED on page k >= 1
/// (and sometimes on page 0); the re-sent EXECUTE must carry the same paging state
fn unprepared_cases(r: &mut Rng, n: usize) -> Vec<Case> {
    (0..n)
        .map(|i| {
            let mode = if i % 5 == 4 { 'c' } else { 's' };
            let npages = r.range(2, 5) as usize;
            let mut next = 0xb000u32 + (i as u32) * 64;
            let mut script: Vec<(Vec<Fault>, Resp)> = (0..npages)
                .map(|p| {
                    let rows: Vec<u32> = (0..r.range(1, 4)).map(|_| { next += 1; next }).collect();
                    let st = if p + 1 == npages { None } else { Some(gen_state(r)) };
                    (vec![], Resp::Rows(rows, st))
                })
                .collect();
            let k = r.range(1, npages as u64 - 1) as usize;
            script[k].0.push(Fault::Unprep);
            if r.chance(1, 4) {
                script[0].0.push(Fault::Unprep);
            }
            if mode == 's' && r.chance(1, 3) {
                // eviction and a retried error on the same page, either order
                if r.bool() {
                    script[k].0.push(Fault::Err(0x1001, 's'));
                } else {
                    script[k].0.insert(0, Fault::Err(0x1001, 's'));
                }
            }
            let cons = match r.below(4) {
                0 => Cons::Slow(1),
                1 => Cons::Jitter,
                _ => Cons::Full,
            };
            Case { kind: 'U', mode, api: if mode == 'c' || r.bool() { 'e' } else { 'E' }, cons, nodes: r.range(1, 3) as usize, policy: if mode == 'c' { "f".into() } else { "x".into() }, script }
        })
        .collect()
}

/// one page resumed with a paging state the caller kept (query_single_page / execute_single_page)
fn single_cases(r: &mut Rng, n: usize) -> Vec<Case> {
    (0..n)
        .map(|i| {
            let nodes = r.range(1, 3) as usize;
            let st = match r.below(5) {
                0 => None,
                _ => Some(gen_state(r)),
            };
            let mut fs = Vec::new();
            let mut adv = 0;
            for _ in 0..r.below(3) {
                if r.bool() {
                    fs.push(Fault::Err(*r.pick(&[0x1001u32, 0x1200, 0x1100]), 's'));
                } else if adv + 1 < nodes {
                    adv += 1;
                    fs.push(Fault::Err(*r.pick(&[0x1002u32, 0x1000, 0x0000]), 'n'));
                }
            }
            match r.below(7) {
                0 => fs.push(Fault::Err(*r.pick(&[0x2200u32, 0x2000, 0x1001]), 'd')),
                1 => {
                    for _ in 0..nodes {
                        fs.push(Fault::Err(0x1002, 'n'));
                    }
                }
                2 if i % 2 == 0 => fs.push(Fault::Err(0x1100, 'i')),
                _ => {}
            }
            let base = 0xd000u32 + (i as u32) * 16;
            let rows: Vec<u32> = (0..r.below(5)).map(|k| base + k as u32).collect();
            let next = if r.bool() { Some(gen_state(r)) } else { None };
            // every tenth case answers with RESULT/Void, every tenth with a non-RESULT frame
            let resp = match i % 10 {
                4 => Resp::Void,
                9 => Resp::NonResult,
                _ => Resp::Rows(rows, next),
            };
            Case { kind: 'P', mode: 's', api: if r.bool() { 'q' } else { 'e' }, cons: Cons::Single(st), nodes, policy: "x".into(), script: vec![(fs, resp)] }
        })
        .collect()
}

async fn run_group(nodes: usize, cases: Vec<(usize, Case)>) -> Vec<(usize, String, String)> {
    let mut env = make_env(nodes).await;
    let mut out = Vec::new();
    for (idx, c) in cases {
        // watchdog: a case that neither finishes nor fails within 5 minutes is reported as a hang
        let o = match tokio::time::timeout(Duration::from_secs(300), run_case(&mut env, &c)).await {
            Ok(o) => o,
            Err(_) => "hang none".to_string(),
        };
        out.push((idx, c.line(), o));
    }
    drop(env.session);
    env.cluster.shutdown();
    out
}

fn main() {
    let a = parse_args();
    quiet_panics();
    let mut cases: Vec<Case> = Vec::new();
    // lines that could not even be parsed: reported, never dropped
    let mut unparsable: Vec<String> = Vec::new();
    if let Some(p) = &a.replay {
        REPLAY.store(true, std::sync::atomic::Ordering::Relaxed);
        for l in read_cases(p) {
            match Case::parse(&l) {
                Some(c) => cases.push(c),
                None => unparsable.push(l),
            }
        }
    } else {
        let mut r = Rng::new(a.seed);
        let thorough = a.tier == "thorough";
        let max_rows = if thorough { 400 } else { 40 };
        cases.extend(small_exhaustive());
        for _ in 0..a.n {
            cases.push(gen_case(&mut r, max_rows, thorough));
        }
        cases.extend(slow_error_cases(&mut r, if thorough { 80 } else { 16 }));
        cases.extend(unprepared_cases(&mut r, if thorough { 80 } else { 16 }));
        cases.extend(single_cases(&mut r, if thorough { 200 } else { 30 }));
        cases.extend(stale_response_cases(&mut r, if thorough { 8 } else { 5 }));
        cases.extend(timeout_cases(&mut r, if thorough { 16 } else { 8 }));
        cases.extend(forced_early_timeout_cases(&mut r, if thorough { 18 } else { 9 }));
    }
    let all_lines: Vec<String> = cases.iter().map(|c| c.line()).collect();
    let rt = tokio::runtime::Builder::new_multi_thread().worker_threads(6).enable_all().build().expect("runtime");
    let mut results = rt.block_on(async move {
        // groups: one environment per node count; timeout cases (each waits for the client
        // timeout) get environments of their own and run side by side
        let mut groups: Vec<(usize, bool, Vec<(usize, Case)>)> = Vec::new();
        for (i, c) in cases.into_iter().enumerate() {
            let brk = c.has_break();
            if c.own_env() {
                groups.push((c.nodes, true, vec![(i, c)]));
            } else if let Some(g) = groups.iter_mut().find(|g| g.0 == c.nodes && g.1 == brk && g.2.first().is_some_and(|x| !x.1.own_env())) {
                g.2.push((i, c));
            } else {
                groups.push((c.nodes, brk, vec![(i, c)]));
            }
        }
        let mut handles = Vec::new();
        for (nodes, _, cs) in groups {
            handles.push(tokio::spawn(run_group(nodes, cs)));
        }
        let mut all = Vec::new();
        for h in handles {
            match h.await {
                Ok(v) => all.extend(v),
                // the cases of a group that died (mock cluster / session could not start, a
                // panic in the runner) are reported below as `error group-failed`
                Err(e) => eprintln!("c07: group failed: {:?}", e),
            }
        }
        all
    });
    // every generated / replayed case gets a line: what did not run is an error, not silence
    let done: std::collections::HashSet<usize> = results.iter().map(|x| x.0).collect();
    for (i, l) in all_lines.iter().enumerate() {
        if !done.contains(&i) {
            results.push((i, l.clone(), not_run("group-failed".to_string())));
        }
    }
    results.sort_by_key(|x| x.0);
    let mut out = Out::create(&a.out);
    for (_, c, o) in results {
        out.case(&c, &o);
    }
    for l in unparsable {
        out.case(&l, "error unparsable-case");
    }
    out.finish();
}
