//! C05 runner (`pure` engine, hook H2): builds REAL `ClusterState`s from generated topologies
//! (`scylla::cluster::verif_state`), sets per-node enabled / connected flags
//! (`scylla::cluster::verif_node_flags`), builds a REAL `DefaultPolicy` and records `pick()`,
//! `fallback()` and three complete `Plan::new(..)` iterations for generated requests.
//!
//! One case line:
//!   P <nodes> <ring> <keyspaces> <flags> <policy> <request> | <pick> <fallback> <plan> <plan> <plan>
//! nodes, ring   as in the C04 runner
//! keyspaces     strategy;strategy...  (keyspace i is named ks<i>; all precomputed) or `-`
//! flags         one letter per node: c = enabled+connected, e = enabled only, d = disabled
//! policy        <pref>/<token_aware>/<permit_dc_failover>/<shuffling>
//!               pref: i (inherit from the request) | a | d<dc> | r<dc>.<rack>
//! request       <token|_>/<ks index | u (table in an unknown keyspace) | _ (no table)>/<lwt>/<pref>
//!               lwt: 0 | 1 (is_confirmed_lwt) | 2 (Consistency::Serial) | 3 (LocalSerial)
//! second kind:  L <nodes> <ring> <keyspaces> <flags at pick()> <flags afterwards> <policy> <request> | <plan>
//!               one Plan whose first target is taken under the first liveness and the rest under the second
//!               (only generated when pick() yields a target)
//! observed      pick: `_` or id:shard (shard `_` = None); fallback: id:shard,... ; plans: id:shard,...
use scylla::cluster::ClusterState;
use scylla::cluster::verif_node_flags as flags;
use scylla::frame::response::result::TableSpec;
use scylla::frame::types::Consistency;
use scylla::policies::load_balancing::{DefaultPolicy, LoadBalancingPolicy, Plan, RoutingInfo};
use scylla::routing::{NodeLocationPreference, Token};
use std::panic::AssertUnwindSafe;
use std::sync::Arc;
use uuid::Uuid;
use vh::*;

#[path = "../ring_util.rs"]
mod ru;
use ru::*;

fn parse_pref(s: &str) -> Option<NodeLocationPreference> {
    let h = |x: &str| u64::from_str_radix(x, 16).unwrap();
    match &s[..1] {
        "i" => None,
        "a" => Some(NodeLocationPreference::Any),
        "d" => Some(NodeLocationPreference::Datacenter(format!("dc{}", h(&s[1..])))),
        "r" => {
            let (d, r) = s[1..].split_once('.').unwrap();
            Some(NodeLocationPreference::DatacenterAndRack(format!("dc{}", h(d)), format!("r{}", h(r))))
        }
        _ => panic!("bad pref"),
    }
}

struct Ctx {
    rt: tokio::runtime::Runtime,
    key: String,
    cluster: Option<ClusterState>,
}

fn tgt(n: &Arc<scylla::cluster::Node>, s: Option<u32>) -> String {
    format!("{}:{}", hex_u(n.host_id.as_u128()), s.map(|x| hex_u(x as u128)).unwrap_or("_".into()))
}

fn run_case(cx: &mut Ctx, case: &str) -> String {
    let mut f: Vec<&str> = case.split_whitespace().collect();
    let two = f.len() == 8 && f[0] == "L";
    let flags2 = if two { Some(f.remove(5)) } else { None };
    if f.len() != 7 || (f[0] != "P" && f[0] != "L") {
        return "error unknown-case".into();
    }
    let key = format!("{} {} {}", f[1], f[2], f[3]);
    let topo = parse_topo(f[1], f[2]);
    if cx.key != key {
        let kss: Vec<Strat> = if f[3] == "-" { vec![] } else { f[3].split(';').map(parse_strat).collect() };
        cx.cluster = Some(build(&cx.rt, &topo, &kss));
        cx.key = key;
    }
    install_sharders(&topo);
    // liveness flags
    let set_flags = |fs: &str| {
        flags::clear_node_flags();
        for ((id, _, _), fl) in topo.nodes.iter().zip(fs.chars()) {
            let (en, co) = match fl {
                'c' => (true, true),
                'e' => (true, false),
                _ => (false, false),
            };
            flags::set_node_flags(Uuid::from_u128(*id as u128), en, co);
        }
    };
    set_flags(f[4]);
    let cluster = cx.cluster.as_ref().unwrap();
    // policy
    let pf: Vec<&str> = f[5].split('/').collect();
    let mut b = DefaultPolicy::builder()
        .token_aware(pf[1] == "1")
        .permit_dc_failover(pf[2] == "1")
        .enable_shuffling_replicas(pf[3] == "1");
    b = match parse_pref(pf[0]) {
        None => b.inherit_location_preference(),
        Some(NodeLocationPreference::Any) => b.prefer_no_datacenter(),
        Some(NodeLocationPreference::Datacenter(d)) => b.prefer_datacenter(d),
        Some(NodeLocationPreference::DatacenterAndRack(d, r)) => b.prefer_datacenter_and_rack(d, r),
        Some(_) => b,
    };
    let policy: Arc<dyn LoadBalancingPolicy> = b.build();
    // request
    let rf: Vec<&str> = f[6].split('/').collect();
    let ks_name = match rf[1] {
        "_" => None,
        "u" => Some("no_such_keyspace".to_string()),
        i => Some(format!("ks{}", u64::from_str_radix(i, 16).unwrap())),
    };
    let table = ks_name.as_ref().map(|k| TableSpec::owned(k.clone(), "t".to_string()));
    let req_pref = parse_pref(rf[3]).unwrap_or(NodeLocationPreference::Any);
    let mut ri = RoutingInfo::default();
    ri.token = if rf[0] == "_" { None } else { Some(Token::new(parse_i(rf[0]))) };
    ri.table = table.as_ref();
    ri.is_confirmed_lwt = rf[2] == "1";
    ri.consistency = match rf[2] {
        "2" => Consistency::Serial,
        "3" => Consistency::LocalSerial,
        _ => Consistency::Quorum,
    };
    ri.node_location_preference = &req_pref;

    if let Some(fl2) = flags2 {
        let r = catch(AssertUnwindSafe(|| {
            if policy.pick(&ri, cluster).is_none() {
                return "nopick".to_string();
            }
            let mut plan = Plan::new(policy.as_ref(), &ri, cluster);
            let mut out: Vec<String> = plan.next().map(|(n, s)| tgt(n, Some(s))).into_iter().collect();
            set_flags(fl2);
            out.extend(plan.map(|(n, s)| tgt(n, Some(s))));
            if out.is_empty() { "-".to_string() } else { out.join(",") }
        }));
        flags::clear_node_flags();
        return r.unwrap_or_else(|_| "panic".into());
    }
    let r = catch(AssertUnwindSafe(|| {
        let pick = match policy.pick(&ri, cluster) {
            Some((n, s)) => tgt(n, s),
            None => "_".into(),
        };
        let fb: Vec<String> = policy.fallback(&ri, cluster).map(|(n, s)| tgt(n, s)).collect();
        let mut out = vec![pick, if fb.is_empty() { "-".into() } else { fb.join(",") }];
        for _ in 0..3 {
            let p: Vec<String> = Plan::new(policy.as_ref(), &ri, cluster).map(|(n, s)| tgt(n, Some(s))).collect();
            out.push(if p.is_empty() { "-".into() } else { p.join(",") });
        }
        out.join(" ")
    }));
    flags::clear_node_flags();
    match r {
        Ok(s) => s,
        Err(_) => "panic".into(),
    }
}

fn pref_s(r: &mut Rng, t: &Topo, allow_inherit: bool) -> String {
    let dcs = ring_dcs(t);
    let some_dc = |r: &mut Rng| -> u64 {
        if dcs.is_empty() || r.chance(1, 8) { *r.pick(&[0u64, 1, 2, ABSENT_DC]) } else { *r.pick(&dcs) }
    };
    match r.below(if allow_inherit { 9 } else { 7 }) {
        0 | 1 => "a".into(),
        2 | 3 => format!("d{}", hex_u(some_dc(r) as u128)),
        4..=6 => {
            let d = some_dc(r);
            // a rack that exists in that datacenter most of the time
            let racks: Vec<u64> = t.nodes.iter().filter(|n| n.1 == Some(d)).filter_map(|n| n.2).collect();
            let rk = if racks.is_empty() || r.chance(1, 6) { r.below(5) } else { *r.pick(&racks) };
            format!("r{}.{}", hex_u(d as u128), hex_u(rk as u128))
        }
        _ => "i".into(),
    }
}

fn gen_flags(r: &mut Rng, n: usize) -> String {
    let style = r.below(6);
    (0..n)
        .map(|_| match style {
            0 => 'c',
            1 => *r.pick(&['c', 'c', 'c', 'e', 'd']),
            2 => *r.pick(&['c', 'e', 'd']),
            3 => *r.pick(&['e', 'e', 'd', 'c']),
            4 => *r.pick(&['d', 'd', 'd', 'e']),
            _ => *r.pick(&['c', 'c', 'e']),
        })
        .collect()
}

fn main() {
    let a = parse_args();
    quiet_panics();
    let rt = tokio::runtime::Builder::new_current_thread().enable_all().build().unwrap();
    let mut cx = Ctx { rt, key: String::new(), cluster: None };
    let mut out = Out::create(&a.out);
    if let Some(p) = &a.replay {
        for c in read_cases(p) {
            let o = run_case(&mut cx, &c);
            out.case(&c, &o);
        }
        out.finish();
        return;
    }
    let mut r = Rng::new(a.seed);
    let thorough = a.tier == "thorough";
    while out.lines < a.n {
        let dup = r.chance(1, 8);
        let topo = gen_topo(&mut r, dup);
        let (ns, rs) = topo_s(&topo);
        let nks = r.range(1, 4) as usize;
        let kss: Vec<Strat> = (0..nks).map(|_| gen_strat(&mut r, &topo)).collect();
        let ksss = kss.iter().map(strat_s).collect::<Vec<_>>().join(";");
        let pts = token_points(&topo);
        let nflags = if thorough { 6 } else { 3 };
        let npol = if thorough { 8 } else { 5 };
        let nreq = if thorough { 6 } else { 4 };
        let n = topo.nodes.len();
        let mut flag_sets: Vec<String> = (0..nflags).map(|_| gen_flags(&mut r, n)).collect();
        // every {enabled+connected, enabled, disabled} assignment for small clusters
        let exhaustive = n <= if thorough { 4 } else { 3 };
        if exhaustive {
            flag_sets.clear();
            for mut code in 0..3usize.pow(n as u32) {
                let mut f = String::new();
                for _ in 0..n {
                    f.push(['c', 'e', 'd'][code % 3]);
                    code /= 3;
                }
                flag_sets.push(f);
            }
        }
        let (npol, nreq) = if exhaustive { (2, 2) } else { (npol, nreq) };
        let emit = |r: &mut Rng, fl: &str, pol: &str, out: &mut Out, cx: &mut Ctx| {
            let tok = if r.chance(1, 8) { "_".to_string() } else { hex_i(*r.pick(&pts) as i128) };
            let ks = match r.below(10) {
                0 => "_".to_string(),
                1 => "u".to_string(),
                _ => hex_u(r.below(nks as u64) as u128),
            };
            let lwt = match r.below(8) {
                0..=3 => 0,
                4 | 5 => 1,
                6 => 2,
                _ => 3,
            };
            let req = format!("{}/{}/{}/{}", tok, ks, lwt, pref_s(r, &topo, false));
            let c = format!("P {} {} {} {} {} {}", ns, rs, ksss, fl, pol, req);
            let o = run_case(cx, &c);
            out.case(&c, &o);
            if r.chance(1, 5) {
                // liveness changes after pick(): a few nodes change state
                let fl2: String = fl
                    .chars()
                    .map(|ch| if r.chance(1, 3) { *r.pick(&['c', 'e', 'd']) } else { ch })
                    .collect();
                let c = format!("L {} {} {} {} {} {} {}", ns, rs, ksss, fl, fl2, pol, req);
                let o = run_case(cx, &c);
                if o != "nopick" {
                    out.case(&c, &o);
                }
            }
        };
        for fl in &flag_sets {
            for _ in 0..npol {
                let pol = format!(
                    "{}/{}/{}/{}",
                    pref_s(&mut r, &topo, true),
                    if r.chance(4, 5) { 1 } else { 0 },
                    r.below(2),
                    r.below(2)
                );
                for _ in 0..nreq {
                    emit(&mut r, fl, &pol, &mut out, &mut cx);
                }
            }
        }
        // directed: a preferred datacenter whose nodes are all down (at least one of them still
        // enabled) while remote nodes are connected, with and without failover, with and without rack
        let dcs = ring_dcs(&topo);
        if dcs.len() >= 2 {
            let d = *r.pick(&dcs);
            let mut one_enabled = false;
            let fl: String = topo
                .nodes
                .iter()
                .map(|nd| {
                    if nd.1 == Some(d) {
                        if !one_enabled || r.bool() {
                            one_enabled = true;
                            'e'
                        } else {
                            'd'
                        }
                    } else if r.chance(1, 6) {
                        'e'
                    } else {
                        'c'
                    }
                })
                .collect();
            let rack = topo.nodes.iter().find(|nd| nd.1 == Some(d)).and_then(|nd| nd.2).unwrap_or(0);
            for pref in [format!("d{}", hex_u(d as u128)), format!("r{}.{}", hex_u(d as u128), hex_u(rack as u128))] {
                for fo in [1, 0] {
                    let pol = format!("{}/{}/{}/{}", pref, if r.chance(3, 4) { 1 } else { 0 }, fo, r.below(2));
                    for _ in 0..2 {
                        emit(&mut r, &fl, &pol, &mut out, &mut cx);
                    }
                }
            }
        }
    }
    out.finish();
}
